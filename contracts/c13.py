"""C13 - file serving and downloading never leave their directory.  Sidecar contracts.

Server side (sftp.py SFTPServer):
  * map_path maps EVERY client byte string to a path inside the configured root (`inside`, specs/paths.py);
  * reverse_map_path / realpath / readlink never report a local path from outside the root (SFTPNoSuchFile instead);
  * symlink creates the link inside the root and stores a target that stays inside it;
  * an AST dataflow scan shows that every path any server operation hands to the OS comes out of map_path.
Download side:
  * SCP sink (scp.py): _parse_cd_args only returns names without '/', '\\' and != '..'; _recv_files / _recv_dir /
    _recv_file / run hand every file-system operation the destination they were given or a direct child of it
    (induction over the D/E nesting: a callee works below the path it is given - its own contract);
  * recursive SFTP get/copy (sftp.py): in _copy every file-system operation is on the destination it was given and
    the recursion goes to a DIRECT CHILD of it for every name a remote scandir reply can contain; SFTPGlob only
    reports the listed directory or direct children of it for names taken from a reply, and the whole matcher
    (match / _match / _match_exact / _match_pattern) keeps the invariant "a reported path ends in '..' only if the
    caller's pattern has a '..' component"; _begin_copy assumes exactly that invariant of its source names and
    places every source at the named destination or at a DIRECT CHILD of it unless the caller wrote '..' himself
    (basename / compose_path of both file-system classes are under contract).
Obligations about names are stated at the call sites that consume them (`pre-at-call`), for arbitrary byte strings.
"""
import z3
from pyvc.contracts import *
from pyvc.engine import LoopSpec, Out, Prove
from pyvc.values import *
from specs import paths as P
from specs.paths import Z

P.register()

ASSUMPTIONS = [
    'posixpath.join / normpath / basename / dirname / isabs (and their os.path aliases on POSIX) are external: '
    'uninterpreted functions constrained by the assumed contracts in specs/paths.py (checked against the real '
    "functions exhaustively for all strings over {'/', '.', 'a'} up to length 8 - quick - or 10 - thorough; a "
    'bounded check of the assumption only)',
    'POSIX only: _to_local_path / _from_local_path / os.fsencode are the identity on bytes (the win32 drive and '
    'backslash branches are unverified)',
    'symlinks that already exist on disk and the kernel resolution of them are outside a path contract; '
    'os.path.realpath / os.path.relpath are uninterpreted functions of their arguments (file system state fixed '
    'during one request)',
    'SFTPServer.symlink: os.path.relpath(p, start=d) is assumed LEXICALLY correct (join(d, relpath(p, d)) names the '
    'same file as p).  That fails when a component of the link directory is itself a symbolic link that leads '
    'upward: the rewritten relative target is computed textually and can then resolve outside the root - this is '
    'the "symlinks already on disk" case, outside the contract',
    'SFTPServer.symlink is verified for a server with a root configured (requires chroot set); the location a '
    'relative target is resolved against is the link path without its final component; the algebra relating '
    'map_path(dirname(normpath(p))) to the directory part of map_path(p) is an assumed property of the posixpath '
    'externals (bounded exhaustive check, extra_checks) and the string lemma built on it is proved by SMT',
    'destination-side file system STATE is modelled only as far as links created by the same transfer go: every '
    'destination entry composed from a remote name must be shown not to be a symbolic link (dstfs.islink answered '
    'False) before it is descended into / written (a hostile server can list a name twice: symlink, then directory '
    'or file).  Links that already existed on disk, and races between the test and the use, are outside the contract',
    'the file-system objects handed to _copy / _begin_copy are LocalFS or SFTPClient (the two implementations of '
    '_SFTPFSProtocol, both under contract for basename / compose_path).  For LocalFS - the destination of every '
    'download - isdir / exists / mkdir / symlink / setstat / open are under contract (exactly the path and flags '
    'given reach os.*), and so is _setstat; for SFTPClient as a destination (remote-to-remote copy, upload) the '
    'I/O methods are assumed to touch exactly the path they are given',
    '_setstat: os.truncate has no follow_symlinks form, so a size in the attributes is applied through a link even '
    'with follow_symlinks=False; no download path passes a size (the SFTP copy and the SCP sink build attributes '
    'without one), server-side lsetstat with a size is a functional matter inside the root',
    '_SFTPFileCopier.__init__/run are verified through the C12 contracts re-registered under C13 (opens exactly '
    "(_dstpath, 'wb') on _dstfs); scp() / get / mget / put / mput / copy / mcopy / _scp_handler / "
    'SFTPServerHandler are covered by AST scans (argument order, single binding, whitelist of callees), not by '
    'symbolic execution',
    'nested activations (_recv_dir/_recv_file/_recv_files, the recursive _copy, SFTPGlob._match) are used through '
    'the contract "works at and below the path it is given", which is what each of them is verified against',
    'cross-check replays are skipped for _copy, _begin_copy, _match_pattern, realpath, readlink, symlink (they need a '
    'live session / real file system); obligations behind a loop cut have no automatic native replay - the three '
    'findings are replayed by the scripts in notes/findings/c13_*.py',
]

SERVER = {'SFTPServer': {'_chroot': 'opt[bytes]'}}


def chroot_set(c):
    """a root is configured (SFTPServer.__init__ stores None for a missing/empty chroot argument)"""
    v = c.oldv('_chroot')
    return z3.And(z3.Not(v.isnone), z3.Length(v.val.z) > 0)


def chroot(c):
    return c.oldv('_chroot').val.z


def mapped_as(c, path=None, result=None):
    """result == posixpath.join(root, maprel(path)) and maprel(path) is empty or a clean component list"""
    path = c.arg('path') if path is None else path
    result = c.result if result is None else result
    m = P.pp_maprel(path)
    return z3.And(z3.Or([z3.And(g, result == v) for g, v in P.join_cases(Z, chroot(c), m)]),
                  z3.Or(m == Z.lit(b''), P.clean(Z, m)))


def two_slashes(p):
    return z3.And(z3.PrefixOf(Z.lit(b'//'), p), z3.Not(z3.PrefixOf(Z.lit(b'///'), p)))


# ----------------------------------------------------------------------------------------------- sftp.py server

map_path = Spec(
    'C13', 'sftp', 'SFTPServer.map_path', self_class='SFTPServer',
    params=dict(path='bytes'), classes=SERVER, returns='bytes', modifies=[],
    ensures=[
        # the property: whatever byte string the client sends, the local path is the root or below it.
        # (stated as two obligations that together cover every byte string, so that a recorded finding about one
        # class of inputs never hides a failure on the other)
        ('inside-chroot[path-with-exactly-two-leading-slashes]', lambda c: z3.Implies(
            z3.And(chroot_set(c), two_slashes(c.arg('path'))), P.inside(Z, chroot(c), c.result))),
        ('inside-chroot[every-other-path]', lambda c: z3.Implies(
            z3.And(chroot_set(c), z3.Not(two_slashes(c.arg('path')))), P.inside(Z, chroot(c), c.result))),
        ('identity-without-chroot', lambda c: z3.Implies(z3.Not(chroot_set(c)), c.result == c.arg('path'))),
        # functional form (what the callers that relate two mapped paths rely on, e.g. symlink): the local path is
        # the root joined with the root-relative normal form of the client path
        ('root-joined-with-normalised-path', lambda c: z3.Implies(chroot_set(c), mapped_as(c))),
    ],
    lemmas=lambda c: [P.maprel_def(c.arg('path'))],      # definition of pp_maprel (specs/paths.py)
    trusted=P.TRUSTED)

reverse_map_path = Spec(
    'C13', 'sftp', 'SFTPServer.reverse_map_path', self_class='SFTPServer',
    params=dict(path='bytes'), classes=SERVER, returns='bytes', modifies=[],
    ensures=[
        # only paths at or below the root are ever reported, and what is reported is the path relative to the root
        ('only-paths-under-root', lambda c: z3.Implies(chroot_set(c), z3.Or(
            z3.And(c.arg('path') == chroot(c), c.result == Z.lit(b'/')),
            z3.And(z3.PrefixOf(z3.Concat(chroot(c), Z.lit(b'/')), c.arg('path')),
                   c.arg('path') == z3.Concat(chroot(c), c.result), z3.PrefixOf(Z.lit(b'/'), c.result))))),
        ('identity-without-chroot', lambda c: z3.Implies(z3.Not(chroot_set(c)), c.result == c.arg('path'))),
    ],
    raises={'SFTPNoSuchFile': lambda c: z3.And(chroot_set(c), c.arg('path') != chroot(c), z3.Not(
        z3.PrefixOf(z3.Concat(chroot(c), Z.lit(b'/')), c.arg('path'))))},
    trusted=P.TRUSTED)


# modular view of map_path / reverse_map_path for the server operations that call them (contract proved above)
map_path_callee = Spec(
    'C13x', 'sftp', 'SFTPServer.map_path', self_class='SFTPServer', params=dict(path='bytes'), classes=SERVER,
    returns='bytes', modifies=[],
    ensures=[('inside-chroot', lambda c: z3.Implies(chroot_set(c), P.inside(Z, chroot(c), c.result))),
             ('identity-without-chroot', lambda c: z3.Implies(z3.Not(chroot_set(c)), c.result == c.arg('path')))])
# (the functional clause `root-joined-with-normalised-path` of map_path's contract is instantiated where it is needed,
# in symlink_lemmas, instead of at every call: it is heavy for the path-feasibility checks)
Spec.registry.remove(map_path_callee)


def under_root(c, local, reported):
    """`reported` is the local path `local` seen from the root: local is the root or textually below it"""
    return z3.Or(z3.And(local == chroot(c), reported == Z.lit(b'/')),
                 z3.And(z3.PrefixOf(z3.Concat(chroot(c), Z.lit(b'/')), local), local == z3.Concat(chroot(c), reported)))


def not_under_root(c, local):
    return z3.And(local != chroot(c), z3.Not(z3.PrefixOf(z3.Concat(chroot(c), Z.lit(b'/')), local)))


reverse_map_path_callee = Spec(
    'C13x', 'sftp', 'SFTPServer.reverse_map_path', self_class='SFTPServer', params=dict(path='bytes'),
    classes=SERVER, returns='bytes', modifies=[],
    ensures=[('only-paths-under-root', lambda c: z3.Implies(chroot_set(c), under_root(c, c.arg('path'), c.result))),
             ('identity-without-chroot', lambda c: z3.Implies(z3.Not(chroot_set(c)), c.result == c.arg('path')))],
    raises={'SFTPNoSuchFile': lambda c: z3.And(chroot_set(c), not_under_root(c, c.arg('path')))})
Spec.registry.remove(reverse_map_path_callee)

os_realpath = z3.Function('os_realpath', BytesS, BytesS)     # what the links on disk resolve a path to (fixed fs state)
os_relpath = z3.Function('os_relpath', BytesS, BytesS, BytesS)


def identity_stub(cx):
    """_to_local_path / _from_local_path on POSIX: os.fsencode of bytes is the identity"""
    return cx.args[0]


identity_stub.modifies = ()


def realpath_stub(cx):
    return VBytes(os_realpath(cx.args[0].z))


realpath_stub.modifies = ()


def relpath_stub(cx):
    """os.path.relpath(p, start=d), assumed: the result is a relative path and - LEXICALLY, i.e. as long as no
    component of d is a symbolic link that leads upward - joining it onto d names the same file as p"""
    pth, start = cx.args[0].z, cx.kwargs['start'].z
    r = os_relpath(pth, start)
    same = [z3.Implies(g, os_realpath(v) == os_realpath(pth)) for g, v in P.join_cases(Z, start, r)]
    return [Out(ret=VBytes(r), assume=[z3.Not(z3.PrefixOf(Z.lit(b'/'), r))] + same)]


relpath_stub.modifies = ()


def sys_setup(ex, st):
    """`sys.platform`: this tree is verified for POSIX (the win32 branches are listed as unverified)"""
    from pyvc.engine import Record
    st.env['sys'] = st.alloc(Record('SysModule', {'platform': VStr('linux')}), 'SysModule')


def resolved_under_root(c, reported=None):
    """with a root configured, the local path the OS resolution produced (last os.path.realpath call) is at or below
    the root and `reported` is its root-relative form; reported=None: it is NOT under the root"""
    rp = [x for x in c.calls() if x['key'] == 'os.path.realpath']
    if not rp:
        return z3.Not(chroot_set(c)) if reported is not None else z3.BoolVal(False)
    local = rp[-1]['ret'].z
    if reported is None:
        return z3.And(chroot_set(c), not_under_root(c, local))
    return z3.Implies(chroot_set(c), under_root(c, local, reported))


def realpath_arg_is_mapped(c):
    maps = c.calls('self.map_path')
    conj = []
    for k in c.calls():
        if k['key'] == 'os.path.realpath':
            conj.append(z3.Or([k['args'][0].z == q['ret'].z for q in maps]) if maps else z3.BoolVal(False))
    return z3.And(conj) if conj else z3.BoolVal(True)


SERVER_OPS = dict(SERVER, SysModule={'platform': 'str'})
SERVER_STUBS = {'self.map_path': contract_stub(lambda: map_path_callee),
                'self.reverse_map_path': contract_stub(lambda: reverse_map_path_callee),
                '_to_local_path': identity_stub, '_from_local_path': identity_stub,
                'os.path.realpath': realpath_stub}

# realpath / readlink report a path to the client: with a root configured it is the root-relative form of a local
# path at or below the root - whatever the links on disk resolve to - or the request fails with SFTPNoSuchFile
realpath = Spec(
    'C13', 'sftp', 'SFTPServer.realpath', self_class='SFTPServer', params=dict(path='bytes'), classes=SERVER_OPS,
    stubs=SERVER_STUBS, returns='bytes', modifies=[],
    ensures=[('reported-path-is-under-root', lambda c: resolved_under_root(c, c.result))],
    # what is resolved (lstat / readlink of every component) is the mapped path, never the client's own string
    always=[('resolves-only-the-mapped-path', realpath_arg_is_mapped)],
    raises={'SFTPNoSuchFile': lambda c: resolved_under_root(c)},
    trusted=P.TRUSTED)
realpath.no_replay = True      # os.path.realpath consults the real file system

readlink = Spec(
    'C13', 'sftp', 'SFTPServer.readlink', self_class='SFTPServer', params=dict(path='bytes'), classes=SERVER_OPS,
    stubs=dict(SERVER_STUBS, **{'os.readlink': may_raise(ret('bytes', 'link_text'), 'OSError')}),
    setup=sys_setup, returns='bytes', modifies=[],
    ensures=[('reported-path-is-under-root', lambda c: resolved_under_root(c, c.result))],
    raises={'SFTPNoSuchFile': lambda c: resolved_under_root(c), 'OSError': True},
    trusted=P.TRUSTED)
readlink.no_replay = True


def symlink_event_stub(cx):
    return [Out(event=('os.symlink', tuple(cx.args))), Out(exc=VExc('OSError'))]


symlink_event_stub.modifies = ()


def link_location(link):
    """the text a relative link target is resolved against: the link path without its final component (the kernel
    starts the resolution in the directory that holds the link)"""
    bl = P.pp_basename(link)
    return z3.Extract(link, z3.IntVal(0), z3.Length(link) - z3.Length(bl))


def symlink_parts(c):
    """(target, link, root, [the candidate witnesses: for each map_path call q of this path the statement "q's
    result is inside the root and the relative target, RESOLVED AGAINST THE DIRECTORY THAT HOLDS THE LINK, names the
    same file as it"]) - or None when the path did not reach exactly one os.symlink call"""
    evs = c.events('os.symlink')
    if len(evs) != 1:
        return None
    target, link = [a.z for a in evs[0][1]]
    root = chroot(c)
    resolved = z3.Concat(link_location(link), target)
    alts = [z3.And(P.inside(Z, root, q['ret'].z), os_realpath(q['ret'].z) == os_realpath(resolved))
            for q in c.calls('self.map_path')]
    return target, link, root, alts


def symlink_clause(which):
    """The symlink postcondition as three separately named (and separately discharged) clauses:
    link      the link is created inside the root;
    absolute  an absolute target is a mapped (inside) path;
    relative  a relative target stays relative and, resolved against the directory that holds the link (the
              location of map_path(newpath), for every newpath byte string - trailing slashes, '//' and '.'
              components included), names the same file as SOME path inside the root."""
    def clause(c):
        parts = symlink_parts(c)
        if parts is None:
            return z3.BoolVal(False)
        target, link, root, alts = parts
        absolute = z3.PrefixOf(Z.lit(b'/'), c.arg('oldpath'))
        if which == 'link':
            body = P.inside(Z, root, link)
        elif which == 'absolute':
            body = z3.Implies(absolute, P.inside(Z, root, target))
        else:
            body = z3.Implies(z3.Not(absolute), z3.And(z3.Not(z3.PrefixOf(Z.lit(b'/'), target)),
                                                       z3.Or(alts) if alts else z3.BoolVal(False)))
        return z3.Implies(chroot_set(c), body)
    return clause


def link_location_lemma(root, m, d, b, link, bl, mdir, parts=False):
    """Pure string lemma (no program values): if link = join(root, m) and mdir = join(root, d) for a non-empty root,
    where m is d + '/' + b (or just b when d is empty) as in maprel_contract, b = basename(m) and bl = basename(link),
    then bl == b and the link's location (link without bl) is mdir followed by the separator join() would insert.
    Proved once for ALL byte strings in extra_checks (`lemma#link-location-is-the-mapped-directory`); the symlink
    contract uses the instance for the values at hand."""
    hyp = z3.And(z3.Length(root) > 0,
                 z3.Or([z3.And(g, link == v) for g, v in P.join_cases(Z, root, m)]),
                 z3.Or([z3.And(g, mdir == v) for g, v in P.join_cases(Z, root, d)]),
                 P.maprel_contract(Z, m, d, b), P.basename_contract(Z, m, b), P.basename_contract(Z, link, bl))
    loc = z3.Extract(link, z3.IntVal(0), z3.Length(link) - z3.Length(bl))
    concl = z3.And(bl == b, z3.Or([z3.And(g, loc == pref) for g, pref in P.dir_prefix_cases(Z, mdir)]))
    return (hyp, concl) if parts else z3.Implies(hyp, concl)


def lemma_link_location():
    """the string lemma, proved for all byte strings: split into 4 exhaustive cases (root ends in '/' or not, d empty
    or not) x the two conjuncts of the conclusion, each a sub-second cvc5 problem; every piece gets a generous budget
    of its own (120 s) so that the verdict does not depend on machine load"""
    import time
    from pyvc import solve
    names = ('root', 'm', 'd', 'b', 'link', 'bl', 'mdir')
    cs = [z3.Const('ll_' + n, BytesS) for n in names]
    root, d = cs[0], cs[2]
    hyp, concl = link_location_lemma(*cs, parts=True)
    bare, dempty = z3.SuffixOf(Z.lit(b'/'), root), d == Z.lit(b'')
    cases = [z3.And(x, y) for x in (bare, z3.Not(bare)) for y in (dempty, z3.Not(dempty))]     # exhaustive
    verdict, pieces, why = 'proved', [], ''
    saved = solve.CVC5_TIMEOUT_S
    solve.CVC5_TIMEOUT_S = 120
    try:
        for i, cnd in enumerate(cases):
            for j in range(concl.num_args()):
                sol = z3.Solver()
                sol.add(hyp, cnd, z3.Not(concl.arg(j)))
                smt2 = sol.to_smt2()
                t0 = time.time()
                v, w = solve._cvc5(smt2)
                backend = 'cvc5'
                if v == 'unknown':
                    try:
                        v, w2 = solve._z3_try(smt2, 60000)
                        backend, w = 'z3', w + ' | ' + w2
                    except Exception as e:
                        w += ' | ' + repr(e)
                pieces.append({'case': i, 'conjunct': j, 'verdict': v, 'backend': backend,
                               'solver_s': round(time.time() - t0, 2)})
                if v == 'refuted':
                    verdict = 'refuted'
                elif v != 'proved' and verdict == 'proved':
                    verdict, why = 'unknown', f'case {i} conjunct {j}: {w[:150]}'
    finally:
        solve.CVC5_TIMEOUT_S = saved
    return {'name': 'C13.lemma#link-location-is-the-mapped-directory', 'verdict': verdict, 'backend': 'cvc5',
            'pieces': pieces, 'reason': why, 'replayed': False}


def symlink_lemmas(c):
    """instances of assumed contracts of the externals (validated in extra_checks): the maprel algebra for the
    client's newpath, basename of the created link path; and the instance of the string lemma above"""
    evs = c.events('os.symlink')
    newpath = c.arg('newpath')
    out = []
    if len(evs) == 1:
        link = evs[0][1][1].z
        maps = c.calls('self.map_path')
        if len(maps) == 3 and c.raised is None:
            # (only the relative-target paths need any of this)
            out.append(P.maprel_algebra(newpath))
            out.append(P.basename_contract(Z, link, P.pp_basename(link)))
            # map_path's proved clause `root-joined-with-normalised-path` for the directory and the link (callee contract)
            out += [mapped_as(c, q['args'][0].z, q['ret'].z) for q in maps[1:]]
            m = P.pp_maprel(newpath)
            d = P.pp_maprel(P.pp_dirname(P.pp_normpath(newpath)))
            hyp, concl = link_location_lemma(chroot(c), m, d, P.pp_basename(m), link, P.pp_basename(link),
                                             maps[1]['ret'].z, parts=True)
            out.append(z3.Implies(hyp, concl))                      # instance of the proved string lemma
            # its use, as an obligation of its own (keeps the solver's work per goal small): the hypotheses hold here
            out.append(Prove(concl, 'link-location-is-the-mapped-directory'))
            # proof hint for the existential of the `relative` clause: its witness is the first path mapped on this
            # path (the virtual target join(directory of newpath, oldpath), mapped).  Proved as an obligation of its
            # own; the clause itself still only claims SOME inside path (a solver left to search the disjunction
            # spends its time refuting the other candidates).
            parts = symlink_parts(c)
            out.append(Prove(parts[3][0], 'relative-target-resolves-to-the-mapped-virtual-target'))
    return out


symlink = Spec(
    'C13', 'sftp', 'SFTPServer.symlink', self_class='SFTPServer', params=dict(oldpath='bytes', newpath='bytes'),
    classes=SERVER_OPS,
    stubs=dict(SERVER_STUBS, **{'os.path.relpath': relpath_stub, 'os.symlink': symlink_event_stub}),
    modifies=[],
    requires=chroot_set,        # the property is about a server with a root configured (without one paths are unmapped)
    ensures=[('link-is-inside-root', symlink_clause('link')),
             ('absolute-target-is-inside-root', symlink_clause('absolute')),
             ('relative-target-resolves-inside-root', symlink_clause('relative'))],
    lemmas=symlink_lemmas,
    raises={'OSError': True},
    trusted=P.TRUSTED + ['os.path.realpath / os.path.relpath are uninterpreted functions of their arguments (file '
                         'system state fixed during one request); relpath is assumed lexically correct',
                         'assumed algebra of the externals: maprel(dirname(normpath(p))) is the directory part of '
                         'maprel(p) (bounded check in extra_checks)'])
symlink.no_replay = True
symlink.normpath_plain = True      # normpath(newpath) is only handed to dirname: no per-shape paths needed


# ----------------------------------------------------------------------------------------------- scp.py sink

def scp_error_stub(cx):
    """_scp_error(exc_class, reason, ...) builds (does not raise) an instance of exc_class"""
    cls = cx.args[0]
    if not (isinstance(cls, VTag) and cls.tag.startswith('class:')):
        raise Unsupported('_scp_error with a symbolic class')
    return VExc(cls.tag[6:])


scp_error_stub.modifies = ()


def sink_name_ok(n):
    """the SCP sink rule (fix of 2.23.1): a received file name has no '/', no '\\' and is not '..'"""
    return z3.And(z3.Not(z3.Contains(n, Z.lit(b'/'))), z3.Not(z3.Contains(n, Z.lit(b'\\'))), n != Z.lit(b'..'))


parse_cd_args = Spec(
    'C13', 'scp', '_parse_cd_args', params=dict(args='bytes'),
    stubs={'_scp_error': scp_error_stub},
    returns='tuple[int,int,bytes]',
    ensures=[('name-has-no-separator-and-is-not-dotdot', lambda c: sink_name_ok(c.result_v.items[2].z))],
    raises={'SFTPBadMessage': True},
    trusted=P.TRUSTED + ['assumed contract bytes.split(None, 2) (pyvc/builtins_model.by_split_ws)'])



SINK = {'_SCPSink': {'_fs': 'obj:FS', '_preserve': 'bool', '_recurse': 'bool', '_block_size': 'int',
                     '_progress_handler': 'opt[opaque:Handler]'},
        'FS': {}, 'File': {},
        'SFTPAttrs': {'permissions': 'opt[int]', 'atime': 'opt[int]', 'mtime': 'opt[int]'}}
IOERR = ('OSError', 'SFTPError')


def dest_of(cx, param='dstpath'):
    """the destination this activation was asked to fill: its `dstpath` argument as passed in"""
    return cx.ex.entry_state.env[param].z


def touches(what, argidx, ret_type='none', exact=False, raises=IOERR, param='dstpath'):
    """stub of an operation that creates / modifies / descends into the path it is given: at the call site that
    path must be the destination of this activation or (unless `exact`) a direct child of it.  Callees that
    receive a path (_recv_dir, _recv_file, _recv_files) work below the path they are given - their own contract -
    so by induction over the D/E nesting nothing outside the caller's destination is touched."""
    def stub(cx):
        d, a = dest_of(cx, param), cx.args[argidx].z
        ok = a == d if exact else z3.Or(a == d, P.direct_child(Z, d, a))
        cx.require(f'{what}-path-is-the-' + ('destination' if param == 'dstpath' else 'directory') +
                   ('' if exact else '-or-a-direct-child'), ok)
        r = cx.fresh(ret_type, what) if ret_type != 'none' else VNone
        return [Out(ret=r, event=(what, tuple(cx.args)))] + [Out(exc=VExc(e)) for e in raises]
    stub.modifies = ()
    return stub


def recv_request_stub(cx):
    """_SCPHandler.recv_request: (None, None) at end of input, else (one action byte, argument bytes)"""
    a, g = cx.fresh('bytes', 'action'), cx.fresh('bytes', 'reqargs')
    return [Out(ret=VTuple([VNone, VNone])), Out(ret=VTuple([a, g]), assume=[z3.Length(a.z) == 1])]


recv_request_stub.modifies = ()


def handle_error_stub(cx):
    """_SCPHandler.handle_error: reports the error, then returns or re-raises the exception it was given"""
    return [Out(), Out(exc=cx.args[0])]


handle_error_stub.modifies = ()


def new_attrs_stub(cx):
    return cx.ex.new_object(cx.st, 'SFTPAttrs', 'attrs')


new_attrs_stub.modifies = ()

recv_files = Spec(
    'C13', 'scp', '_SCPSink._recv_files', self_class='_SCPSink',
    params=dict(srcpath='bytes', dstpath='bytes'), classes=SINK, local_types={'attrs': 'obj:SFTPAttrs'},
    stubs={
        'self.send_ok': noop(), 'SFTPAttrs': new_attrs_stub, 'self.recv_request': recv_request_stub,
        '_scp_error': scp_error_stub, 'self.handle_error': handle_error_stub,
        '_parse_t_args': may_raise(ret('tuple[int,int]', 'times'), 'SFTPBadMessage'),
        # the name validation is _parse_cd_args' own (verified) contract
        '_parse_cd_args': contract_stub(lambda: parse_cd_args),
        'self._fs.isdir': touches('isdir', 0, 'bool'),
        'self._fs.setstat': touches('setstat', 0),
        'self._recv_dir': touches('recv_dir', 1),
        'self._recv_file': touches('recv_file', 1),
    },
    loops={1: LoopSpec(invariant=lambda c: z3.BoolVal(True))},
    raises={'SFTPError': True, 'OSError': True},
    trusted=P.TRUSTED)

recv_dir = Spec(
    'C13', 'scp', '_SCPSink._recv_dir', self_class='_SCPSink',
    params=dict(srcpath='bytes', dstpath='bytes'), classes=SINK,
    stubs={
        '_scp_error': scp_error_stub,
        'self._fs.exists': touches('exists', 0, 'bool', exact=True),
        'self._fs.isdir': touches('isdir', 0, 'bool', exact=True),
        'self._fs.mkdir': touches('mkdir', 0, exact=True),
        'self._recv_files': touches('recv_files', 1, exact=True),
    },
    raises={'SFTPError': True, 'OSError': True},
    trusted=P.TRUSTED)



def first_statement(fn):
    import ast
    st = fn.body[1] if isinstance(fn.body[0], ast.Expr) and isinstance(fn.body[0].value, ast.Constant) else fn.body[0]
    if 'self._fs.open' not in ast.unparse(st):
        raise Unsupported('_recv_file no longer starts by opening the destination')
    return [st]


# _recv_file: the one file-system operation is opening the destination it was given (the rest of the function moves
# data between the channel and that file object; `fs-operations-of-_recv_file` in extra_checks pins that down)
recv_file = Spec(
    'C13', 'scp', '_SCPSink._recv_file', self_class='_SCPSink',
    params=dict(srcpath='bytes', dstpath='bytes', size='int'), classes=SINK, region=first_statement,
    stubs={'self._fs.open': touches('open', 0, 'obj:File', exact=True)},
    raises={'SFTPError': True, 'OSError': True},
    notes='region: the statement that opens the destination', trusted=P.TRUSTED)
recv_file.no_replay = True

# run: the sink starts receiving into exactly the path the caller named
sink_run = Spec(
    'C13', 'scp', '_SCPSink.run', self_class='_SCPSink', params=dict(dstpath='bytes'),
    classes={k: (dict(v, _must_be_dir='bool') if k == '_SCPSink' else v) for k, v in SINK.items()},
    stubs={'self._fs.isdir': touches('isdir', 0, 'bool', exact=True),
           'self._recv_files': touches('recv_files', 1, exact=True, raises=IOERR + ('ValueError',)),
           '_scp_error': scp_error_stub, 'self.handle_error': handle_error_stub, 'self.close': noop()},
    globals={'PurePath': VTag('class:PurePath')},
    raises={'SFTPError': True, 'OSError': True, 'ValueError': True},
    trusted=P.TRUSTED)

# ----------------------------------------------------------------------------------------------- sftp.py client

ATTRS = {k: 'opt[int]' for k in ('size', 'permissions', 'atime', 'atime_ns', 'mtime', 'mtime_ns')}
ATTRS['type'] = 'int'
CLIENT = {'SFTPClient': {}, 'FS': {}, 'Copier': {}, 'SFTPAttrs': ATTRS,
          'SFTPName': {'filename': 'bytes', 'attrs': 'obj:SFTPAttrs'}}


def exc_class_call_stub(cx):
    """`exc(...)` where the local `exc` holds an exception class chosen just before"""
    cls = cx.st.env.get('exc')
    if not (isinstance(cls, VTag) and cls.tag.startswith('class:')):
        raise Unsupported('call of local `exc` that is not an exception class')
    return VExc(cls.tag[6:])


exc_class_call_stub.modifies = ()


def scandir_stub(cx):
    """srcfs.scandir(path): the names a (possibly hostile) remote side returns - an arbitrary sequence of SFTPName
    records with arbitrary file names; the iteration may also fail after any prefix"""
    v = cx.fresh('seq[obj:SFTPName]', 'remote_names')
    v.raises = list(IOERR)
    return [Out(ret=v)]


scandir_stub.modifies = ()


def new_obj_stub(cls):
    def stub(cx):
        return cx.ex.new_object(cx.st, cls, cls.lower())
    stub.modifies = ()
    return stub


def copier_stub(cx):
    """_SFTPFileCopier(block_size, max_requests, total, sparse, srcfs, dstfs, srcpath, dstpath, handler): the
    object that (in run()) opens dstpath for writing on dstfs - which is verified, not assumed: __init__ stores the
    arguments unchanged and run() opens exactly (_srcpath, 'rb') on _srcfs and (_dstpath, 'wb') on _dstfs; those are
    C12's contracts of the copier, re-registered under C13 below"""
    cx.require('file-copy-path-is-the-destination', cx.args[7].z == dest_of(cx))
    env = cx.ex.entry_state.env
    cx.require('file-copy-goes-from-source-fs-to-destination-fs',
               z3.BoolVal(isinstance(cx.args[4], VRef) and isinstance(cx.args[5], VRef) and
                          cx.args[4].addr == env['srcfs'].addr and cx.args[5].addr == env['dstfs'].addr))
    return [Out(ret=cx.ex.new_object(cx.st, 'Copier', 'copier'), event=('copy_file', tuple(cx.args)))]


copier_stub.modifies = ()


def not_a_link_evidence(cx, p):
    """The destination entry `p` has been found NOT to be a symbolic link on this path: a dstfs.islink(p) call
    answered False, and nothing that can create a link (dstfs.symlink, a nested copy) ran since.
    Why evidence is needed at all: the names come from a hostile server, which can list one name twice (or make two
    glob matches share a basename) - first as a symbolic link with a target of its choice, then as a directory or a
    file.  So for every destination entry composed from a remote name it is possible that THIS transfer has created
    a link there, and isdir()/open()/setstat() would follow it out of the destination."""
    last = -1
    for i, k in enumerate(cx.st.calls):
        if k['key'] in ('dstfs.symlink', 'self._copy'):
            last = i
    alts = [z3.And(k['args'][0].z == p, z3.Not(k['ret'].z)) for k in cx.st.calls[last + 1:]
            if k['key'] == 'dstfs.islink' and k.get('exc') is None and isinstance(k.get('ret'), VBool)]
    return z3.Or(alts) if alts else z3.BoolVal(False)


def copy_setstat_stub(cx):
    """dstfs.setstat(dstpath, attrs, follow_symlinks=...) in _copy: on the destination of this activation, and - if
    this activation has just created that destination as a symbolic link (with a target text chosen by the remote
    side) - WITHOUT following it: chmod / utime must never be applied through a link the transfer created"""
    cx.require('setstat-path-is-the-destination', cx.args[0].z == dest_of(cx))
    made_link = any(k['key'] == 'dstfs.symlink' and k.get('exc') is None for k in cx.st.calls)
    if made_link:
        fl = cx.kwargs.get('follow_symlinks')
        cx.require('setstat-does-not-follow-the-link-just-created',
                   z3.Not(cx.ex.truthy(cx.st, fl)) if fl is not None else z3.BoolVal(False))
    return [Out(event=('setstat', tuple(cx.args)))] + [Out(exc=VExc(e)) for e in IOERR + ('SFTPOpUnsupported',)]


copy_setstat_stub.modifies = ()


def nested_copy_stub(cx):
    """the recursive self._copy(srcfs, dstfs, srcfile, dstfile, ...) for an entry of the directory being copied:
    by its own contract it works at and below dstfile, so dstfile must be an entry of THIS activation's
    destination, whatever name the remote side reported"""
    cx.require('nested-destination-is-a-direct-child', P.direct_child(Z, dest_of(cx), cx.args[3].z))
    # ... and nothing is written through (no directory is descended into at) an entry that this same transfer may
    # have created as a symbolic link
    cx.require('nested-destination-is-not-a-symlink', not_a_link_evidence(cx, cx.args[3].z))
    return [Out(event=('nested_copy', tuple(cx.args)))] + [Out(exc=VExc(e)) for e in IOERR]


nested_copy_stub.modifies = ()

copy = Spec(
    'C13', 'sftp', 'SFTPClient._copy', self_class='SFTPClient',
    params=dict(srcfs='obj:FS', dstfs='obj:FS', srcpath='bytes', dstpath='bytes', srcattrs='obj:SFTPAttrs',
                preserve='bool', recurse='bool', follow_symlinks='bool', sparse='bool', block_size='int',
                max_requests='int', progress_handler='opt[opaque:Handler]', error_handler='opt[opaque:Handler]',
                remote_only='bool'),
    classes=CLIENT,
    class_consts={('SFTPClient', 'version'): VInt(z3.Int('sftp_version')),
                  ('SFTPClient', 'supports_remote_copy'): VBool(z3.Bool('supports_remote_copy'))},
    stubs={
        'srcfs.stat': may_raise(new_obj_stub('SFTPAttrs'), *IOERR),
        'srcfs.readlink': may_raise(ret('bytes', 'link_target'), *IOERR),
        'srcfs.scandir': scandir_stub,
        'exc': exc_class_call_stub, 'setattr': noop(), 'error_handler': noop(), 'SFTPAttrs': new_obj_stub('SFTPAttrs'),
        'dstfs.isdir': touches('isdir', 0, 'bool', exact=True),
        'dstfs.islink': may_raise(ret('bool', 'islink'), *IOERR),      # lstat-style test: does not follow links
        'dstfs.mkdir': touches('mkdir', 0, exact=True),
        'dstfs.symlink': touches('symlink', 1, exact=True),
        'dstfs.setstat': copy_setstat_stub,
        '_SFTPFileCopier': copier_stub, '_SFTPFileCopier().run': may_raise(noop(), *IOERR),
        'self._copy': nested_copy_stub,
    },
    loops={1: LoopSpec(invariant=lambda c: z3.BoolVal(True))},
    raises={'SFTPError': True, 'OSError': True},
    trusted=P.TRUSTED)
copy.no_replay = True        # SFTPClient.version / supports_remote_copy are read-only properties of a live session


# SFTPGlob.  The names matched against a wildcard come from the remote scandir reply.
#  (1) _match_pattern: every path it reports or descends into is the directory being listed or a DIRECT CHILD of it,
#      for every name a reply can contain.
#  (2) hand-off to _begin_copy, carried through the whole matcher as the invariant R: a path that is reported (or
#      descended into) ends in a '..' component only if the caller's own pattern contains a '..' component
#      (`ghost_asked` is the pattern given to match(); nobody writes it).  R is required on entry of _match /
#      _match_exact / _match_pattern and proved at every call site of _match, _match_exact, _match_pattern and
#      _report_match (`pre-at-call ... keeps-dotdot-out`); match() establishes it from _split's (assumed, bounded-
#      checked) contract.  _report_match appends exactly SFTPName(path, ...) and is the only writer of the result
#      list (AST scan `glob-result-list`), so every name match() returns satisfies R - which is the invariant
#      _begin_copy assumes for the SFTPName records it composes destinations from (see below).

PAT = sort_of('opaque:Pat')
pat_is_list = z3.Function('isinstance_Pat_list', PAT, BoolS)        # the engine's name for isinstance(x, list)
pat_items = z3.Function('pat_items', PAT, z3.SeqSort(BytesS))       # the literal components of a list entry


def ends_dotdot(p):
    """the final component of p is '..'"""
    return z3.Or(p == Z.lit(b'..'), z3.SuffixOf(Z.lit(b'/..'), p))


def asked_dotdot(asked):
    """the caller's own pattern / path contains a '..' component"""
    return P.has_comp(Z, asked, b'..')


def keeps_dotdot_out(asked, p):
    return z3.Implies(ends_dotdot(p), asked_dotdot(asked))


# "all elements are fine" over the two kinds of lists the matcher walks, as recursive spec predicates: uninterpreted
# functions plus the unfolding instances the code needs (head / tail of the pattern list, last literal component) -
# definitional instances of total recursive definitions (cf. specs/streams.py).
_items_ok = z3.Function('glob_items_ok', BytesS, z3.SeqSort(BytesS), BoolS)
_patlist_ok = z3.Function('glob_patlist_ok', BytesS, z3.SeqSort(PAT), BoolS)


def item_ok(asked, e):
    """a literal pattern component: separator free, and '..' only if the caller wrote it"""
    return z3.And(z3.Not(z3.Contains(e, Z.lit(b'/'))), z3.Implies(e == Z.lit(b'..'), asked_dotdot(asked)))


def lits_ok(asked, items):
    """a run of literal pattern components: non-empty, every one item_ok"""
    return _items_ok(asked, items)


def lits_unfold_last(asked, items):
    n = z3.Length(items)
    return z3.Implies(_items_ok(asked, items), z3.And(n >= 1, item_ok(asked, items[n - 1])))


def pat_ok(asked, x):
    return z3.Implies(pat_is_list(x), lits_ok(asked, pat_items(x)))


def patlist_ok(asked, pl):
    """every list entry of the pattern list is a run of literal components (lits_ok)"""
    return _patlist_ok(asked, pl)


def patlist_unfold(asked, pl):
    n = z3.Length(pl)
    return z3.Implies(z3.And(_patlist_ok(asked, pl), n >= 1),
                      z3.And(pat_ok(asked, pl[0]), _patlist_ok(asked, z3.Extract(pl, z3.IntVal(1), n - 1))))


def asked_of(cx):
    return cx.selff('ghost_asked').z


def glob_call(what, path_idx, same_path=False, child_of_path=False, patlist_idx=None, lits_idx=None,
              nonempty_patlist=False, raises=IOERR):
    """stub of a matcher-internal call: the obligations its callee relies on, stated at the call site"""
    def stub(cx):
        asked, a = asked_of(cx), cx.args[path_idx].z
        if same_path or child_of_path:
            d = dest_of(cx, 'path')
            cx.require(f'{what}-path-is-the-directory' + ('' if same_path else '-or-a-direct-child'),
                       a == d if same_path else z3.Or(a == d, P.direct_child(Z, d, a)))
        cx.require(f'{what}-keeps-dotdot-out', keeps_dotdot_out(asked, a))
        if patlist_idx is not None:
            pl = cx.args[patlist_idx].z
            cx.require(f'{what}-pattern-list-well-formed', patlist_ok(asked, pl))
            if nonempty_patlist:
                cx.require(f'{what}-pattern-list-non-empty', z3.Length(pl) >= 1)
        if lits_idx is not None:
            cx.require(f'{what}-literal-components', lits_ok(asked, pat_items(cx.args[lits_idx].z)))
        matched = cx.fresh('bool', 'matched')
        return [Out(sets={'_matched': matched}, event=(what, tuple(cx.args)))] + [Out(exc=VExc(e)) for e in raises]
    stub.modifies = ('_matched',)
    return stub


def remote_names_stub(cx):
    v = cx.fresh('seq[obj:SFTPName]', 'remote_names')
    return [Out(ret=v)]


remote_names_stub.modifies = ()

GLOB = dict(CLIENT, SFTPGlob={'ghost_asked': 'bytes', '_matched': 'bool', '_new_matches': 'any'})


def glob_requires(c):
    """invariant R on the directory path, a well-formed non-empty pattern list (+ its head/tail unfolding)"""
    asked, pl = c.old('ghost_asked'), c.arg('patlist')
    return z3.And(keeps_dotdot_out(asked, c.arg('path')), patlist_ok(asked, pl), z3.Length(pl) >= 1,
                  patlist_unfold(asked, pl))


match_pattern = Spec(
    'C13', 'sftp', 'SFTPGlob._match_pattern', self_class='SFTPGlob',
    params=dict(path='bytes', attrs='obj:SFTPAttrs', pattern='bytes', patlist='seq[opaque:Pat]'),
    classes=GLOB, local_types={'attrs': 'obj:SFTPAttrs'},
    requires=glob_requires,
    stubs={'self._scandir': remote_names_stub, 'fnmatch': ret('bool', 'fnmatch'),
           'self._match': glob_call('match', 0, child_of_path=True, patlist_idx=2, nonempty_patlist=True),
           'self._report_match': glob_call('report_match', 0, child_of_path=True, raises=())},
    loops={1: LoopSpec(invariant=lambda c: z3.BoolVal(True), modifies=['_matched'])},
    raises={'SFTPError': True, 'OSError': True},
    trusted=P.TRUSTED)
match_pattern.no_replay = True      # async generator collaborators (self._scandir) are not scripted by the harness

glob_match = Spec(
    'C13', 'sftp', 'SFTPGlob._match', self_class='SFTPGlob',
    params=dict(path='bytes', attrs='obj:SFTPAttrs', patlist='seq[opaque:Pat]'), classes=GLOB,
    requires=glob_requires,
    stubs={'self._match_exact': glob_call('match_exact', 0, same_path=True, patlist_idx=2, lits_idx=1,
                                          nonempty_patlist=True),
           'self._match_pattern': glob_call('match_pattern', 0, same_path=True, patlist_idx=3,
                                            nonempty_patlist=True)},
    raises={'SFTPError': True, 'OSError': True}, trusted=P.TRUSTED)
glob_match.no_replay = True

match_exact = Spec(
    'C13', 'sftp', 'SFTPGlob._match_exact', self_class='SFTPGlob',
    params=dict(path='bytes', pattern='seq[bytes]', patlist='seq[opaque:Pat]'), classes=GLOB,
    requires=lambda c: z3.And(glob_requires(c), lits_ok(c.old('ghost_asked'), c.arg('pattern')),
                              lits_unfold_last(c.old('ghost_asked'), c.arg('pattern'))),
    stubs={'self._stat': may_raise(ret('opt[obj:SFTPAttrs]', 'stat'), *IOERR),
           'self._match': glob_call('match', 0, patlist_idx=2, nonempty_patlist=True),
           'self._report_match': glob_call('report_match', 0, raises=())},
    raises={'SFTPError': True, 'OSError': True}, trusted=P.TRUSTED)
match_exact.no_replay = True


def split_stub(cx):
    """SFTPGlob._split(pattern) -> (path, patlist): assumed contract (compared with the real function for every
    pattern over {'/', '.', 'a', '*'} up to length 7 in extra_checks): the exact prefix `path` ends in '..' only if
    the pattern has a '..' component; the literal runs of patlist are non-empty lists of separator-free components
    of the pattern; without wildcard the pattern is returned unchanged"""
    pat = cx.args[0].z
    path, pl = cx.fresh('bytes', 'split_path'), cx.fresh('seq[opaque:Pat]', 'split_patlist')
    return [Out(ret=VTuple([path, pl]),
                assume=[keeps_dotdot_out(pat, path.z), patlist_ok(pat, pl.z),
                        z3.Implies(z3.Length(pl.z) == 0, path.z == pat)])]


split_stub.modifies = ()

glob_top = Spec(
    'C13', 'sftp', 'SFTPGlob.match', self_class='SFTPGlob',
    params=dict(pattern='bytes', error_handler='opt[opaque:Handler]', sftp_version='int'), classes=GLOB,
    requires=lambda c: c.old('ghost_asked') == c.arg('pattern'),
    stubs={'self._split': split_stub, 'self._stat': may_raise(ret('opt[obj:SFTPAttrs]', 'stat'), *IOERR),
           'self._match': glob_call('match', 0, patlist_idx=2, nonempty_patlist=True),
           'self._report_match': glob_call('report_match', 0, raises=()),
           'exc': exc_class_call_stub, 'setattr': noop(), 'error_handler': noop()},
    raises={'SFTPError': True, 'OSError': True},
    trusted=P.TRUSTED + ['assumed contract SFTPGlob._split (bounded check against the real function)'])
glob_top.no_replay = True


# _begin_copy: where the top-level destination of each source is composed.  The file-system protocol methods it
# uses (basename / compose_path of LocalFS and SFTPClient - the two implementations of _SFTPFSProtocol) are under
# contract themselves; _begin_copy's final loop is verified against those contracts.  The SFTPName records it walks
# carry the invariant srcname_inv (established by both producers: caller-supplied paths, and SFTPGlob.match through
# the matcher's invariant R), and the obligation at the self._copy call is: the destination is the named one or a
# DIRECT CHILD of it, unless the caller himself wrote a '..' component in a source path (ghost_dd := some caller-
# supplied source path / pattern has a '..' component).

def entry_of(d, p):
    """p names an entry of directory d: d's child prefix followed by a name without separator"""
    return z3.Or([z3.And(g, z3.PrefixOf(pref, p), z3.Not(z3.Contains(Z.sub(p, z3.Length(pref)), Z.lit(b'/'))))
                  for g, pref in P.dir_prefix_cases(Z, d)])


def basename_post(c):
    return P.basename_contract(Z, c.arg('path'), c.result)


def compose_post(c, parent, given_only=False):
    """composing a separator-free name under a directory yields that directory's child prefix followed by the name
    (so an entry of the directory); without a directory the name is returned as it is.  given_only: say nothing about parent=None (the two implementations differ there:
    SFTPClient falls back to its remote working directory)"""
    name = c.arg('path')
    nosep = z3.Not(z3.Contains(name, Z.lit(b'/')))
    empty = z3.And(z3.Not(parent.isnone), z3.Length(parent.val.z) == 0)
    composed = z3.Or([z3.And(g, c.result == z3.Concat(pref, name)) for g, pref in P.dir_prefix_cases(Z, parent.val.z)])
    return z3.And(z3.Implies(z3.And(z3.Not(parent.isnone), z3.Length(parent.val.z) > 0, nosep), composed),
                  z3.Implies(empty if given_only else z3.Or(parent.isnone, empty), c.result == name))


FS_CLASSES = {'LocalFS': {}, 'SFTPClient': {'_cwd': 'opt[bytes]'}}
fs_specs = {}
for _cls in ('LocalFS', 'SFTPClient'):
    b = Spec('C13', 'sftp', f'{_cls}.basename', params=dict(path='bytes'), returns='bytes',
             ensures=[('text-after-the-last-separator', basename_post)], trusted=P.TRUSTED)
    fs_specs[_cls + '.basename'] = b

local_compose = Spec(
    'C13', 'sftp', 'LocalFS.compose_path', self_class='LocalFS', params=dict(path='bytes', parent='opt[bytes]'),
    classes=FS_CLASSES, stubs={'self.encode': identity_stub}, returns='bytes', modifies=[],
    ensures=[('entry-of-parent', lambda c: compose_post(c, c.argv('parent')))], trusted=P.TRUSTED)


def client_parent(c):
    """SFTPClient.compose_path falls back to the remote working directory"""
    par, cwd = c.argv('parent'), c.oldv('_cwd')
    none = z3.And(par.isnone, cwd.isnone)
    val = z3.If(par.isnone, cwd.val.z, par.val.z)
    return VOpt(none, VBytes(val))


client_compose = Spec(
    'C13', 'sftp', 'SFTPClient.compose_path', self_class='SFTPClient', params=dict(path='bytes', parent='opt[bytes]'),
    classes=FS_CLASSES, stubs={'self.encode': identity_stub}, returns='bytes', modifies=[],
    ensures=[('entry-of-parent', lambda c: compose_post(c, client_parent(c)))], trusted=P.TRUSTED)

# what _begin_copy may assume of srcfs.basename / dstfs.compose_path (both implementations proved above)
fs_basename_callee = Spec('C13x', 'sftp', 'LocalFS.basename', params=dict(path='bytes'), returns='bytes',
                          classes={'FS': {}}, modifies=[], ensures=[('basename', basename_post)])
fs_compose_callee = Spec('C13x', 'sftp', 'LocalFS.compose_path', self_class='FS',
                         params=dict(path='bytes', parent='opt[bytes]'), returns='bytes', classes={'FS': {}},
                         modifies=[],
                         ensures=[('entry-of-parent', lambda c: compose_post(c, as_opt(c.argv('parent')), True))])
Spec.registry.remove(fs_basename_callee)
Spec.registry.remove(fs_compose_callee)


def as_opt(v):
    if isinstance(v, VOpt):
        return v
    if v is VNone:
        return VOpt(z3.BoolVal(True), VBytes(z3.Empty(BytesS)))
    return VOpt(z3.BoolVal(False), v)


def srcname_inv(ex, st, ref):
    """invariant of the SFTPName records _begin_copy composes destinations from: the source path ends in a '..'
    component only if the caller wrote a '..' component in one of the source paths / patterns (ghost_dd).
    Writers: (a) SFTPName(srcpath) for a caller-supplied path - ends_dotdot(p) => p has a '..' component, lemma
    `ends-dotdot-implies-dotdot-component`; (b) the results of SFTPGlob.match(pattern) - invariant R of the matcher."""
    return z3.Implies(ends_dotdot(ex.get_field(st, ref, 'filename').z), ex.get_field(st, ex.self_ref, 'ghost_dd').z)


def begin_copy_setup(ex, st):
    """state at the final loop of _begin_copy: the source names (caller-supplied paths or glob results, each
    satisfying srcname_inv) and the destination test"""
    v = ex.fresh(st, 'seq[obj:SFTPName]', 'srcnames')
    v.elem_inv = srcname_inv
    st.env['srcnames'] = v
    st.env['dst_isdir'] = ex.fresh(st, 'bool', 'dst_isdir')


def begin_copy_region(fn):
    import ast
    last = fn.body[-1]
    if not (isinstance(last, ast.For) and ast.unparse(last.iter) == 'srcnames'):
        raise Unsupported('_begin_copy no longer ends with `for srcname in srcnames:`')
    return [last]


def top_copy_stub(cx):
    """self._copy(srcfs, dstfs, srcfile, dstfile, ...) from _begin_copy: the destination handed down is the one the
    caller named or - when that is a directory - a DIRECT CHILD of it (with no destination: a child name of the
    working directory).  The only way to anything else is a '..' component the caller wrote in a source path
    himself (ghost_dd), and even then it is an entry (separator-free name) of the named directory."""
    d = cx.ex.entry_state.env['dstpath']
    p = cx.args[3].z
    dd = cx.selff('ghost_dd').z
    strict = z3.Or(z3.And(d.isnone, P.child_name(Z, p)),
                   z3.And(z3.Not(d.isnone), z3.Or(p == d.val.z, P.direct_child(Z, d.val.z, p))))
    entry = z3.Or(z3.And(d.isnone, z3.Not(z3.Contains(p, Z.lit(b'/')))),
                  z3.And(z3.Not(d.isnone), z3.Or(p == d.val.z, entry_of(d.val.z, p))))
    cx.require('top-level-destination-is-the-named-one-or-a-direct-child-unless-the-caller-wrote-dotdot',
               z3.And(entry, z3.Or(strict, dd)))
    # a destination COMPOSED from a source name (anything but the path the caller named himself) may be an entry at
    # which an earlier source of this same transfer created a symbolic link (two sources / glob matches with the
    # same final component): it must have been found not to be a link
    named = z3.And(z3.Not(d.isnone), p == d.val.z)
    cx.require('composed-destination-is-not-a-symlink', z3.Or(named, not_a_link_evidence(cx, p)))
    return [Out(event=('copy', tuple(cx.args)))] + [Out(exc=VExc(e)) for e in IOERR]


top_copy_stub.modifies = ()

_bc_params = dict(srcfs='obj:FS', dstfs='obj:FS', srcpaths='any', dstpath='opt[bytes]', copy_type='str',
                  expand_glob='bool', preserve='bool', recurse='bool', follow_symlinks='bool', sparse='bool',
                  block_size='int', max_requests='int', progress_handler='opt[opaque:Handler]',
                  error_handler='opt[opaque:Handler]', remote_only='bool')
begin_copy = Spec(
    'C13', 'sftp', 'SFTPClient._begin_copy', self_class='SFTPClient', params=_bc_params,
    classes=dict(CLIENT, SFTPClient={'ghost_dd': 'bool'}), setup=begin_copy_setup, region=begin_copy_region,
    stubs={'srcfs.basename': contract_stub(lambda: fs_basename_callee),
           'dstfs.compose_path': contract_stub(lambda: fs_compose_callee),
           'dstfs.islink': may_raise(ret('bool', 'islink'), *IOERR),
           'self._copy': top_copy_stub},
    loops={3: LoopSpec(invariant=lambda c: z3.BoolVal(True))},
    raises={'SFTPError': True, 'OSError': True},
    notes='region: the final `for srcname in srcnames` loop (source expansion before it only reads the remote side)',
    trusted=P.TRUSTED)
begin_copy.no_replay = True


# The two ends of the download chain.
# (1) _SFTPFileCopier: C12 verifies that __init__ stores its arguments unchanged and that run() opens exactly
#     (_srcpath, 'rb') on _srcfs and (_dstpath, 'wb') on _dstfs (pre-at-call obligations of its open stubs).  The same
#     Spec objects are run under C13, so that a copier writing anywhere but the destination it was constructed with
#     fails THIS property too.
import copy as _copy_mod
from contracts import c12 as _c12
for _sp in (_c12.copier_init, _c12.copier_run, _c12.copier_run_same):
    _cp = _copy_mod.copy(_sp)
    _cp.prop = 'C13'
    Spec.registry.append(_cp)

# (2) LocalFS, the destination file system of a download: every method hands exactly the path it was given (and the
#     follow_symlinks flag it was given) to the operating system.


def os_event(name, ret_type='none', raises=('OSError',)):
    def stub(cx):
        r = cx.fresh(ret_type, name) if ret_type != 'none' else VNone
        return [Out(ret=r, event=(name, (tuple(cx.args), dict(cx.kwargs))))] + [Out(exc=VExc(e)) for e in raises]
    stub.modifies = ()
    return stub


def one_os_call(c, name, *paths, **kw):
    """exactly one call of `name` on this path, its leading arguments are `paths`, keyword arguments as given"""
    evs = c.events(name)
    if len(evs) != 1:
        return z3.BoolVal(False)
    args, kwargs = evs[0][1]
    conj = [z3.BoolVal(len(args) >= len(paths))]
    for a, pth in zip(args, paths):
        conj.append(c.eq(a, pth))
    for k, v in kw.items():
        conj.append(c.eq(kwargs[k], v) if k in kwargs else z3.BoolVal(False))
    return z3.And(conj)


LOCALFS = {'LocalFS': {}, 'SFTPAttrs': ATTRS, 'PyFile': {}, 'LocalFile': {}}


def _localfs(method, params, stubs, post, returns=None, raises=None):
    sp = Spec('C13', 'sftp', 'LocalFS.' + method, self_class='LocalFS', params=params, classes=LOCALFS,
              stubs=dict({'_to_local_path': identity_stub, '_from_local_path': identity_stub}, **stubs),
              returns=returns, modifies=[], ensures=[post], raises=raises or {'OSError': True}, trusted=P.TRUSTED)
    sp.no_replay = True          # would touch the real file system
    return sp


localfs_mkdir = _localfs('mkdir', dict(path='bytes'), {'os.mkdir': os_event('os.mkdir')},
                         ('creates-exactly-the-path-given', lambda c: one_os_call(c, 'os.mkdir', c.argv('path'))))
localfs_isdir = _localfs('isdir', dict(path='bytes'), {'os.path.isdir': os_event('os.path.isdir', 'bool')},
                         ('tests-exactly-the-path-given', lambda c: one_os_call(c, 'os.path.isdir', c.argv('path'))),
                         returns='bool')
localfs_exists = _localfs('exists', dict(path='bytes'), {'os.path.exists': os_event('os.path.exists', 'bool')},
                          ('tests-exactly-the-path-given', lambda c: one_os_call(c, 'os.path.exists', c.argv('path'))),
                          returns='bool')
localfs_symlink = _localfs('symlink', dict(oldpath='bytes', newpath='bytes'), {'os.symlink': os_event('os.symlink')},
                           ('link-created-at-newpath-with-text-oldpath',
                            lambda c: one_os_call(c, 'os.symlink', c.argv('oldpath'), c.argv('newpath'))))
localfs_setstat = _localfs('setstat', dict(path='bytes', attrs='obj:SFTPAttrs', follow_symlinks='bool'),
                           {'_setstat': os_event('_setstat', raises=('OSError', 'NotImplementedError'))},
                           ('sets-attributes-of-exactly-the-path-given-with-the-flag-given',
                            lambda c: one_os_call(c, '_setstat', c.argv('path'),
                                                  follow_symlinks=c.argv('follow_symlinks'))),
                           raises={'OSError': True, 'NotImplementedError': True})
localfs_open = _localfs('open', dict(path='bytes', mode='str', block_size='int'),
                        {'open': os_event('open', 'obj:PyFile'), 'make_sparse_file': noop(),
                         'LocalFile': os_event('LocalFile', 'obj:LocalFile', raises=())},
                        ('opens-exactly-the-path-given-in-the-mode-given',
                         lambda c: one_os_call(c, 'open', c.argv('path'), c.argv('mode'))),
                        raises={'OSError': True, 'IndexError': True})

# _setstat (used by LocalFS.setstat and the server's setstat operations): every system call it makes is on the path it
# was given, and stat / chown / chmod / utime get the caller's follow_symlinks unchanged
SETSTAT_ATTRS = dict(ATTRS, uid='opt[int]', gid='opt[int]', owner='opt[opaque:Name]', group='opt[opaque:Name]')


def setstat_post(c):
    conj = []
    for name in ('os.truncate', 'os.stat', 'os.chown', 'os.chmod', 'os.utime'):
        for _n, (args, kwargs) in c.events(name):
            conj.append(z3.BoolVal(len(args) >= 1))
            if args:
                conj.append(c.eq(args[0], c.argv('path')))
            if name != 'os.truncate':
                conj.append(c.eq(kwargs['follow_symlinks'], c.argv('follow_symlinks'))
                            if 'follow_symlinks' in kwargs else z3.BoolVal(False))
    return z3.And(conj) if conj else z3.BoolVal(True)


setstat_fn = Spec(
    'C13', 'sftp', '_setstat', params=dict(path='bytes', attrs='obj:SFTPAttrs', follow_symlinks='bool'),
    classes={'SFTPAttrs': SETSTAT_ATTRS, 'StatResult': {'st_atime_ns': 'int', 'st_mtime_ns': 'int'}},
    stubs={'os.truncate': os_event('os.truncate'), 'os.stat': os_event('os.stat', 'obj:StatResult'),
           'os.chown': os_event('os.chown', raises=('OSError', 'NotImplementedError', 'AttributeError')),
           'os.chmod': os_event('os.chmod', raises=('OSError', 'NotImplementedError')),
           'os.utime': os_event('os.utime', raises=('OSError', 'NotImplementedError')),
           '_lookup_uid': ret('opt[int]', 'uid'), '_lookup_gid': ret('opt[int]', 'gid'),
           '_tuple_to_nsec': ret('int', 'nsec'), 'stat.S_IMODE': ret('int', 'mode')},
    always=[('every-system-call-is-on-the-given-path-with-the-given-follow-flag', setstat_post)],
    raises={'OSError': True, 'NotImplementedError': True}, trusted=P.TRUSTED)
setstat_fn.no_replay = True


# ----------------------------------------------------------------------------------------------- extra checks

# (b) syntactic dominance, fail closed: inside SFTPServer a value derived from a client-supplied path may only go
#     to map_path (or to something that cannot touch a file), and every path that reaches the operating system comes
#     out of map_path.  A flow-sensitive three-valued analysis of each method body (assignments in order; at a
#     merge TAINTED wins, MAPPED survives only if both sides are MAPPED):
#       TAINTED  derived from a parameter annotated `bytes` (every such parameter is a client-supplied path, except
#                the ones listed in NOT_PATH_PARAMS), through any expression;
#       MAPPED   self.map_path(e), or a WRAPPERS call / cast of a MAPPED value, or a local holding one;
#       CLEAN    everything else.
#     Rule 1 (whitelist, whatever module the callee is from): a call that receives a TAINTED value - as receiver,
#       positional or keyword argument - must be self.map_path / self.reverse_map_path, a WRAPPERS call, a pure text
#       function (TEXT_FUNCS), a method of the bytes value itself (BYTES_METHODS), a logger call, an exception or
#       record constructor, or another SFTPServer operation (which is itself subject to this scan).  Anything else -
#       os.*, pathlib, shutil, glob, open, a helper function - fails the scan.
#     Rule 2 (known sinks): open(), _setstat() and every os.* / os.path.* call outside PURE_OS must get MAPPED paths
#       (or a handle taken from an open file object parameter: <param>.fileno() / <param>.name).
#     The FIRST argument of os.symlink is the text stored in the link, not a path that is opened; it is exempt from
#     both rules and covered by the symlink contract instead.
PURE_OS = {'fsencode', 'fsdecode', 'path.join', 'path.relpath', 'path.basename', 'path.dirname', 'path.normpath',
           'path.isabs', 'getuid', 'getgid',
           # resolves pre-existing links only (kernel link resolution is an assumed surrounding, see ASSUMPTIONS)
           'path.realpath'}
WRAPPERS = {'_to_local_path', '_from_local_path', 'os.fsencode'}
TEXT_FUNCS = {'posixpath.' + f for f in ('join', 'normpath', 'basename', 'dirname', 'isabs', 'split')} | \
             {'os.path.' + f for f in ('join', 'relpath', 'basename', 'dirname', 'normpath', 'isabs', 'realpath')} | \
             {'len', 'isinstance', 'cast', 'bytes', 'str', 'repr', 'bool'}
BYTES_METHODS = {'startswith', 'endswith', 'decode', 'split', 'rsplit', 'strip', 'lstrip', 'rstrip', 'replace',
                 'find', 'rfind', 'index', 'count', 'lower', 'upper', 'partition', 'rpartition', 'join'}
RECORDS = {'SFTPName'}                       # plain data records returned to the client
LEGACY_OPS = {'listdir'}                     # pre-2.x override hook used by scandir: a server operation a subclass
                                             # supplies (it receives the client path and has to map it itself)
NOT_SERVER_OPS = {'__init__', 'map_path', 'reverse_map_path'}
ADAPTER_PURE = {'SFTPServerFile', 'SFTPAttrs', 'inspect.isawaitable', '_mode_to_pflags'}   # records / predicates
NOT_PATH_PARAMS = {('write', 'data')}        # file content, handed to the already open file object
TWO_PATHS = {'os.rename', 'os.replace', 'os.link', 'os.renames'}
REALPATH_EXCEPTIONS = {('readlink', 'path'), ('symlink', 'abspath2')}
T_, M_, C_ = 'TAINTED', 'MAPPED', 'CLEAN'


def _dotted(f):
    import ast
    if isinstance(f, ast.Name):
        return f.id
    if isinstance(f, ast.Attribute):
        b = _dotted(f.value)
        return None if b is None else b + '.' + f.attr
    return None


def _join_cls(a, b):
    if T_ in (a, b):
        return T_
    return M_ if a == b == M_ else C_


def scan_server_fs_calls(cls_name='SFTPServer'):
    """-> (sinks [(method, line, call text, ok)], problems [str]).
    cls_name='SFTPServer': the server itself.  cls_name in ('SFTPServerFS', 'SFTPServerFile'): the adapters that put
    an SFTPServer behind the SCP server (scp against a chroot-ed server); the same two rules apply, with
    `self._server.<operation>` and the class's own methods as the only places a client path may go (there is no
    map_path here, so any os.* / open / pathlib use of a path fails)."""
    import ast
    from pyvc import extract
    mod = extract.get_module('sftp')
    cls = mod.classes[cls_name]
    server_cls = mod.classes['SFTPServer']
    server_methods = {n.name for n in server_cls.body if isinstance(n, (ast.FunctionDef, ast.AsyncFunctionDef))}
    server_methods |= LEGACY_OPS
    own_methods = {n.name for n in cls.body if isinstance(n, (ast.FunctionDef, ast.AsyncFunctionDef))}
    adapter = cls_name != 'SFTPServer'
    sinks, problems = [], []

    def server_op(k):
        """the callee is an SFTPServer operation (itself subject to the scan of SFTPServer)"""
        if k is None:
            return False
        if adapter:
            return (k.startswith('self._server.') and k.count('.') == 2 and k[13:] in server_methods) or \
                   (k.startswith('self.') and k.count('.') == 1 and k[5:] in own_methods)
        return k.startswith('self.') and k.count('.') == 1 and k[5:] in server_methods

    def klass(e, env):
        """TAINTED / MAPPED / CLEAN for expression e"""
        if isinstance(e, ast.Name):
            return env.get(e.id, C_)
        if isinstance(e, ast.Call):
            k = _dotted(e.func)
            if k == 'self.map_path' and len(e.args) == 1 and not e.keywords:
                return M_
            if k in WRAPPERS and len(e.args) == 1 and not e.keywords:
                return klass(e.args[0], env)
            if k == 'cast' and len(e.args) == 2:
                return klass(e.args[1], env)
            if server_op(k):
                return C_       # what another server operation returns comes from the file system, not the client
        if isinstance(e, ast.Lambda):
            return C_
        # any other expression: derived from a client path if any part of it is (never MAPPED)
        return T_ if any(klass(c, env) == T_ for c in ast.iter_child_nodes(e) if isinstance(c, ast.expr)) or \
            any(klass(kw.value, env) == T_ for kw in getattr(e, 'keywords', [])) else C_

    def handle(e, params):
        """<file object parameter>.fileno() / .name : a handle of an already open file, not a path"""
        if isinstance(e, ast.Call) and isinstance(e.func, ast.Attribute) and e.func.attr == 'fileno' and not e.args:
            e = e.func
        elif not (isinstance(e, ast.Attribute) and e.attr == 'name'):
            return False
        return isinstance(e.value, ast.Name) and params.get(e.value.id) == 'object'

    def path_args(k, node):
        if k == 'os.symlink':
            return list(node.args[1:2]) + [kw.value for kw in node.keywords if kw.arg == 'dst']
        if k in TWO_PATHS:
            return list(node.args[:2]) + [kw.value for kw in node.keywords if kw.arg in ('src', 'dst')]
        return list(node.args[:1]) + [kw.value for kw in node.keywords if kw.arg in ('path', 'file', 'name')]

    def is_exception(name):
        return name is not None and '.' not in name and extract.is_subclass(name, 'BaseException')

    def visit_call(node, env, meth, params):
        k = _dotted(node.func)
        text = ast.unparse(node)[:100]
        # ---- rule 1: where may a TAINTED value go?
        received = list(node.args) + [kw.value for kw in node.keywords]
        recv = node.func.value if isinstance(node.func, ast.Attribute) else None
        if k == 'os.symlink':
            received = received[1:]
        tainted = [a for a in received if klass(a, env) == T_]
        recv_tainted = recv is not None and klass(recv, env) == T_
        if tainted or recv_tainted:
            ok1 = (k in ('self.map_path', 'self.reverse_map_path') or k in WRAPPERS or k in TEXT_FUNCS or k in RECORDS
                   or is_exception(k)
                   or (k is not None and (k.startswith('self.logger.') or k.startswith('logger.')))
                   or server_op(k) or (adapter and k in ADAPTER_PURE)
                   or (recv_tainted and not tainted and isinstance(node.func, ast.Attribute)
                       and node.func.attr in BYTES_METHODS))
            if not ok1:
                problems.append(f'{cls_name}.{meth} line {node.lineno}: {text} - receives a value derived from a '
                                f'client-supplied path that did not go through self.map_path(...)')
        # ---- rule 2: known file-system entry points need MAPPED paths
        if k == 'os.path.realpath':
            # resolves (lstat / readlink) every component of its argument: only a MAPPED path may be resolved.  Listed
            # exceptions: readlink resolves the text stored in a link it has just read through a mapped path (not a
            # client string); symlink resolves `abspath2` = the mapped link directory joined with the client's
            # relative target, which is the comparison its contract is about.
            a0 = node.args[0] if node.args else None
            ok = a0 is not None and (klass(a0, env) == M_ or (meth, ast.unparse(a0)) in REALPATH_EXCEPTIONS and
                                     (klass(a0, env) != T_ or meth == 'symlink'))
            sinks.append((meth, node.lineno, text, ok))
            if not ok:
                problems.append(f'{cls_name}.{meth} line {node.lineno}: {text} - os.path.realpath of a path that did '
                                f'not come from self.map_path(...)')
            return
        if k is None or not (k in ('open', '_setstat') or (k.startswith('os.') and k[3:] not in PURE_OS)):
            return
        pa = path_args(k, node)
        ok = bool(pa) and all(klass(a, env) == M_ or handle(a, params) for a in pa)
        sinks.append((meth, node.lineno, text, ok))
        if not ok:
            problems.append(f'{cls_name}.{meth} line {node.lineno}: {text} - a path argument does not come from '
                            f'self.map_path(...)')

    def visit(e, env, meth, params):
        """all calls in expression e; the opener lambda of an open() call sees that call's path as its first
        parameter (that is what io.open passes to it); parameters of any other lambda are TAINTED (fail closed)"""
        if isinstance(e, ast.Lambda):
            env = dict(env)
            for a in e.args.args + e.args.kwonlyargs:
                env[a.arg] = T_
            visit(e.body, env, meth, params)
            return
        if isinstance(e, ast.Call):
            visit_call(e, env, meth, params)
            k = _dotted(e.func)
            for c in ast.iter_child_nodes(e):
                if isinstance(c, ast.keyword) and k == 'open' and c.arg == 'opener' and \
                        isinstance(c.value, ast.Lambda) and c.value.args.args:
                    lam = c.value
                    env2 = dict(env)
                    for a in lam.args.args + lam.args.kwonlyargs:
                        env2[a.arg] = C_
                    env2[lam.args.args[0].arg] = klass(e.args[0], env) if e.args else T_
                    visit(lam.body, env2, meth, params)
                else:
                    visit(c, env, meth, params)
            return
        for c in ast.iter_child_nodes(e):
            visit(c, env, meth, params)

    def bind(target, value_cls, env):
        for n in ast.walk(target):
            if isinstance(n, ast.Name):
                env[n.id] = value_cls if isinstance(target, ast.Name) else (T_ if value_cls == T_ else C_)

    def merge(env, *others):
        for k in set(env).union(*[set(o) for o in others]):
            c = others[0].get(k, C_)
            for o in others[1:]:
                c = _join_cls(c, o.get(k, C_))
            env[k] = c

    def run(stmts, env, meth, params):
        for st in stmts:
            if isinstance(st, (ast.Assign, ast.AnnAssign)):
                if st.value is None:
                    continue
                visit(st.value, env, meth, params)
                c = klass(st.value, env)
                for t in (st.targets if isinstance(st, ast.Assign) else [st.target]):
                    bind(t, c, env)
            elif isinstance(st, ast.AugAssign):
                visit(st.value, env, meth, params)
                c = _join_cls(klass(st.value, env), klass(st.target, env) if isinstance(st.target, ast.Name) else C_)
                bind(st.target, T_ if c == T_ else C_, env)
            elif isinstance(st, ast.If):
                visit(st.test, env, meth, params)
                e1, e2 = dict(env), dict(env)
                run(st.body, e1, meth, params)
                run(st.orelse, e2, meth, params)
                merge(env, e1, e2)
            elif isinstance(st, (ast.For, ast.AsyncFor, ast.While)):
                visit(st.test if isinstance(st, ast.While) else st.iter, env, meth, params)
                if not isinstance(st, ast.While):
                    bind(st.target, T_ if klass(st.iter, env) == T_ else C_, env)
                e1 = dict(env)
                n0 = len(sinks), len(problems)
                run(st.body, e1, meth, params)
                merge(e1, e1, env)                      # what may flow around the loop
                del sinks[n0[0]:], problems[n0[1]:]
                run(st.body, e1, meth, params)
                merge(env, e1, env)
                run(st.orelse, env, meth, params)
            elif isinstance(st, (ast.With, ast.AsyncWith)):
                for it in st.items:
                    visit(it.context_expr, env, meth, params)
                    if it.optional_vars is not None:
                        bind(it.optional_vars, T_ if klass(it.context_expr, env) == T_ else C_, env)
                run(st.body, env, meth, params)
            elif isinstance(st, ast.Try):
                e0 = dict(env)
                run(st.body, env, meth, params)
                for h in st.handlers:
                    eh = dict(env)
                    merge(eh, e0, env)
                    run(h.body, eh, meth, params)
                    merge(env, eh, env)
                run(st.orelse, env, meth, params)
                run(st.finalbody, env, meth, params)
            elif isinstance(st, (ast.FunctionDef, ast.AsyncFunctionDef, ast.ClassDef)):
                problems.append(f'{cls_name}.{meth}: nested definition {st.name} is not analysed')
            else:
                for c in ast.iter_child_nodes(st):
                    if isinstance(c, ast.expr):
                        visit(c, env, meth, params)

    for node in cls.body:
        if isinstance(node, (ast.FunctionDef, ast.AsyncFunctionDef)) and node.name not in NOT_SERVER_OPS:
            params = {a.arg: (ast.unparse(a.annotation) if a.annotation is not None else None)
                      for a in node.args.args + node.args.kwonlyargs}
            if node.args.vararg or node.args.kwarg:
                problems.append(f'{cls_name}.{node.name}: *args / **kwargs parameters are not analysed')
            env = {}
            for name, ann in params.items():
                is_path = ann is not None and 'bytes' in ann and (node.name, name) not in NOT_PATH_PARAMS
                env[name] = T_ if is_path else C_
            run(node.body, env, node.name, params)
    return sinks, problems


def scan_recv_file():
    """_SCPSink._recv_file touches the file system only through self._fs.open(dstpath, ...) and never rebinds
    dstpath (complements the region contract above)"""
    import ast
    from pyvc import extract
    fn = extract.get_module('scp').get_function('_SCPSink._recv_file')
    problems, uses = [], []
    for n in ast.walk(fn):
        if isinstance(n, ast.Call) and (_dotted(n.func) or '').startswith('self._fs.'):
            uses.append(ast.unparse(n))
            if not (_dotted(n.func) == 'self._fs.open' and n.args and isinstance(n.args[0], ast.Name)
                    and n.args[0].id == 'dstpath'):
                problems.append(f'line {n.lineno}: {ast.unparse(n)[:80]}')
        if isinstance(n, ast.Name) and n.id == 'dstpath' and isinstance(n.ctx, (ast.Store, ast.Del)):
            problems.append(f'line {n.lineno}: dstpath is rebound')
        if isinstance(n, ast.Call) and (_dotted(n.func) or '').split('.')[0] in ('os', 'shutil', 'open'):
            problems.append(f'line {n.lineno}: direct OS call {ast.unparse(n)[:60]}')
    return {'name': 'C13.scp._SCPSink._recv_file#scan(fs-operations-of-_recv_file)',
            'verdict': 'proved' if uses and not problems else 'refuted', 'backend': 'AST scan',
            'detail': problems[:10], 'uses': uses, 'replayed': False}


def scan_glob_result_list():
    """the list SFTPGlob.match returns holds exactly the paths handed to _report_match during that call:
    _new_matches is reset in match (and __init__), returned by match, and otherwise only touched by the single
    `self._new_matches.append(SFTPName(path, attrs=attrs))` of _report_match, whose `path` parameter is never
    rebound; the matcher's internal methods are called from inside SFTPGlob only (so the call-site obligations of
    the contracts above cover every activation)"""
    import ast
    from pyvc import extract
    mod = extract.get_module('sftp')
    cls = mod.classes['SFTPGlob']
    problems, uses = [], []
    internal = {'_match', '_match_exact', '_match_pattern', '_report_match', '_split'}
    for meth in cls.body:
        if not isinstance(meth, (ast.FunctionDef, ast.AsyncFunctionDef)):
            continue
        for n in ast.walk(meth):
            if isinstance(n, ast.Attribute) and n.attr == '_new_matches' and _dotted(n) == 'self._new_matches':
                uses.append((meth.name, n.lineno))
        for st in ast.walk(meth):
            txt = None
            if isinstance(st, (ast.Assign, ast.AnnAssign)) and '_new_matches' in ast.unparse(st):
                tgt = st.targets[0] if isinstance(st, ast.Assign) else st.target
                txt = ast.unparse(st)
                if not (_dotted(tgt) == 'self._new_matches' and isinstance(st.value, ast.List) and not st.value.elts
                        and meth.name in ('__init__', 'match')):
                    problems.append(f'{meth.name} line {st.lineno}: {txt[:80]}')
            elif isinstance(st, ast.Call) and '_new_matches' in ast.unparse(st.func):
                ok = (meth.name == '_report_match' and ast.unparse(st) ==
                      'self._new_matches.append(SFTPName(path, attrs=attrs))')
                if not ok:
                    problems.append(f'{meth.name} line {st.lineno}: {ast.unparse(st)[:80]}')
            elif isinstance(st, ast.Return) and st.value is not None and '_new_matches' in ast.unparse(st.value):
                if not (meth.name == 'match' and ast.unparse(st.value) == 'self._new_matches'):
                    problems.append(f'{meth.name} line {st.lineno}: {ast.unparse(st)[:80]}')
        if meth.name == '_report_match':
            for n in ast.walk(meth):
                if isinstance(n, ast.Name) and n.id == 'path' and isinstance(n.ctx, (ast.Store, ast.Del)):
                    problems.append(f'_report_match line {n.lineno}: path is rebound')
    # any other mention of _new_matches (aliasing, passing it on) is outside the accepted shapes above
    accounted = sum(1 for m, _l in uses if m in ('__init__', 'match', '_report_match'))
    if accounted != len(uses) or len(uses) != 4:
        problems.append(f'unexpected uses of self._new_matches: {uses}')
    # internal methods are only called on self inside SFTPGlob
    for node in ast.walk(mod.tree):
        if isinstance(node, ast.Call) and isinstance(node.func, ast.Attribute) and node.func.attr in internal:
            inside = any(node in ast.walk(m) for m in cls.body)
            recv_glob = isinstance(node.func.value, ast.Name) and node.func.value.id == 'glob'
            if (not inside and (recv_glob or node.func.attr in ('_match_exact', '_match_pattern', '_report_match'))) \
                    or (inside and _dotted(node.func.value) != 'self'):
                problems.append(f'line {node.lineno}: {ast.unparse(node)[:70]} - matcher-internal call from outside')
    return {'name': 'C13.sftp.SFTPGlob#scan(glob-result-list)', 'verdict': 'refuted' if problems else 'proved',
            'backend': 'AST scan', 'detail': problems[:10], 'replayed': False}


def lemma_ends_dotdot():
    """ends_dotdot(p) => p has a '..' component, for every byte string p (writer (a) of srcname_inv)"""
    p = z3.Const('p', BytesS)
    sol = z3.Solver()
    sol.set('timeout', 20000)
    sol.add(ends_dotdot(p), z3.Not(asked_dotdot(p)))
    r = sol.check()
    backend = 'z3'
    verdict = 'proved' if r == z3.unsat else ('refuted' if r == z3.sat else 'unknown')
    if verdict == 'unknown':
        from pyvc import solve
        v2, _why = solve._cvc5(sol.to_smt2())
        verdict, backend = v2, 'cvc5'
    return {'name': 'C13.lemma#ends-dotdot-implies-dotdot-component', 'verdict': verdict, 'backend': backend,
            'reason': 'solver gave no answer' if verdict == 'unknown' else '', 'replayed': False}


_SPLIT_CHECK = r'''
import itertools, json, sys
from asyncssh.sftp import SFTPGlob
g = SFTPGlob.__new__(SFTPGlob)
maxlen = int(sys.argv[1])
bad, n = [], 0
for k in range(maxlen + 1):
    for t in itertools.product(b'/.a*', repeat=k):
        pat = bytes(t)
        n += 1
        path, patlist = g._split(pat)
        comps = pat.split(b'/')
        dd = b'..' in comps
        ok = not (path == b'..' or path.endswith(b'/..')) or dd
        for e in patlist:
            if isinstance(e, list):
                ok = ok and len(e) >= 1 and all(b'/' not in x and (x != b'..' or dd) for x in e)
            else:
                ok = ok and isinstance(e, bytes)
        if not patlist:
            ok = ok and path == pat
        if not ok:
            bad.append(repr((pat, path, patlist)))
print(json.dumps({'cases': n, 'violations': bad[:5]}))
'''


def validate_split(maxlen):
    """assumed contract of SFTPGlob._split (split_stub) against the real function, run under the library's python"""
    import json
    import subprocess
    from pyvc import extract
    import os
    env = dict(os.environ, PYTHONPATH=extract.REPO)
    name = f"assumed-contract SFTPGlob._split vs real, all patterns over b'/.a*' up to length {maxlen}"
    try:
        pr = subprocess.run(['/venv/bin/python', '-c', _SPLIT_CHECK, str(maxlen)], capture_output=True, text=True,
                            env=env, timeout=300)
        res = json.loads(pr.stdout)
    except Exception as e:          # a harness failure is reported as a failed check, never as a pass
        return {'name': name, 'cases': 0, 'violations': ['could not run the comparison: ' + repr(e)]}
    return dict(res, name=name)


def scan_scp_handler():
    """the SCP server always works through the chroot-aware adapter: _scp_handler builds `fs = SFTPServerFS(sftp_server)`
    (the only binding of fs) and hands exactly that fs to _SCPSource / _SCPSink"""
    import ast
    from pyvc import extract
    fn = extract.get_module('scp').get_function('_scp_handler')
    problems, built = [], 0
    for n in ast.walk(fn):
        if isinstance(n, (ast.Assign, ast.AnnAssign, ast.AugAssign)):
            tgts = n.targets if isinstance(n, ast.Assign) else [n.target]
            for t in tgts:
                if any(isinstance(x, ast.Name) and x.id == 'fs' for x in ast.walk(t)):
                    if not (isinstance(n, ast.Assign) and ast.unparse(n.value) == 'SFTPServerFS(sftp_server)'):
                        problems.append(f'line {n.lineno}: {ast.unparse(n)[:70]}')
        if isinstance(n, ast.Call) and _dotted(n.func) in ('_SCPSource', '_SCPSink'):
            built += 1
            if not (n.args and isinstance(n.args[0], ast.Name) and n.args[0].id == 'fs'):
                problems.append(f'line {n.lineno}: {ast.unparse(n)[:70]} - not built on the SFTPServerFS adapter')
        if isinstance(n, ast.Name) and n.id in ('local_fs', 'LocalFS'):
            problems.append(f'line {n.lineno}: local file system used in the SCP server')
    if built != 2:
        problems.append(f'{built} handler constructions found, 2 expected')
    return {'name': 'C13.scp._scp_handler#scan(scp-server-goes-through-the-chroot-adapter)',
            'verdict': 'refuted' if problems else 'proved', 'backend': 'AST scan', 'detail': problems[:10],
            'replayed': False}


HANDLER_ROOTS = {'self', 'packet', 'super', 'inspect', 'posixpath'}
HANDLER_NAMES = {'Boolean', 'String', 'UInt16', 'UInt32', 'UInt64', 'SFTPAttrs', 'SFTPLimits', 'SFTPName',
                 'SFTPRanges', 'any', 'cast', 'hasattr', 'isinstance', 'len', 'list', 'min', 'max', 'str', 'bytes',
                 'int', 'plural', 'hide_empty', 'handler',
                 '_request_ranges'}       # works on an already open file object (fileno), not on a path
HANDLER_OS = {'os.linesep.encode', 'os.sysconf'}


def scan_server_handler():
    """SFTPServerHandler (packet decoding, _process_* methods) reaches the file system only through
    self._server.<operation>: fail-closed list of what may be called at all inside the class - methods of self / the
    packet / local values, packet encoders, records and exceptions, a few builtins; no os.* (but linesep / sysconf),
    open, pathlib, shutil, _setstat, _to_local_path, ..."""
    import ast
    from pyvc import extract
    mod = extract.get_module('sftp')
    cls = mod.classes['SFTPServerHandler']
    imported = {(a.asname or a.name).split('.')[0] for n in mod.tree.body if isinstance(n, ast.Import)
                for a in n.names}
    problems, n_calls = [], 0
    for meth in cls.body:
        if not isinstance(meth, (ast.FunctionDef, ast.AsyncFunctionDef)):
            continue
        local = {a.arg for a in meth.args.args + meth.args.kwonlyargs}
        for n in ast.walk(meth):
            if isinstance(n, ast.Name) and isinstance(n.ctx, ast.Store):
                local.add(n.id)
            elif isinstance(n, ast.ExceptHandler) and n.name:
                local.add(n.name)
        for n in ast.walk(meth):
            if not isinstance(n, ast.Call):
                continue
            n_calls += 1
            k = _dotted(n.func)
            if k is None:
                continue                      # call on a computed value (e.g. a method of a call result)
            root = k.split('.')[0]
            ok = (root in HANDLER_ROOTS or k in HANDLER_OS or
                  ('.' not in k and (k in HANDLER_NAMES or extract.is_subclass(k, 'BaseException'))) or
                  ('.' in k and root in HANDLER_NAMES and root[0].isupper()) or            # SFTPAttrs.decode(...)
                  ('.' in k and root in local and root not in imported) or
                  k.startswith('SFTPVFSAttrs.'))
            if root == 'self' and k.count('.') >= 2 and not k.startswith(('self._server.', 'self.logger.',
                                                                         'self._file_handles.', 'self._dir_handles.',
                                                                         'self._packet_handlers.', 'self._extensions.',
                                                                         'self._writer.', 'self._reader.')):
                ok = ok and k.split('.')[1].startswith('_')      # other private members of the handler itself
            if not ok:
                problems.append(f'{meth.name} line {n.lineno}: {ast.unparse(n)[:70]}')
    return {'name': 'C13.sftp.SFTPServerHandler#scan(file-system-only-through-the-server-object)',
            'verdict': 'refuted' if problems or not n_calls else 'proved', 'backend': 'AST scan',
            'detail': problems[:10], 'replayed': False}


def scan_entry_points():
    """the caller's destination reaches the verified functions unchanged:
    scp(): `dstpath` is rebound once, by `dstconn, dstpath, close_dst = await _parse_path(dstpath, **kwargs)`, the
    download sink is `_SCPSink(local_fs, ...)` and is started as `sink.run(dstpath)`;
    SFTPClient.get/mget (downloads), put/mput, copy/mcopy: one `_begin_copy(srcfs, dstfs, <sources>, <destination>,
    ...)` call with the file systems and the method's own first two parameters in that order, never rebound;
    _begin_copy: `dstpath` is only rebound by `dstpath = dstfs.encode(dstpath)`."""
    import ast
    from pyvc import extract
    problems = []
    fn = extract.get_module('scp').get_function('scp')
    binds = [n for n in ast.walk(fn) if isinstance(n, ast.Name) and n.id == 'dstpath' and
             isinstance(n.ctx, (ast.Store, ast.Del))]
    ok_bind = [n for n in ast.walk(fn) if isinstance(n, ast.Assign) and
               ast.unparse(n) == 'dstconn, dstpath, close_dst = await _parse_path(dstpath, **kwargs)']
    if len(binds) != 1 or len(ok_bind) != 1:
        problems.append(f'scp(): dstpath bound {len(binds)} times / expected parse statement found {len(ok_bind)} times')
    runs = [n for n in ast.walk(fn) if isinstance(n, ast.Call) and _dotted(n.func) == 'sink.run']
    if len(runs) != 1 or ast.unparse(runs[0]) != 'sink.run(dstpath)':
        problems.append('scp(): ' + '; '.join(ast.unparse(r) for r in runs) + ' - expected exactly sink.run(dstpath)')
    sinks = [n for n in ast.walk(fn) if isinstance(n, ast.Call) and _dotted(n.func) == '_SCPSink']
    if len(sinks) != 1 or not (sinks[0].args and ast.unparse(sinks[0].args[0]) == 'local_fs'):
        problems.append('scp(): the download sink is not _SCPSink(local_fs, ...)')
    sink_binds = [n for n in ast.walk(fn) if isinstance(n, ast.Name) and n.id == 'sink' and isinstance(n.ctx, ast.Store)]
    if len(sink_binds) != 1:
        problems.append('scp(): `sink` bound more than once')
    mod = extract.get_module('sftp')
    expect = {'get': ('self', 'local_fs'), 'mget': ('self', 'local_fs'), 'put': ('local_fs', 'self'),
              'mput': ('local_fs', 'self'), 'copy': ('self', 'self'), 'mcopy': ('self', 'self')}
    for name, (sfs, dfs) in expect.items():
        m = mod.get_function('SFTPClient.' + name)
        p1, p2 = m.args.args[1].arg, m.args.args[2].arg
        calls = [n for n in ast.walk(m) if isinstance(n, ast.Call) and _dotted(n.func) == 'self._begin_copy']
        if len(calls) != 1 or [ast.unparse(a) for a in calls[0].args[:4]] != [sfs, dfs, p1, p2] or calls[0].keywords:
            problems.append(f'SFTPClient.{name}: _begin_copy call is not ({sfs}, {dfs}, {p1}, {p2}, ...)')
        for n in ast.walk(m):
            if isinstance(n, ast.Name) and n.id in (p1, p2, 'local_fs') and isinstance(n.ctx, (ast.Store, ast.Del)):
                problems.append(f'SFTPClient.{name}: {n.id} is rebound (line {n.lineno})')
    bc = mod.get_function('SFTPClient._begin_copy')
    for n in ast.walk(bc):
        if isinstance(n, (ast.Assign, ast.AugAssign, ast.AnnAssign)) and getattr(n, 'value', None) is not None:
            tg = n.targets if isinstance(n, ast.Assign) else [n.target]
            if any(isinstance(x, ast.Name) and x.id == 'dstpath' for t in tg for x in ast.walk(t)):
                if ast.unparse(n) != 'dstpath = dstfs.encode(dstpath)':
                    problems.append(f'_begin_copy line {n.lineno}: {ast.unparse(n)[:70]}')
        if isinstance(n, ast.Name) and n.id in ('dstfs', 'srcfs') and isinstance(n.ctx, (ast.Store, ast.Del)):
            problems.append(f'_begin_copy line {n.lineno}: {n.id} is rebound')
    return {'name': 'C13#scan(caller-destination-reaches-the-transfer-unchanged)',
            'verdict': 'refuted' if problems else 'proved', 'backend': 'AST scan', 'detail': problems[:10],
            'replayed': False}


def extra_checks(tier, seed):
    n = 10 if tier == 'thorough' else 8
    res = P.validate_externals(maxlen=n, join_maxlen=5 if tier == 'thorough' else 4)
    sinks, problems = scan_server_fs_calls()
    lem = {'name': 'C13.sftp.SFTPServer#scan(every-path-reaching-the-os-comes-from-map_path)',
           'verdict': 'proved' if sinks and not problems else 'refuted', 'backend': 'AST dataflow scan',
           'detail': problems[:10], 'sinks': [f'{m}@{ln}: {txt}' for m, ln, txt, _ok in sinks], 'replayed': False}
    res.append(validate_split(8 if tier == 'thorough' else 7))
    lems = [lem]
    for cn in ('SFTPServerFS', 'SFTPServerFile'):
        sk, pr = scan_server_fs_calls(cn)
        lems.append({'name': f'C13.sftp.{cn}#scan(client-paths-only-go-to-server-operations)',
                     'verdict': 'refuted' if pr else 'proved', 'backend': 'AST dataflow scan', 'detail': pr[:10],
                     'replayed': False})
    lems += [scan_scp_handler(), scan_server_handler(), scan_entry_points(), scan_recv_file(),
             scan_glob_result_list(), lemma_ends_dotdot(), lemma_link_location()]
    return {'bounded': res, 'lemmas': lems}
