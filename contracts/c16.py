"""C16 — signatures and certificates verify only when nothing was altered.  Sidecar contracts.

(a) SSHKey.verify / sign: algorithm-name gate over THIS key's algorithm set, decode errors mean False, never raises;
    the per-instance sets of the ECDSA classes are fresh objects and the set shared through SSHKey is never
    mutated (frame); per key type verify_ssh consumes the whole blob.
(b) SSHOpenSSHCertificate.construct: the object is the parse of the signed bytes (PROTOCOL.certkeys layout), the CA
    signature is checked over exactly everything before the signature string, with the embedded CA key, options
    are decoded with the tables of the certificate's own type; generate emits the same layout; _decode_options
    rejects any critical option it does not understand; validate: type / validity window / principal table.
(c) SSHSIG: signed blob layout, create / validate against PROTOCOL.sshsig, allowed-signers entry matching.
Packet parsing in (b), (c) is verified against a word-equation contract of SSHPacket that is itself proved on
packet.py in the same run.
"""
import z3
from pyvc.contracts import *
from pyvc.engine import LoopSpec, Out, Prove, Record
from pyvc.values import *
from pyvc.builtins_model import be, unbe
from .common import *

PROP = 'C16'

ASSUMPTIONS = [
    'signature primitives (verify_ssh / sign_ssh of the key classes and the crypto back ends) are uninterpreted: '
    'verify_ssh returns a bool or raises PacketDecodeError, sign_ssh returns bytes or raises ValueError; '
    'unforgeability is a cryptographic assumption',
]

ALGSET = 'dict[bytes,bool]'       # a set of algorithm names: only the domain of the map is used

KEY_CLASSES = {'SSHKey': {'all_sig_algorithms': ALGSET}}


def S_(x):
    """RFC 4251 string: uint32 length || bytes"""
    return z3.Concat(be(z3.IntVal(4), z3.Length(x)), x)


def verify_ssh_stub(cx):
    """per-key-type verify_ssh(data, alg, packet): uninterpreted; logs what it was asked to verify"""
    data, alg, packet = cx.args
    r = cx.fresh('bool', 'prim_ok')
    rec = cx.st.rec(packet)
    # the reader is handed over in a consistent state: this is the `requires` (PKT_INV) of the per key type verify_ssh
    # contracts, whose ghost names ghost_done / ghost_rest are then definitional (_packet[:_idx], _packet[_idx:])
    cx.require('reader-invariant-at-hand-over', z3.And(
        rec.fields['_idx'].z >= 0, rec.fields['_idx'].z <= rec.fields['_len'].z,
        rec.fields['_len'].z == z3.Length(rec.fields['_packet'].z)))
    ev = ('verify_ssh', (data, alg, VBytes(rec.fields['_packet'].z), VInt(rec.fields['_idx'].z), r))
    return [Out(ret=r, event=ev), Out(exc=VExc('PacketDecodeError'), event=ev)]


verify_ssh_stub.modifies = ()


def verify_post(c):
    """True only if sig == String(alg) || rest, alg is one of THIS key's algorithms and the primitive accepted
    (data, alg, rest); and whenever the primitive is consulted its verdict is returned unchanged"""
    evs = c.events('verify_ssh')
    res = c.result_v
    if not isinstance(res, VBool):
        return z3.BoolVal(False)
    if not evs:
        return z3.Not(res.z)
    if len(evs) != 1:
        return z3.BoolVal(False)
    data, alg, pk, idx, ok = evs[0][1]
    sig = c.arg('sig')
    algs = c.oldv('all_sig_algorithms')
    rest = z3.Extract(pk.z, idx.z, z3.Length(pk.z) - idx.z)
    n = z3.Length(alg.z)
    return z3.And(data.z == c.arg('data'), pk.z == sig, idx.z == 4 + n, n < 2 ** 32,
                  sig == z3.Concat(be(z3.IntVal(4), n), alg.z, rest),
                  z3.Select(algs.dom, alg.z),
                  res.z == (z3.BoolVal(False) if c.calls('verify_ssh')[0]['exc'] is not None else ok.z))


key_verify = Spec(
    PROP, 'public_key', 'SSHKey.verify', self_class='SSHKey',
    params=dict(data='bytes', sig='bytes'),
    classes=dict(KEY_CLASSES, **PACKET_CLASSES), inline=dict(PACKET_INLINE), truthy=PACKET_TRUTHY,
    stubs={'self.verify_ssh': verify_ssh_stub},
    ensures=[('true-only-if-parsed-known-alg-and-primitive-accepts', verify_post)],
    raises={}, returns='bool')


# ------------------------------------------------------------------ SSHKey.sign
def sign_ssh_stub(cx):
    data, alg = cx.args
    r = cx.fresh('bytes', 'prim_sig')
    ev = ('sign_ssh', (data, alg, r))
    return [Out(ret=r, event=ev), Out(exc=VExc('ValueError'), event=ev)]


sign_ssh_stub.modifies = ()


def effective_alg(a):
    """the X.509 form of an algorithm name signs with the plain algorithm (RFC 6187 3)"""
    pre = bytes_const(b'x509v3-')
    return z3.If(z3.PrefixOf(pre, a), z3.Extract(a, 7, z3.Length(a) - 7), a)


def sign_post(c):
    """sign(data, alg) == String(alg') || sign_ssh(data, alg') with alg' one of THIS key's algorithms"""
    evs = c.events('sign_ssh')
    if len(evs) != 1:
        return z3.BoolVal(False)
    data, alg, raw = evs[0][1]
    a = effective_alg(c.arg('sig_algorithm'))
    n = z3.Length(a)
    return z3.And(data.z == c.arg('data'), alg.z == a, z3.Select(c.oldv('all_sig_algorithms').dom, a),
                  c.result == z3.Concat(be(z3.IntVal(4), n), a, raw.z))


def sign_rejects(c):
    """ValueError: unknown algorithm (then the primitive was never asked), or the primitive refused"""
    a = effective_alg(c.arg('sig_algorithm'))
    known = z3.Select(c.oldv('all_sig_algorithms').dom, a)
    if c.events('sign_ssh'):
        return known
    return z3.Not(known)


key_sign = Spec(
    PROP, 'public_key', 'SSHKey.sign', self_class='SSHKey',
    params=dict(data='bytes', sig_algorithm='bytes'),
    classes=KEY_CLASSES,
    stubs={'self.sign_ssh': sign_ssh_stub},
    ensures=[('blob-is-String(alg)||primitive-signature', sign_post)],
    raises={'ValueError': sign_rejects}, returns='bytes')


# ------------------------------------------------------------------ per-instance algorithm sets (ECDSA, SK-ECDSA)
# Class invariant used by verify/sign: key.all_sig_algorithms holds exactly the algorithms of THIS key's type.
# For RSA/DSA/EdDSA/SK-EdDSA it is class-level data of the key class itself (extra_checks below); the ECDSA
# classes compute it per curve in __init__, where it must be a fresh object and must leave the set it shadows
# (SSHKey.all_sig_algorithms, shared by every key class that does not define its own) untouched.

def _sym_set(st, label, kt='bytes'):
    ks = sort_of(kt)
    m = VMap(z3.Const(fresh_name(label + '$dom'), z3.ArraySort(ks, BoolS)), z3.K(ks, z3.BoolVal(True)), kt, 'bool')
    m.is_set = True
    return st.alloc(m)


def class_algset_setup(cls):
    def setup(ex, st):
        """before __init__ runs the instance has no all_sig_algorithms of its own: the lookup finds the
        class-level set inherited from SSHKey, an arbitrary shared set S"""
        cell = _sym_set(st, 'SSHKey.all_sig_algorithms')
        ex.spec.class_consts[(cls, 'all_sig_algorithms')] = cell
        ex.shared_algset = cell
    return setup


def _set_is(dom, elems):
    x = z3.Const(fresh_name('alg'), BytesS)
    return z3.ForAll([x], z3.Select(dom, x) == z3.Or([x == e for e in elems]))


def own_set_post(algs_of):
    def post(c):
        """after __init__: the instance has its OWN set object holding exactly its own sig_algorithms"""
        ex, st = c.ex, c.new_state
        shared = ex.shared_algset
        ref = st.rec(c.self_ref).fields.get('all_sig_algorithms')
        if not isinstance(ref, VRef) or ref.addr == shared.addr:
            return z3.BoolVal(False)
        own = st.heap[ref.addr]
        sig = ex.deref(st, st.rec(c.self_ref).fields['sig_algorithms'])
        return z3.And(_set_is(own.dom, [x.z for x in sig.items]),
                      z3.And([a == b.z for a, b in zip(algs_of(c), sig.items)]),
                      z3.BoolVal(len(sig.items) == len(algs_of(c))))
    return post


def shared_set_frame(c):
    """frame: the class-level set shared through SSHKey is not modified by constructing a key"""
    shared = c.ex.shared_algset
    return c.new_state.heap[shared.addr].dom == c.old_state.heap[shared.addr].dom


EC_CURVES = (b'nistp521', b'nistp384', b'nistp256', b'1.3.132.0.10')    # registration loop at the end of ecdsa.py

eckey_init = Spec(
    PROP, 'ecdsa', '_ECKey.__init__', self_class='_ECKey',
    params=dict(key='obj:CryptoECKey'),
    classes={'_ECKey': {}, 'CryptoECKey': {'curve_id': 'bytes'}},
    inline={'super().__init__': ('public_key', 'SSHKey.__init__')},
    globals={'_alg_oids': VDict({k: VTag('oid:' + k.decode()) for k in EC_CURVES})},
    setup=class_algset_setup('_ECKey'),
    ensures=[('own-set-equals-own-sig-algorithms', own_set_post(
        lambda c: [z3.Concat(bytes_const(b'ecdsa-sha2-'), c.old('curve_id', c.argv('key')))])),
             ('hash-is-the-one-RFC5656-prescribes-for-the-curve', lambda c: z3.And([
                 z3.Implies(c.old('curve_id', c.argv('key')) == bytes_const(k),
                            c.new('_hash_alg') == z3.StringVal(v)) for k, v in EC_HASH.items()]))],
    always=[('shared-class-level-set-unchanged', shared_set_frame)],
    raises={'KeyError': True})       # curve without a registered OID

skeckey_init = Spec(
    PROP, 'sk_ecdsa', '_SKECDSAKey.__init__', self_class='_SKECDSAKey',
    params=dict(curve_id='bytes', public_value='bytes', application='str', flags='int',
                key_handle='opt[bytes]', reserved='bytes'),
    classes={'_SKECDSAKey': {}, 'Hash': {}},
    inline={'super().__init__': ('public_key', 'SSHKey.__init__')},
    stubs={'ECDSAPublicKey.construct': may_raise(ret('opaque:CryptoKey', 'pubkey'), 'ValueError'),
           'sha256': ret('obj:Hash', 'h'), 'Hash.digest': ret('bytes', 'digest')},
    globals={'sk_use_webauthn': VTag('sk_use_webauthn')},
    setup=class_algset_setup('_SKECDSAKey'),
    ensures=[('own-set-equals-own-sig-algorithms', own_set_post(
        lambda c: (lambda a: [a, z3.Concat(bytes_const(b'webauthn-'), a)])(
            z3.Concat(bytes_const(b'sk-ecdsa-sha2-'), c.arg('curve_id'), bytes_const(b'@openssh.com')))))],
    always=[('shared-class-level-set-unchanged', shared_set_frame)],
    raises={'ValueError': True})




# ------------------------------------------------------------------ packet reader: abstract view
# The parsers below (certificates, SSHSIG) read a dozen fields in a row.  Executing SSHPacket from source there
# yields path conditions full of seq.extract at symbolic offsets, on which neither solver finds counter-models.
# They are therefore verified against a *word-equation* contract of the reader, stated over two ghost names
#     ghost_done == _packet[:_idx]     ghost_rest == _packet[_idx:]
# (PKT_INV).  The contract is not taken on trust: each clause is proved on the real packet.SSHPacket methods in
# the same run (section "packet reader: real code"), with ghost_rest read as _packet[_idx:].

PKT_FIELDS = dict(PACKET_CLASSES['SSHPacket'], ghost_done='bytes', ghost_rest='bytes')
PKT_CLASSES = {'SSHPacket': PKT_FIELDS}


def pkt_fields(st, p):
    r = st.rec(p)
    return {k: v.z for k, v in r.fields.items()}


def pkt_inv(st, p):
    """representation invariant of a reader object + definition of the two ghost names"""
    f = pkt_fields(st, p)
    return z3.And(f['_idx'] >= 0, f['_idx'] <= f['_len'], f['_len'] == z3.Length(f['_packet']),
                  f['_packet'] == z3.Concat(f['ghost_done'], f['ghost_rest']),
                  z3.Length(f['ghost_done']) == f['_idx'])


def _advance(cx, piece, label):
    """success outcome of a read: ghost_rest == piece ++ rest'"""
    p = cx.recv
    f = pkt_fields(cx.st, p)
    rest1 = cx.fresh('bytes', 'rest_after_' + label)
    n = z3.Length(piece)
    sets = {'_idx': VInt(f['_idx'] + n), 'ghost_done': VBytes(z3.Concat(f['ghost_done'], piece)),
            'ghost_rest': rest1}
    return sets, [f['ghost_rest'] == z3.Concat(piece, rest1.z)], f, rest1


def pkt_get_bytes(cx):
    n = cx.args[0].z
    v = cx.fresh('bytes', 'raw')
    sets, assume, f, _r = _advance(cx, v.z, 'bytes')
    return [Out(ret=v, sets=sets, assume=assume + [z3.Length(v.z) == n]),
            Out(exc=VExc('PacketDecodeError'), assume=[z3.Length(f['ghost_rest']) < n])]


def _pkt_uint(width):
    def stub(cx):
        from pyvc.builtins_model import be_term
        v = cx.fresh('int', f'u{width * 8}')
        enc = be_term(cx.st, width, v.z)
        sets, assume, f, _r = _advance(cx, enc, f'u{width * 8}')
        return [Out(ret=v, sets=sets, assume=assume + [v.z >= 0, v.z < 256 ** width],
                    event=('pkt_uint', (cx.recv, width, v))),
                Out(exc=VExc('PacketDecodeError'), assume=[z3.Length(f['ghost_rest']) < width])]
    stub.modifies = ('_idx', 'ghost_done', 'ghost_rest')
    return stub


def pkt_get_byte(cx):
    v = cx.fresh('int', 'byte')
    sets, assume, f, _r = _advance(cx, z3.Unit(v.z), 'byte')
    return [Out(ret=v, sets=sets, assume=assume + [v.z >= 0, v.z <= 255], event=('pkt_uint', (cx.recv, 1, v))),
            Out(exc=VExc('PacketDecodeError'), assume=[z3.Length(f['ghost_rest']) < 1])]


pkt_get_byte.modifies = ('_idx', 'ghost_done', 'ghost_rest')


def pkt_get_string(cx):
    from pyvc.builtins_model import be_term
    v = cx.fresh('bytes', 'str')
    n = z3.Length(v.z)
    piece = z3.Concat(be_term(cx.st, 4, n), v.z)
    sets, assume, f, rest1 = _advance(cx, piece, 'string')
    ev = ('pkt_string', (cx.recv, v, VBytes(f['ghost_rest']), rest1))
    return [Out(ret=v, sets=sets, assume=assume + [n < 2 ** 32], event=ev),
            Out(exc=VExc('PacketDecodeError'))]


def pkt_check_end(cx):
    f = pkt_fields(cx.st, cx.recv)
    return [Out(assume=[z3.Length(f['ghost_rest']) == 0]),
            Out(exc=VExc('PacketDecodeError'), assume=[z3.Length(f['ghost_rest']) > 0])]


def pkt_consumed(cx):
    return VBytes(pkt_fields(cx.st, cx.recv)['ghost_done'])


def new_record(st, cls, **fields):
    """a new heap object with exactly these fields (registered like Engine.new_object for the native replay)"""
    ref = st.alloc(Record(cls), cls)
    st.heap[ref.addr] = Record(cls, fields)
    created = dict(st.heap.get('__created__', {}))
    created[ref.addr] = st.heap[ref.addr].copy()
    st.heap['__created__'] = created
    return ref


def pkt_new(cx):
    """SSHPacket(data): a reader positioned at the start of data"""
    x = cx.ex.deref(cx.st, cx.args[0])
    ref = new_record(cx.st, 'SSHPacket', _packet=VBytes(x.z), _idx=VInt(0), _len=VInt(z3.Length(x.z)),
                     ghost_done=VBytes(z3.Empty(BytesS)), ghost_rest=VBytes(x.z))
    return [Out(ret=ref)]


for _f in (pkt_get_bytes, pkt_get_string):
    _f.modifies = ('_idx', 'ghost_done', 'ghost_rest')
for _f in (pkt_check_end, pkt_consumed, pkt_new):
    _f.modifies = ()

PKT_STUBS = {'SSHPacket': pkt_new, 'SSHPacket.get_bytes': pkt_get_bytes, 'SSHPacket.get_uint32': _pkt_uint(4),
             'SSHPacket.get_uint64': _pkt_uint(8), 'SSHPacket.get_string': pkt_get_string,
             'SSHPacket.get_byte': pkt_get_byte,
             'SSHPacket.check_end': pkt_check_end, 'SSHPacket.get_consumed_payload': pkt_consumed}


# ------------------------------------------------------------------ packet reader: real code
# Every clause the abstract stubs assume, proved on packet.py with ghost_rest := _packet[_idx:].
def _rest(c, new):
    g = c.new if new else c.old
    P, i, L = g('_packet'), g('_idx'), g('_len')
    return z3.Extract(P, i, L - i)


def _done(c, new):
    g = c.new if new else c.old
    return z3.Extract(g('_packet'), 0, g('_idx'))


def _real_wf(c):
    return z3.And(c.old('_idx') >= 0, c.old('_idx') <= c.old('_len'), c.old('_len') == z3.Length(c.old('_packet')))


def _read_post(piece):
    """old rest == piece ++ new rest, done grows by piece, index advances by |piece|, payload untouched"""
    def post(c):
        pc_ = piece(c)
        return z3.And(_rest(c, False) == z3.Concat(pc_, _rest(c, True)),
                      _done(c, True) == z3.Concat(_done(c, False), pc_),
                      c.new('_idx') == c.old('_idx') + z3.Length(pc_),
                      c.new('_packet') == c.old('_packet'), c.new('_len') == c.old('_len'))
    return post


def _unchanged(c):
    return z3.And(c.new('_idx') == c.old('_idx'), c.new('_packet') == c.old('_packet'),
                  c.new('_len') == c.old('_len'))


def _real(qual, **kw):
    inl = {k: v for k, v in PACKET_INLINE.items() if not k.endswith('.' + qual)}
    return Spec(PROP, 'packet', 'SSHPacket.' + qual, self_class='SSHPacket', classes=PACKET_CLASSES,
                inline=inl, truthy=PACKET_TRUTHY, **kw)


real_get_bytes = _real(
    'get_bytes', params=dict(size='int'),
    requires=lambda c: z3.And(_real_wf(c), c.arg('size') >= 0),
    ensures=[('rest==value||rest\'', _read_post(lambda c: c.result)),
             ('len(value)==size', lambda c: z3.Length(c.result) == c.arg('size'))],
    raises={'PacketDecodeError': lambda c: z3.And(z3.Length(_rest(c, False)) < c.arg('size'), _unchanged(c))},
    returns='bytes')

real_get_byte = _real(
    'get_byte', requires=_real_wf,
    ensures=[('rest==byte||rest\'', _read_post(lambda c: z3.Unit(c.result))),
             ('byte', lambda c: z3.And(c.result >= 0, c.result <= 255))],
    raises={'PacketDecodeError': lambda c: z3.Length(_rest(c, False)) < 1}, returns='int')

real_get_uint32 = _real(
    'get_uint32', requires=_real_wf,
    ensures=[('rest==be4(value)||rest\'', _read_post(lambda c: be(z3.IntVal(4), c.result))),
             ('uint32', lambda c: z3.And(c.result >= 0, c.result < 2 ** 32))],
    raises={'PacketDecodeError': lambda c: z3.Length(_rest(c, False)) < 4}, returns='int')

real_get_uint64 = _real(
    'get_uint64', requires=_real_wf,
    ensures=[('rest==be8(value)||rest\'', _read_post(lambda c: be(z3.IntVal(8), c.result))),
             ('uint64', lambda c: z3.And(c.result >= 0, c.result < 2 ** 64))],
    raises={'PacketDecodeError': lambda c: z3.Length(_rest(c, False)) < 8}, returns='int')

real_get_string = _real(
    'get_string', requires=_real_wf,
    ensures=[('rest==String(value)||rest\'', _read_post(lambda c: S_(c.result))),
             ('len<2^32', lambda c: z3.Length(c.result) < 2 ** 32)],
    raises={'PacketDecodeError': True}, returns='bytes')

real_check_end = _real(
    'check_end', requires=_real_wf,
    ensures=[('nothing-left', lambda c: z3.And(z3.Length(_rest(c, False)) == 0, _unchanged(c)))],
    raises={'PacketDecodeError': lambda c: z3.Length(_rest(c, False)) > 0})

real_consumed = _real(
    'get_consumed_payload', requires=_real_wf,
    ensures=[('==done', lambda c: z3.And(c.result == _done(c, False), _unchanged(c)))], returns='bytes')

real_get_mpint = _real(
    'get_mpint', requires=_real_wf,
    ensures=[('rest==String(x)||rest\'', _read_post(
        lambda c: z3.Extract(c.old('_packet'), c.old('_idx'), c.new('_idx') - c.old('_idx')))),
             ('a-whole-string-was-read', lambda c: (lambda x: z3.And(
                 z3.Extract(c.old('_packet'), c.old('_idx'), c.new('_idx') - c.old('_idx')) == S_(x),
                 z3.Length(x) < 2 ** 32))(
                 z3.Extract(c.old('_packet'), c.old('_idx') + 4, c.new('_idx') - c.old('_idx') - 4))),
             # the VALUE: the two's complement reading of exactly that string (sunbe is the engine's name for
             # int.from_bytes(.., 'big', signed=True); its relation to MPInt / sbe is proved in C15)
             ('value==signed-big-endian-of-the-string-read', lambda c: c.result == z3.Function('sunbe', BytesS, IntS)(
                 z3.Extract(c.old('_packet'), c.old('_idx') + 4, c.new('_idx') - c.old('_idx') - 4)))],
    raises={'PacketDecodeError': True}, returns='int')

real_init = _real(
    '__init__', params=dict(packet='bytes'),
    ensures=[('at-start', lambda c: z3.And(c.new('_packet') == c.arg('packet'), c.new('_idx') == 0,
                                           c.new('_len') == z3.Length(c.arg('packet'))))])


# the abstract reader stubs are backed by the Specs above (reported as verified callee contracts, not as assumed)
for _stub, _spec in ((pkt_new, real_init), (pkt_get_bytes, real_get_bytes), (PKT_STUBS['SSHPacket.get_uint32'],
                     real_get_uint32), (PKT_STUBS['SSHPacket.get_uint64'], real_get_uint64),
                     (pkt_get_string, real_get_string), (pkt_check_end, real_check_end),
                     (pkt_get_byte, real_get_byte),
                     (pkt_consumed, real_consumed)):
    _stub.spec_getter = (lambda sp: lambda: sp)(_spec)


# ------------------------------------------------------------------ OpenSSH certificates: construct
# PROTOCOL.certkeys: cert = string type || string nonce || <public key fields> || uint64 serial || uint32 type ||
#   string key id || string valid principals || uint64 valid after || uint64 valid before ||
#   string critical options || string extensions || string reserved || string signature key || string signature;
#   "signature is computed over all preceding fields from the initial string up to, and including the signature key".
ASSUMPTIONS += [
    'decode_ssh_public_key / key_handler.decode_ssh_public / make_public are abstract key-blob parsers '
    '(decode_ssh_public consumes some bytes of the packet or raises PacketDecodeError / KeyImportError)',
    'the certificate class object is modelled as an object whose four decoder tables are distinct constants',
    'principal lists: plist(bytes) is an uninterpreted function, only instances of its recursive definition '
    'plist(b"") = [], plist(String(s) || r) = [utf8(s)] ++ plist(r) are assumed',
]

CERT_CLS = 'SSHOpenSSHCertificateV01'
def _table_const(n):
    # the class-level tables are four distinct objects; replay does not compare values of sort Tag
    return VOpaque(z3.Const('table:' + n, opaque_sort('Tag')), 'Tag')


TABLES = {n: _table_const(n) for n in ('_user_option_decoders', '_user_extension_decoders',
                                       '_host_option_decoders', '_host_extension_decoders')}
CERT_CLASSES = dict({CERT_CLS: {}, 'KeyHandler': {}, 'OptionsDict': {}, 'cls': {},
                     'SSHKey': {'sig_algorithms': 'seq[bytes]', 'cert_algorithms': 'seq[bytes]'}},
                    **PKT_CLASSES)

plist = z3.Function('plist', BytesS, z3.SeqSort(StrS))
utf8dec = z3.Function('decode_utf8', BytesS, StrS)          # the engine's name for bytes.decode('utf-8')


def entry_packet(cx_or_c):
    return cx_or_c.ex.entry_state.env['packet']


def decode_ssh_public_stub(cx):
    """key_handler.decode_ssh_public(packet): reads the key-type specific fields K, i.e. rest == K ++ rest'"""
    p = cx.args[0]
    f = pkt_fields(cx.st, p)
    K, rest1 = cx.fresh('bytes', 'keyfields'), cx.fresh('bytes', 'rest_after_key')
    params = cx.fresh('opaque:KeyParams', 'key_params')
    ok = Out(ret=params,
             osets=[(p, '_idx', VInt(f['_idx'] + z3.Length(K.z))),
                    (p, 'ghost_done', VBytes(z3.Concat(f['ghost_done'], K.z))), (p, 'ghost_rest', rest1)],
             assume=[f['ghost_rest'] == z3.Concat(K.z, rest1.z)], event=('decode_ssh_public', (K, params)))
    ok.native_osets = True
    return [ok, Out(exc=VExc('PacketDecodeError')), Out(exc=VExc('KeyImportError'))]


decode_ssh_public_stub.modifies = ()


def make_public_stub(cx):
    """key_handler.make_public(key_params): the key object for exactly these parameters (or ValueError)"""
    k = cx.fresh('obj:SSHKey', 'subject_key')
    return [Out(ret=k, event=('make_public', (cx.args[0], k))), Out(exc=VExc('ValueError'))]


make_public_stub.modifies = ()


def ca_decode_stub(cx):
    k = cx.fresh('obj:SSHKey', 'ca_key')
    return [Out(ret=k, event=('ca_decode', (cx.args[0], k))), Out(exc=VExc('KeyImportError'))]


ca_decode_stub.modifies = ()


def ca_verify_stub(cx):
    """signing_key.verify(data, signature) at the certificate import site.  Obligations (from PROTOCOL.certkeys):
    the whole blob is data || String(signature) (signature last, everything before it is covered), data ends with
    String(CA key blob), and the verifying key is the one decoded from that blob."""
    data, sig = cx.args
    W = cx.st.rec(entry_packet(cx)).fields['_packet'].z
    cx.require('signed-bytes||String(signature)==whole-certificate', W == z3.Concat(data.z, S_(sig.z)))
    cas = [e for e in cx.st.events if e[0] == 'ca_decode']
    cx.require('verifying-key-is-the-embedded-CA-key',
               z3.BoolVal(len(cas) == 1 and isinstance(cx.recv, VRef) and cas[0][1][1].addr == cx.recv.addr))
    if len(cas) == 1:
        cx.require('signed-bytes-end-with-String(CA-key)', z3.SuffixOf(S_(cas[0][1][0].z), data.z))
    r = cx.fresh('bool', 'ca_sig_ok')
    return [Out(ret=r, event=('ca_verify', (cx.recv, data, sig, r)))]


ca_verify_stub.modifies = ()


def decode_options_stub(cx):
    d = cx.fresh('obj:OptionsDict', 'opts')
    ev = ('decode_options', tuple(cx.args) + (d,))
    return [Out(ret=d, event=ev), Out(exc=VExc('KeyImportError'), event=ev),
            Out(exc=VExc('PacketDecodeError'), event=ev), Out(exc=VExc('UnicodeDecodeError'), event=ev)]


decode_options_stub.modifies = ()


def options_for_own_type(c):
    """critical options and extensions are decoded with the tables of the certificate's OWN type
    (user: force-command, source-address are understood; host: no critical option is), criticals as critical;
    any other type is refused"""
    evs = c.events('decode_options')
    if not evs:
        return z3.BoolVal(c.raised is not None)
    # the type on the wire: the only uint32 field of the certificate body
    u32 = [e[1][2].z for e in c.events('pkt_uint') if e[1][0].addr == c.argv('packet').addr and e[1][1] == 4]
    if len(u32) != 1:
        return z3.BoolVal(False)
    tz = u32[0]
    is_user, is_host = tz == 1, tz == 2
    conj = []
    for k, (_o, table, critical, _d) in enumerate(e[1] for e in evs):
        crit = c.truthy(critical)
        want = ('_%s_option_decoders', '_%s_extension_decoders')[k] if k < 2 else None
        if want is None:
            conj.append(z3.BoolVal(False))
            continue
        conj.append(z3.And(crit if k == 0 else z3.Not(crit),
                           z3.If(is_user, c.eq(table, TABLES[want % 'user']),
                                 z3.And(is_host, c.eq(table, TABLES[want % 'host'])))))
    if c.raised is None:
        conj.append(z3.BoolVal(len(evs) == 2))
        conj.append(c.new('_cert_type', c.result_v) == tz)
    return z3.And(conj)


def cert_layout(c):
    """the object returned is the parse of the signed bytes: PROTOCOL.certkeys field by field"""
    st, res = c.new_state, c.result_v
    W = c.old('_packet', c.argv('packet'))
    pre = c.old('ghost_done', c.argv('packet'))          # what the caller had consumed (the type string)
    strs = [e[1][1].z for e in c.events('pkt_string') if e[1][0].addr == c.argv('packet').addr]
    ks = [e[1][0].z for e in c.events('decode_ssh_public')]
    cav = c.events('ca_verify')
    if len(strs) != 8 or len(ks) != 1 or len(cav) != 1 or len(c.events('decode_options')) != 2:
        return z3.BoolVal(False)
    nonce, key_id, pr, opts, exts, reserved, ca, sig = strs
    g = lambda f: c.new(f, res)
    serial, ctype, va, vb = g('_serial'), g('_cert_type'), g('_valid_after'), g('_valid_before')
    b8 = lambda v: be(z3.IntVal(8), v)
    tbs = z3.Concat(pre, S_(nonce), ks[0], b8(serial), be(z3.IntVal(4), ctype), S_(key_id), S_(pr), b8(va), b8(vb),
                    S_(opts), S_(exts), S_(reserved), S_(ca))
    o0, o1 = [e[1] for e in c.events('decode_options')]
    cas = c.events('ca_decode')
    mp = c.events('make_public')
    princ = c.ex.deref(st, st.rec(res).fields['principals'])
    return z3.And(
        W == z3.Concat(tbs, S_(sig)),
        # the CA signature was checked over exactly the to-be-signed part, with the embedded key, and held
        cav[0][1][1].z == tbs, cav[0][1][2].z == sig, cav[0][1][3].z,
        z3.BoolVal(len(cas) == 1 and cas[0][1][1].addr == cav[0][1][0].addr), cas[0][1][0].z == ca,
        c.eq(st.rec(res).fields['signing_key'], cav[0][1][0]),
        # the CERTIFIED key is the one made from the parameters parsed out of the certificate's key fields K
        # (never the CA key or anything else), the signing key the one decoded from the signature-key field
        z3.BoolVal(len(mp) == 1 and isinstance(st.rec(res).fields.get('key'), VRef)
                   and st.rec(res).fields['key'].addr == mp[0][1][1].addr
                   and mp[0][1][1].addr != cav[0][1][0].addr),
        mp[0][1][0].z == c.events('decode_ssh_public')[0][1][1].z if mp else z3.BoolVal(False),
        # fields of the object are the signed ones
        g('public_data') == W, g('_key_id') == utf8dec(key_id), princ.z == plist(pr),
        o0[0].z == opts, o1[0].z == exts, c.eq(st.rec(res).fields['options'], o0[3]),
        z3.And(0 <= serial, serial < 2 ** 64, 0 <= va, va < 2 ** 64, 0 <= vb, vb < 2 ** 64))


def principals_inv(c):
    """plist(field) == collected ++ plist(unread part); the reader stays on the principals field"""
    st = c.new_state
    p = c.localv('packet')
    f = pkt_fields(st, p)
    acc = c.ex.deref(st, c.localv('principals'))
    accz = to_z3(acc, parse_type('seq[str]')) if isinstance(acc, VList) else acc.z
    field = c.loop_entry.rec(c.loop_entry.env['packet']).fields['_packet'].z
    return z3.And(pkt_inv(st, p), f['_packet'] == field,
                  plist(field) == z3.Concat(accz, plist(f['ghost_rest'])))


def plist_instances(c):
    """definitional instances of plist for every string read so far and for the empty remainder"""
    out = [plist(z3.Empty(BytesS)) == z3.Empty(z3.SeqSort(StrS))]
    for e in c.events('pkt_string'):
        _p, s, _before, after = e[1]
        out.append(plist(z3.Concat(S_(s.z), after.z)) == z3.Concat(z3.Unit(utf8dec(s.z)), plist(after.z)))
    return out


def accepted_only_if_ca_signed(c):
    """a certificate object exists only if the CA signature check was made and succeeded"""
    evs = c.events('ca_verify')
    if len(evs) != 1:
        return z3.BoolVal(False)
    return evs[0][1][3].z


cert_construct = Spec(
    PROP, 'public_key', 'SSHOpenSSHCertificate.construct', self_class=CERT_CLS,
    params=dict(packet='obj:SSHPacket', algorithm='bytes', key_handler='opt[obj:KeyHandler]', comment='opt[bytes]'),
    classes=CERT_CLASSES,
    class_consts={(CERT_CLS, n): t for n, t in TABLES.items()},
    inline={'cls._decode': ('public_key', 'SSHOpenSSHCertificateV01._decode'),
            'cls.__init__': ('public_key', 'SSHOpenSSHCertificate.__init__'),
            'super().__init__': ('public_key', 'SSHCertificate.__init__')},
    truthy=PACKET_TRUTHY,
    stubs=dict(PKT_STUBS, **{
        'KeyHandler.decode_ssh_public': decode_ssh_public_stub,
        'decode_ssh_public_key': ca_decode_stub,
        'SSHKey.verify': ca_verify_stub,
        'KeyHandler.make_public': make_public_stub,
        'cls._decode_options': decode_options_stub,
        'OptionsDict.update': noop('options_merge'),
        'self.set_comment': noop()}),
    local_types={'packet': 'obj:SSHPacket', 'principals': 'seq[str]', 'principal': 'str'},
    loops={1: LoopSpec(header='packet', invariant=principals_inv, lemmas=plist_instances)},
    requires=lambda c: pkt_inv(c.old_state, c.argv('packet')),
    ensures=[('accepted-only-if-CA-signature-verified', accepted_only_if_ca_signed),
             ('object==parse-of-signed-bytes(PROTOCOL.certkeys)', cert_layout)],
    always=[('options-decoded-with-own-type-tables', options_for_own_type)],
    lemmas=plist_instances,
    raises={'KeyImportError': True, 'PacketDecodeError': True, 'ValueError': True,
            'AssertionError': lambda c: c.is_none(c.argv('key_handler'))})
cert_construct.runtime_class = CERT_CLS
cert_construct.loops[1].havoc_locals = ['packet']
cert_construct.feasible_timeout_ms = 300


# ------------------------------------------------------------------ _decode_options
# field = (string name, string data)*.  For the critical field every name must be understood.
KNOWN_T = 'dict[bytes,opaque:Decoder]'
all_known = z3.Function('all_known', z3.ArraySort(BytesS, BoolS), BytesS, BoolS)


def option_decoder_stub(cx):
    """decoder(data_packet): reads some of the option's data (or raises); the value is opaque"""
    p = cx.args[0]
    f = pkt_fields(cx.st, p)
    X, rest1 = cx.fresh('bytes', 'optdata_read'), cx.fresh('bytes', 'optdata_left')
    ok = Out(ret=cx.fresh('any', 'optval'),
             osets=[(p, '_idx', VInt(f['_idx'] + z3.Length(X.z))),
                    (p, 'ghost_done', VBytes(z3.Concat(f['ghost_done'], X.z))), (p, 'ghost_rest', rest1)],
             assume=[f['ghost_rest'] == z3.Concat(X.z, rest1.z)], event=('decoder', (p,)))
    ok.native_osets = True
    return [ok, Out(exc=VExc('KeyImportError')), Out(exc=VExc('PacketDecodeError'))]


option_decoder_stub.modifies = ()


def options_inv(c):
    st = c.new_state
    p = c.localv('packet')
    f = pkt_fields(st, p)
    T = c.argv('decoders').dom
    conj = [pkt_inv(st, p), f['_packet'] == c.arg('options'),
            z3.Implies(c.truthy(c.argv('critical')),
                       all_known(T, c.arg('options')) == all_known(T, f['ghost_rest']))]
    # the names decoded so far, together with what the unread part grants, are what the whole field grants
    conj.append(granted(T, c.arg('options')) == z3.SetUnion(_result_dom(c), granted(T, f['ghost_rest'])))
    # a known option's data has been consumed completely by its decoder when the iteration ends, and the decoder
    # was given THIS option's data string (the string that follows its name)
    main = [e[1] for e in c.events('pkt_string') if e[1][0].addr == p.addr]
    for e in c.events('decoder'):
        dp = pkt_fields(st, e[1][0])
        conj.append(z3.Length(dp['ghost_rest']) == 0)
        conj.append(dp['_packet'] == main[1][1].z if len(main) == 2 else z3.BoolVal(False))
    return z3.And(conj)


# The field is (string name, string data)*.  granted(T, field) = the set of option names (as text) the field switches on:
# the names that have a decoder in T; an unknown pair contributes nothing and is skipped as a whole.
STRSET = z3.ArraySort(StrS, BoolS)
granted = z3.Function('granted', z3.ArraySort(BytesS, BoolS), BytesS, STRSET)
granted_after_name = z3.Function('granted_after_name', z3.ArraySort(BytesS, BoolS), BytesS, BytesS, STRSET)
ascii_dec = z3.Function('decode_ascii', BytesS, StrS)        # the engine's name for bytes.decode('ascii')


def _result_dom(c):
    r = c.ex.deref(c.new_state, c.localv('result'))
    if isinstance(r, VDict):
        if r.items:
            raise Unsupported('concrete non-empty result dict')
        return z3.K(StrS, z3.BoolVal(False))
    return r.dom


def granted_instances(c):
    """instances, for the strings read, of the defining equations
         granted(T, b"")                             = {}
         granted(T, String(n) || x)                  = granted_after_name(T, n, x)
         granted_after_name(T, n, String(d) || r)    = granted(T, r) + {ascii(n)}  if n in T  else  granted(T, r)"""
    T = c.argv('decoders').dom
    out = [granted(T, z3.Empty(BytesS)) == z3.K(StrS, z3.BoolVal(False))]
    evs = [e[1] for e in c.events('pkt_string')]
    for _p, s_, _before, after in evs:
        out.append(granted(T, z3.Concat(S_(s_.z), after.z)) == granted_after_name(T, s_.z, after.z))
    for (pa, n, _b0, _a0), (pb, d, _b1, after_d) in zip(evs, evs[1:]):
        if pa.addr == pb.addr:
            g = granted(T, after_d.z)
            out.append(granted_after_name(T, n.z, z3.Concat(S_(d.z), after_d.z)) ==
                       z3.If(z3.Select(T, n.z), z3.SetAdd(g, ascii_dec(n.z)), g))
    return out


data_then_known = z3.Function('data_then_known', z3.ArraySort(BytesS, BoolS), BytesS, BoolS)


def all_known_instances(c):
    """instances, for the strings read, of the defining equations
         all_known(T, b"")                  = True
         all_known(T, String(n) || x)       = n in T and data_then_known(T, x)
         data_then_known(T, String(d) || r) = all_known(T, r)"""
    T = c.argv('decoders').dom
    out = [all_known(T, z3.Empty(BytesS))]
    for e in c.events('pkt_string'):
        _p, s, _before, after = e[1]
        out.append(all_known(T, z3.Concat(S_(s.z), after.z)) == z3.And(z3.Select(T, s.z), data_then_known(T, after.z)))
        out.append(data_then_known(T, z3.Concat(S_(s.z), after.z)) == all_known(T, after.z))
    return out


decode_options = Spec(
    PROP, 'public_key', 'SSHOpenSSHCertificate._decode_options',
    params=dict(options='bytes', decoders=KNOWN_T, critical='bool'),
    classes=PKT_CLASSES, truthy=PACKET_TRUTHY,
    stubs=dict(PKT_STUBS, decoder=option_decoder_stub),
    local_types={'packet': 'obj:SSHPacket', 'result': 'dict[str,any]', 'name': 'bytes',
                 'decoder': 'opt[opaque:Decoder]', 'data_packet': 'obj:SSHPacket'},
    loops={1: LoopSpec(header='packet', invariant=options_inv,
                       lemmas=lambda c: all_known_instances(c) + granted_instances(c))},
    ensures=[('critical-field-accepted-only-if-every-option-is-understood',
              lambda c: z3.Implies(c.truthy(c.argv('critical')),
                                   all_known(c.argv('decoders').dom, c.arg('options')))),
             # "the CA signature covers its exact contents": the options switched on are exactly those the signed
             # field names - an unknown non-critical (name, data) pair is skipped as a whole and changes nothing else
             ('result-has-exactly-the-known-option-names-of-the-field',
              lambda c: _result_dom(c) == granted(c.argv('decoders').dom, c.arg('options')))],
    lemmas=lambda c: all_known_instances(c) + granted_instances(c),
    raises={'KeyImportError': True, 'PacketDecodeError': True, 'UnicodeDecodeError': True})
decode_options.loops[1].havoc_locals = ['packet']


# ------------------------------------------------------------------ validate: type, validity window, principal
def time_stub(cx):
    """time.time(): an arbitrary real number"""
    t = VReal(z3.Real(fresh_name('now')))
    return [Out(ret=t, event=('now', (t,)))]


time_stub.modifies = ()


def cert_acceptable(c):
    """the decision table of the property: type matches the use (or any type is asked for), valid_after <= now <
    valid_before, and the principal is listed unless none is asked for or the certificate lists none"""
    want, own = c.arg('cert_type'), c.old('_cert_type')
    type_ok = z3.Or(want == 0, want == own)
    nows = c.events('now')
    pr, plist_ = c.argv('principal'), c.old('principals')
    k = z3.Int(fresh_name('k'))
    listed = z3.Exists([k], z3.And(0 <= k, k < z3.Length(plist_), plist_[k] == pr.val.z))
    princ_ok = z3.Or(pr.isnone, z3.Length(plist_) == 0, listed)
    if not nows:
        return z3.BoolVal(False), type_ok
    now = nows[0][1][0].z
    window = z3.And(z3.ToReal(c.old('_valid_after')) <= now, now < z3.ToReal(c.old('_valid_before')))
    return z3.And(type_ok, window, princ_ok, z3.BoolVal(len(nows) == 1)), type_ok


cert_validate = Spec(
    PROP, 'public_key', 'SSHOpenSSHCertificate.validate', self_class='Cert',
    params=dict(cert_type='int', principal='opt[str]'),
    classes={'Cert': {'_cert_type': 'int', '_valid_after': 'int', '_valid_before': 'int', 'principals': 'seq[str]'}},
    stubs={'time.time': time_stub},
    ensures=[('accepted-only-if-type-window-principal-ok', lambda c: cert_acceptable(c)[0])],
    # refused exactly when the table says no (the clock is not even read when the type is wrong)
    raises={'ValueError': lambda c: z3.Not(cert_acceptable(c)[0]) if c.events('now')
            else z3.Not(cert_acceptable(c)[1])})
cert_validate.runtime_class = 'SSHOpenSSHCertificateV01'


# ------------------------------------------------------------------ generate: signs the prefix construct verifies
ENC_TABLES = {n: _table_const(n) for n in ('_user_option_encoders', '_user_extension_encoders',
                                           '_host_option_encoders', '_host_extension_encoders')}


def encode_options_stub(cx):
    r = cx.fresh('bytes', 'encoded_options')
    return [Out(ret=r, event=('encode_options', (cx.args[0], cx.args[1], r)))]


def ca_sign_stub(cx):
    r = cx.fresh('bytes', 'ca_signature')
    ev = ('ca_sign', (cx.recv, cx.args[0], cx.args[1], r))
    return [Out(ret=r, event=ev), Out(exc=VExc('ValueError'), event=ev)]


def encode_ssh_public_stub(cx):
    r = cx.fresh('bytes', 'keyfields')
    return [Out(ret=r, event=('encode_ssh_public', (r,)))]


for _f in (encode_options_stub, ca_sign_stub, encode_ssh_public_stub):
    _f.modifies = ()


def generated_layout(c):
    """generate emits  tbs || String(signing_key.sign(tbs, sig_alg))  with tbs laid out as PROTOCOL.certkeys says and
    ending in String(CA public key): exactly the prefix construct() hands to verify"""
    st, res = c.new_state, c.result_v
    sg, eo, ks = c.events('ca_sign'), c.events('encode_options'), c.events('encode_ssh_public')
    rnd = [x for x in c.calls() if x['key'] == 'os.urandom']
    if len(sg) != 1 or len(eo) != 2 or len(ks) != 1 or len(rnd) != 1:
        return z3.BoolVal(False)
    signer, tbs, alg, sig = sg[0][1]
    ca = c.argv('signing_key')
    b8 = lambda v: be(z3.IntVal(8), v)
    pbytes = c.local('principal_bytes')
    ctype = c.arg('cert_type')
    want = z3.Concat(S_(c.arg('algorithm')), S_(rnd[0]['ret'].z), ks[0][1][0].z, b8(c.arg('serial')),
                     be(z3.IntVal(4), ctype), S_(utf8enc(c.arg('key_id'))), S_(pbytes), b8(c.arg('valid_after')),
                     b8(c.arg('valid_before')), S_(eo[0][1][2].z), S_(eo[1][1][2].z), S_(utf8enc(z3.StringVal(''))),
                     S_(c.old('public_data', ca)))
    is_user = ctype == 1
    tables_ok = z3.And(
        z3.If(is_user, c.eq(eo[0][1][1], ENC_TABLES['_user_option_encoders']),
              c.eq(eo[0][1][1], ENC_TABLES['_host_option_encoders'])),
        z3.If(is_user, c.eq(eo[1][1][1], ENC_TABLES['_user_extension_encoders']),
              c.eq(eo[1][1][1], ENC_TABLES['_host_extension_encoders'])))
    return z3.And(tbs.z == want, z3.BoolVal(signer.addr == ca.addr), alg.z == c.arg('sig_alg'),
                  c.new('public_data', res) == z3.Concat(want, S_(sig.z)), z3.Length(rnd[0]['ret'].z) == 32,
                  tables_ok,
                  c.new('_serial', res) == c.arg('serial'), c.new('_cert_type', res) == ctype,
                  c.new('_valid_after', res) == c.arg('valid_after'),
                  c.new('_valid_before', res) == c.arg('valid_before'))


cert_generate = Spec(
    PROP, 'public_key', 'SSHOpenSSHCertificate.generate', self_class=CERT_CLS,
    params=dict(signing_key='obj:SSHKey', algorithm='bytes', key='obj:SSHKey', serial='int', cert_type='int',
                key_id='str', principals='seq[str]', valid_after='int', valid_before='int',
                options='opaque:OptionsDict', sig_alg='bytes', comment='opt[bytes]'),
    classes={CERT_CLS: {}, 'cls': {},
             'SSHKey': {'sig_algorithms': 'seq[bytes]', 'cert_algorithms': 'seq[bytes]', 'public_data': 'bytes'}},
    class_consts={(CERT_CLS, n): t for n, t in ENC_TABLES.items()},
    inline={'cls._encode': ('public_key', 'SSHOpenSSHCertificateV01._encode'),
            'cls.__init__': ('public_key', 'SSHOpenSSHCertificate.__init__'),
            'super().__init__': ('public_key', 'SSHCertificate.__init__')},
    stubs={'cls._encode_options': encode_options_stub,
           'SSHKey.convert_to_public': ret('obj:SSHKey', 'public_key'),
           'SSHKey.encode_ssh_public': encode_ssh_public_stub, 'SSHKey.sign': ca_sign_stub,
           'self.set_comment': noop()},
    ensures=[('certificate==tbs||String(sign(tbs))-in-PROTOCOL.certkeys-layout', generated_layout)],
    raises={'ValueError': True, 'OverflowError': True})
cert_generate.runtime_class = CERT_CLS
# the replay models of these paths need the byte-level definition of every be(8, .) term and mostly time out
# (6 s each); the function is replayed natively only to confirm refuted obligations
cert_generate.no_replay = True


# ------------------------------------------------------------------ decode_ssh_certificate: failure => KeyImportError
def alg_map_get_stub(cx):
    """_certificate_alg_map.get(alg, (None, None)): (key handler, certificate class) registered for alg"""
    v = cx.fresh('tuple[opt[obj:KeyHandler],opt[obj:CertHandler]]', 'handlers')
    return [Out(ret=v, event=('alg_lookup', (cx.args[0], v)))]


alg_map_get_stub.modifies = ()


def construct_callee_stub(cx):
    """cert_handler.construct(packet, alg, key_handler, comment): signals clause proved on construct above (an
    X.509 chain class has the same signals); the reader must be handed over in a consistent state"""
    p = cx.args[0]
    cx.require('reader-invariant', pkt_inv(cx.st, p))
    f = pkt_fields(cx.st, p)
    ev = ('construct', (VBytes(f['_packet']), VBytes(f['ghost_done']), cx.args[1]))
    return [Out(ret=cx.fresh('obj:CertObj', 'cert'), event=ev)] + \
        [Out(exc=VExc(x), event=ev) for x in ('KeyImportError', 'PacketDecodeError', 'ValueError')]


construct_callee_stub.modifies = ()


def handed_over_after_type_string(c):
    """construct sees the whole blob with exactly the type string String(alg) consumed: together with
    cert_layout this is the PROTOCOL.certkeys layout of the complete certificate"""
    evs = c.events('construct')
    if len(evs) != 1:
        return z3.BoolVal(c.raised is not None and len(evs) == 0)
    W, done, alg = evs[0][1]
    looked = c.events('alg_lookup')
    return z3.And(W.z == c.arg('data'), done.z == S_(alg.z), looked[0][1][0].z == alg.z)


decode_cert = Spec(
    PROP, 'public_key', 'decode_ssh_certificate', params=dict(data='bytes', comment='opt[bytes]'),
    classes=dict(PKT_CLASSES, KeyHandler={}, CertHandler={}, CertObj={}), truthy=PACKET_TRUTHY,
    stubs=dict(PKT_STUBS, **{'_certificate_alg_map.get': alg_map_get_stub,
                             'CertHandler.construct': construct_callee_stub}),
    always=[('whole-blob-handed-to-the-class-registered-for-its-type-string', handed_over_after_type_string)],
    raises={'KeyImportError': True})


# ------------------------------------------------------------------ SSHSIG (PROTOCOL.sshsig)
# signed blob:  byte[6] "SSHSIG" || string namespace || string reserved || string hash_algorithm || string H(message)
ASSUMPTIONS += [
    'sha256 / sha512 are uninterpreted functions with 32 / 64 byte results; collision resistance is a '
    'cryptographic assumption',
    'registered OpenSSH certificate classes always come with a key handler (register_certificate_alg), so the '
    'assert in construct is unreachable from decode_ssh_certificate',
    'WildcardPatternList.matches / import_public_key / the SSHAllowedSignersEntry constructor are abstract; inside '
    'validate_sshsig the answer of SSHAllowedSigners.validate is an arbitrary bool (weaker than its contract, which '
    'is proved separately together with load)',
    'no native CPython cross-check (no_replay) for: validate_sshsig on armoured input, generate, _DSAKey.verify_ssh, '
    '_SKECDSAKey.verify_ssh, '
    'SSHAllowedSigners.validate / load (abstract entries); construct / _decode_options / validate / load paths lie '
    'behind loop cuts and are skipped by the cross-check as well',
    'crypto back-end key.verify(...) / der_encode are abstract (a verdict / some bytes)',
    'accepted deviation from "fails if the algorithm name differs in any way": RSA names that are aliases of the same '
    'hash (rsa-sha2-256 / ssh-rsa-sha256@ssh.com / rsa2048-sha256; rsa-sha2-512 / ssh-rsa-sha512@ssh.com) select the '
    'same RSASSA-PKCS1-v1_5 primitive, so relabelling among them verifies; what is proved is: a different name is '
    'either rejected, or selects a different hash / key type, or is such an alias',
]
HASHES = {b'sha256': 32, b'sha512': 64}
HASH_FIELDS = {'digest_size': 'int', 'ghost_digest': 'bytes', 'ghost_name': 'bytes', 'ghost_fed': 'bytes'}
CERT_TYPE_USER, CERT_TYPE_HOST = 1, 2                   # PROTOCOL.certkeys: SSH2_CERT_TYPE_USER / _HOST
hashfn = z3.Function('H', BytesS, BytesS, BytesS)        # H(algorithm name, message)
utf8enc = z3.Function('utf8', StrS, BytesS)              # the engine's name for String(str)


def hash_ctor_stub(cx):
    """hash_alg([data]): hashlib object of the algorithm bound to the local `hash_alg`"""
    tag = cx.st.env['hash_alg'].tag
    name = tag.split(':', 1)[1].encode()
    data = cx.args[0].z if cx.args else z3.Empty(BytesS)
    dg = hashfn(bytes_const(name), data)
    h = new_record(cx.st, 'Hash', digest_size=VInt(HASHES[name]), ghost_digest=VBytes(dg),
                   ghost_name=VBytes(bytes_const(name)), ghost_fed=VBytes(data))
    return [Out(ret=h, assume=[z3.Length(dg) == HASHES[name]])]


hash_ctor_stub.modifies = ()


def hash_digest_stub(cx):
    return cx.st.rec(cx.recv).fields['ghost_digest']


hash_digest_stub.modifies = ()


def hash_update_stub(cx):
    """h.update(chunk): the digest is that of everything fed so far"""
    f = cx.st.rec(cx.recv).fields
    fed = z3.Concat(f['ghost_fed'].z, cx.args[0].z)
    dg = hashfn(f['ghost_name'].z, fed)
    return [Out(sets={'ghost_fed': VBytes(fed), 'ghost_digest': VBytes(dg)},
                assume=[z3.Length(dg) == f['digest_size'].z])]


hash_update_stub.modifies = ('ghost_fed', 'ghost_digest')

# ---- the file-path form: the message is the CONTENT of the file, all of it
file_content = z3.Function('file_content', StrS, BytesS)


def open_file_stub(cx):
    return new_record(cx.st, 'FileCM', ghost_path=cx.args[0])


def with_open_stub(cx):
    """with open_file(path, 'rb') as f: a reader positioned at the start of the file's content (or OSError)"""
    cm = cx.args[0]
    path = cx.st.rec(cm).fields['ghost_path']
    f = new_record(cx.st, 'File', ghost_left=VBytes(file_content(path.z)))
    return [Out(ret=f, event=('opened', (path,))), Out(exc=VExc('OSError'))]


def file_read_stub(cx):
    """f.read(n): the next chunk, at most n bytes, empty exactly at end of file"""
    left = cx.st.rec(cx.recv).fields['ghost_left'].z
    c, rest = cx.fresh('bytes', 'chunk'), cx.fresh('bytes', 'left')
    n = cx.args[0].z
    return [Out(ret=c, sets={'ghost_left': rest},
                assume=[left == z3.Concat(c.z, rest.z), z3.Length(c.z) <= n,
                        (z3.Length(c.z) == 0) == (z3.Length(left) == 0)])]


open_file_stub.modifies = ()
with_open_stub.modifies = ()
file_read_stub.modifies = ('ghost_left',)


def file_hash_inv(c):
    """what has been fed to the hash, followed by what is still unread, is the content of the file"""
    st = c.new_state
    h, f = st.rec(c.localv('h')).fields, st.rec(c.localv('f')).fields
    h0 = c.loop_entry.rec(c.loop_entry.env['h']).fields
    return z3.And(file_content(c.arg('data')) == z3.Concat(h['ghost_fed'].z, f['ghost_left'].z),
                  h['ghost_name'].z == h0['ghost_name'].z, h['digest_size'].z == h0['digest_size'].z,
                  h['ghost_digest'].z == hashfn(h['ghost_name'].z, h['ghost_fed'].z),
                  z3.Length(h['ghost_digest'].z) == h['digest_size'].z)


def sshsig_blob(ns, hash_name, digest):
    return z3.Concat(bytes_const(b'SSHSIG'), S_(utf8enc(ns)), S_(z3.Empty(BytesS)), S_(hash_name), S_(digest))


def _digest_of(c):
    hn, d = c.arg('hash_name'), c.arg('data')
    return z3.If(c.arg('is_hashed'), d, hashfn(hn, d))


def _signed_data_ok(c):
    hn, d = c.arg('hash_name'), c.arg('data')
    known = z3.Or([hn == bytes_const(k) for k in HASHES])
    size = z3.If(hn == bytes_const(b'sha256'), 32, 64)
    return z3.And(known, z3.Length(c.arg('namespace')) > 0,
                  z3.Implies(c.arg('is_hashed'), z3.Length(d) == size))


signed_data = Spec(
    PROP, 'sshsig', '_signed_data',
    params=dict(data='bytes', is_hashed='bool', hash_name='bytes', namespace='str'),
    classes={'Hash': HASH_FIELDS},
    globals={'_hashes': VDict({k: VTag('hash:' + k.decode()) for k in HASHES}),
             'PurePath': VTag('class:PurePath')},
    stubs={'hash_alg': hash_ctor_stub, 'Hash.digest': hash_digest_stub},
    ensures=[('blob==PROTOCOL.sshsig-layout', lambda c: c.result == sshsig_blob(
        c.arg('namespace'), c.arg('hash_name'), _digest_of(c))),
             ('only-for-supported-hash-nonempty-namespace-right-digest-size', _signed_data_ok)],
    raises={'ValueError': lambda c: z3.Not(_signed_data_ok(c))}, returns='bytes')


def _file_ok(c):
    hn = c.arg('hash_name')
    return z3.And(z3.Or([hn == bytes_const(k) for k in HASHES]), z3.Length(c.arg('namespace')) > 0)


signed_data_file = Spec(
    PROP, 'sshsig', '_signed_data',
    params=dict(data='str', is_hashed='bool', hash_name='bytes', namespace='str'),
    classes={'Hash': HASH_FIELDS, 'FileCM': {'ghost_path': 'str'}, 'File': {'ghost_left': 'bytes'}},
    globals={'_hashes': VDict({k: VTag('hash:' + k.decode()) for k in HASHES}),
             'PurePath': VTag('class:PurePath')},
    stubs={'hash_alg': hash_ctor_stub, 'Hash.digest': hash_digest_stub, 'Hash.update': hash_update_stub,
           'open_file': open_file_stub, 'with open_file()': with_open_stub, 'File.read': file_read_stub},
    local_types={'h': 'obj:Hash', 'f': 'obj:File', 'chunk': 'bytes'},
    loops={1: LoopSpec(invariant=file_hash_inv)},
    ensures=[('blob==PROTOCOL.sshsig-layout-over-the-WHOLE-file-content', lambda c: c.result == sshsig_blob(
        c.arg('namespace'), c.arg('hash_name'), hashfn(c.arg('hash_name'), file_content(c.arg('data'))))),
             ('only-for-supported-hash-and-nonempty-namespace', _file_ok)],
    raises={'ValueError': lambda c: z3.Not(_file_ok(c)), 'OSError': True}, returns='bytes')
signed_data_file.loops[1].havoc_locals = ['f', 'h']
signed_data_file.no_replay = True          # file access is abstract


# ---- validate_sshsig
def fn_contract_stub(spec_getter):
    """modular call of a plain function (no receiver) through its verified contract: requires checked at the call,
    ensures / signals assumed (pyvc.contracts.contract_stub needs a receiver object)"""
    def stub(cx):
        spec = spec_getter()
        ex, st = cx.ex, cx.st
        args = dict(zip(list(spec.params), cx.args))
        args.update(cx.kwargs)
        if spec.requires is not None:
            cx.require('requires', spec.requires(Ctx(ex, st, st, None, args=args)))
        r = ex.fresh(st, spec.returns, 'ret_' + spec.qualname) if spec.returns else VNone
        c1 = Ctx(ex, st, st, None, result=r, args=args)
        outs = [Out(ret=r, assume=[f(c1) for _l, f in spec.ensures] + [f(c1) for _l, f in spec.always])]
        for cls, post in spec.raises.items():
            c2 = Ctx(ex, st, st, None, raised=cls, args=args)
            outs.append(Out(exc=VExc(cls), assume=[f(c2) for _l, f in spec.always] +
                            ([post(c2)] if post is not True else [])))
        return outs
    stub.modifies = ()
    stub.spec_getter = spec_getter
    return stub


def cert_decode_stub(cx):
    """decode_ssh_certificate(pubdata): a certificate object (contract above) or KeyImportError"""
    k, ca = cx.fresh('obj:SSHKey', 'cert_key'), cx.fresh('obj:SSHKey', 'cert_ca')
    cert = new_record(cx.st, 'Cert', is_x509=cx.fresh('bool', 'is_x509'), key=k, signing_key=ca)
    return [Out(ret=cert, event=('pub_decode', (cx.args[0], k, cert))), Out(exc=VExc('KeyImportError'))]


def key_decode_stub(cx):
    k = cx.fresh('obj:SSHKey', 'plain_key')
    return [Out(ret=k, event=('pub_decode', (cx.args[0], k, VNone))), Out(exc=VExc('KeyImportError'))]


def sig_verify_stub(cx):
    r = cx.fresh('bool', 'sig_ok')
    return [Out(ret=r, event=('sig_verify', (cx.recv, cx.args[0], cx.args[1], r)))]


def signers_validate_stub(cx):
    r = cx.fresh('bool', 'authorised')
    ca = cx.kwargs.get('ca', VBool(False))
    return [Out(ret=r, event=('authorise', (cx.args[0], cx.args[1], cx.args[2], ca, r)))]


def cert_validate_stub(cx):
    ev = ('cert_validate', (cx.recv, cx.args[0], cx.args[1]))
    return [Out(event=ev), Out(exc=VExc('ValueError'), event=ev)]


def match_base64_stub(cx):
    return [Out(ret=VTuple([cx.fresh('bytes', 'b64'), cx.fresh('int', 'b64end')])), Out(exc=VExc('ValueError'))]


for _f in (cert_decode_stub, key_decode_stub, sig_verify_stub, signers_validate_stub, cert_validate_stub,
           match_base64_stub):
    _f.modifies = ()


def sshsig_true_only_if(c):
    """True only if: the (de-armoured) signature is exactly  "SSHSIG" || uint32 1 || String(pubkey) ||
    String(namespace) || String(reserved) || String(hash) || String(sig);  the embedded key (or certificate key)
    verified sig over the PROTOCOL.sshsig blob of THIS message, namespace and hash;  and the allowed-signers data
    authorises that key for (principal, namespace) - or, for a certificate, its CA as a cert-authority AND the
    certificate itself is valid for the principal now"""
    res = c.result_v
    t = c.truthy(res)
    if concrete_bool(t) is False:
        return z3.BoolVal(True)
    news = [x for x in c.calls() if x['key'] == 'SSHPacket']
    strs = [e[1][1].z for e in c.events('pkt_string')]
    pubs, sv, au = c.events('pub_decode'), c.events('sig_verify'), c.events('authorise')
    sd = [x for x in c.calls() if x['key'] == '_signed_data']
    if len(news) != 1 or len(strs) != 5 or len(pubs) != 1 or len(sv) != 1 or len(sd) != 1 or not au:
        return z3.Not(t)
    blob = news[0]['args'][0].z
    pub, nsb, reserved, hname, sig = strs
    pub_arg, key, cert = pubs[0][1]
    vkey, vdata, vsig, vok = sv[0][1]
    ns = utf8dec(nsb)
    princ = c.arg('principal')
    conj = [
        blob == z3.Concat(bytes_const(b'SSHSIG'), be(z3.IntVal(4), z3.IntVal(1)), S_(pub), S_(nsb), S_(reserved),
                          S_(hname), S_(sig)),
        pub_arg.z == pub, z3.BoolVal(vkey.addr == key.addr), vsig.z == sig, vok.z,
        # same message / namespace / hash: what was verified is the blob of the caller's data
        vdata.z == sshsig_blob(ns, hname, z3.If(c.arg('is_hashed'), c.arg('data'), hashfn(hname, c.arg('data')))),
    ]
    k0, p0, n0, ca0, r0 = au[0][1]
    direct = z3.And(z3.BoolVal(k0.addr == key.addr), p0.z == princ, n0.z == ns, z3.Not(c.truthy(ca0)), r0.z)
    if len(au) == 1:
        conj.append(direct)
    elif len(au) == 2 and cert is not VNone:
        k1, p1, n1, ca1, r1 = au[1][1]
        cv = c.events('cert_validate')
        via_ca = z3.And(z3.BoolVal(k1.addr == c.new_state.rec(cert).fields['signing_key'].addr),
                        p1.z == princ, n1.z == ns, c.truthy(ca1), r1.z,
                        z3.BoolVal(len(cv) == 1 and cv[0][1][0].addr == cert.addr),
                        # SSHSIG signers are users (PROTOCOL.sshsig; ssh-keygen -Y verify checks the certificate with
                        # want_host = 0): "its type matches the use" means the USER type, not any type
                        cv[0][1][1].z == CERT_TYPE_USER if cv else z3.BoolVal(False),
                        c.eq(cv[0][1][2], c.argv('principal')) if cv else z3.BoolVal(False),
                        z3.BoolVal(c.calls('validate')[-1]['exc'] is None))
        conj.append(z3.Or(direct, via_ca))
    else:
        conj.append(z3.BoolVal(False))
    return z3.Implies(t, z3.And(conj))


def _mk_validate_sshsig(armoured):
    """two input forms, verified separately: a raw blob, and the PEM-style armoured form (whose path conditions
    carry the quantified models of find / rstrip: no native cross-check is attempted there)"""
    dash = z3.PrefixOf(bytes_const(b'-'), z3.Const('x', BytesS))
    sp = Spec(
        PROP, 'sshsig', 'validate_sshsig',
        params=dict(data='bytes', sig='bytes', principal='str', allowed_signers='obj:SSHAllowedSigners',
                    is_hashed='bool'),
        classes=dict(PKT_CLASSES, SSHAllowedSigners={}, SSHKey={},
                     Cert={'is_x509': 'bool', 'key': 'obj:SSHKey', 'signing_key': 'obj:SSHKey'}),
        truthy=PACKET_TRUTHY,
        globals={'PurePath': VTag('class:PurePath')},
        stubs=dict(PKT_STUBS, **{
            'match_base64': match_base64_stub,
            'binascii.a2b_base64': may_raise(ret('bytes', 'dearmoured'), 'ValueError'),
            'decode_ssh_certificate': cert_decode_stub, 'decode_ssh_public_key': key_decode_stub,
            '_signed_data': fn_contract_stub(lambda: signed_data),
            'SSHKey.verify': sig_verify_stub, 'SSHAllowedSigners.validate': signers_validate_stub,
            'Cert.validate': cert_validate_stub}),
        requires=lambda c: (lambda d: d if armoured else z3.Not(d))(
            z3.PrefixOf(bytes_const(b'-'), c.arg('sig'))),
        ensures=[('true-only-for-same-message-namespace-and-authorised-signer', sshsig_true_only_if)],
        # documented to return a bool: malformed, unsupported or unauthorised signatures are False, never an
        # exception (an unsupported hash / empty namespace / X.509 certificate used to escape as ValueError)
        raises={}, returns='bool')
    sp.native_isinstance = ('SSHAllowedSigners',)
    if armoured:
        sp.no_replay = True
    return sp


validate_sshsig_raw = _mk_validate_sshsig(False)
validate_sshsig_armoured = _mk_validate_sshsig(True)


# ---- allowed_signers line options: each option's value is stored under ITS OWN name, nothing else changes
# (which handler serves which option name: data check allowed-signers-option-handlers; the option syntax itself is
# OptionsParser, verified in C17)
def _mk_entry_setter(name, vt, maker_key, maker_ret):
    def maker(cx):
        r = cx.fresh(maker_ret, 'parsed')
        return [Out(ret=r, event=('parsed', (cx.args[0], r))), Out(exc=VExc('ValueError'))]
    maker.modifies = ()

    def post(c):
        evs = c.events('parsed')
        if len(evs) != 1:
            return z3.BoolVal(False)
        text, val = evs[0][1]
        o0, o1 = c.oldv('options'), c.newv('options')
        k = c.arg('option')
        return z3.And(text.z == c.arg('value'), o1.dom == z3.Store(o0.dom, k, True),
                      o1.val == z3.Store(o0.val, k, val.z))
    return Spec(PROP, 'sshsig', 'SSHAllowedSignersEntry.' + name, self_class='SSHAllowedSignersEntry',
                params=dict(option='str', value='str'),
                classes={'SSHAllowedSignersEntry': {'options': 'dict[str,%s]' % vt}},
                stubs={maker_key: maker},
                ensures=[('value-of-this-line-option-stored-under-its-own-name-only', post)],
                raises={'ValueError': lambda c: z3.And(c.newv('options').dom == c.oldv('options').dom,
                                                       c.newv('options').val == c.oldv('options').val)})


entry_set_time = _mk_entry_setter('_set_time', 'int', 'parse_time', 'int')
entry_set_pattern = _mk_entry_setter('_set_pattern', 'opaque:Pattern', 'WildcardPatternList', 'opaque:Pattern')
entry_set_time.no_replay = entry_set_pattern.no_replay = True     # options is a symbolic map of the entry


# ---- SSHAllowedSigners.validate: "a signer the allowed-signers data authorises"
# plain lines authorise their key itself, cert-authority lines authorise a CA (asked for with ca=True); an entry
# authorises only if BOTH its key is the one asked about AND its options match (principal, namespace, now).
ASSUMPTIONS += [
    'within one SSHAllowedSigners.validate call, entry.match_options(principal, namespace) is a function of the entry '
    '(the clock does not cross a validity boundary between two loop iterations); there key equality is an abstract '
    'relation - the __eq__ methods of the six key classes are under contract separately',
]
ENTRY_SEQ = 'seq[opaque:Entry]'
entry_key = z3.Function('attr_Entry_key', opaque_sort('Entry'), opaque_sort('Key'))     # engine name for entry.key
entry_matches_fn = z3.Function('entry_match_options', opaque_sort('Entry'), StrS, StrS, BoolS)


def entry_match_stub(cx):
    return VBool(entry_matches_fn(cx.recv.z, cx.args[0].z, cx.args[1].z))


entry_match_stub.modifies = ()


def _authorises(c, e):
    return z3.And(entry_key(e) == c.arg('key'), entry_matches_fn(e, c.arg('principal'), c.arg('namespace')))


def _asked_list(c):
    return z3.If(c.arg('ca'), c.old('_cert_entries'), c.old('_key_entries'))


def signers_validate_post(c):
    L = _asked_list(c)
    res = c.truthy(c.result_v)
    j = z3.Int(fresh_name('j'))
    some = z3.Exists([j], z3.And(0 <= j, j < z3.Length(L), _authorises(c, L[j])))
    if c.new_state.env.get('__loop_i__') is not None and concrete_bool(res) is True:
        i = c.new_state.env['__loop_i__'].z           # returned from inside the loop: the witness is this entry
        return z3.And(0 <= i, i < z3.Length(L), _authorises(c, L[i]))
    return res == some


signers_validate = Spec(
    PROP, 'sshsig', 'SSHAllowedSigners.validate', self_class='SSHAllowedSigners',
    params=dict(key='opaque:Key', principal='str', namespace='str', ca='bool'),
    classes={'SSHAllowedSigners': {'_cert_entries': ENTRY_SEQ, '_key_entries': ENTRY_SEQ}},
    stubs={'entry.match_options': entry_match_stub},
    loops={1: LoopSpec(invariant=lambda c: (lambda jj: z3.And(
        c.extra['iter'].z == _asked_list(c),
        z3.ForAll([jj], z3.Implies(z3.And(0 <= jj, jj < c.extra['i']),
                                   z3.Not(_authorises(c, c.extra['iter'].z[jj]))))))(z3.Int(fresh_name('jj'))))},
    ensures=[('true-iff-an-entry-of-the-asked-kind-has-this-key-AND-matching-options', signers_validate_post)],
    returns='bool')
signers_validate.opaque_attrs = {('Entry', 'key'): 'opaque:Key'}
signers_validate.no_replay = True        # entries are abstract values: nothing to run natively


# ---- SSHAllowedSigners.load: a cert-authority line authorises a CA only, never its key as a plain signer
entry_options = z3.Function('attr_Entry_options', opaque_sort('Entry'), opaque_sort('EntryOptions'))
opts_has = z3.Function('contains_EntryOptions_String', opaque_sort('EntryOptions'), StrS, BoolS)    # engine names


def is_ca_entry(e):
    return opts_has(entry_options(e), z3.StringVal('cert-authority'))


def entry_ctor_stub(cx):
    e = cx.fresh('opaque:Entry', 'entry')
    return [Out(ret=e), Out(exc=VExc('KeyImportError')), Out(exc=VExc('ValueError'))]


entry_ctor_stub.modifies = ()


ESEQ = z3.SeqSort(opaque_sort('Entry'))
all_plain = z3.Function('all_plain_entries', ESEQ, BoolS)      # recursive: all_plain([]) ; all_plain(s ++ [e]) = all_plain(s) and not is_ca(e)
all_ca = z3.Function('all_ca_entries', ESEQ, BoolS)            # recursive: all_ca([])    ; all_ca(s ++ [e])    = all_ca(s) and is_ca(e)


def _added(c, name, new_z=None):
    old = c.ex.get_field(c.ex.entry_state, c.self_ref, name).z
    cur = c.new(name) if new_z is None else new_z
    return old, cur, z3.Extract(cur, z3.Length(old), z3.Length(cur) - z3.Length(old))


def lists_sorted_by_kind(c):
    """every entry added since the call began sits in the list of its own kind (and nothing older was touched)"""
    k0, k1, ak = _added(c, '_key_entries')
    c0, c1, ac = _added(c, '_cert_entries')
    return z3.And(z3.PrefixOf(k0, k1), z3.PrefixOf(c0, c1), all_plain(ak), all_ca(ac))


def kind_instances(c):
    """definitional instances (empty list, and snoc for an append made in this iteration); the slice identity the snoc
    instance is applied through is proved first"""
    out = [all_plain(z3.Empty(ESEQ)), all_ca(z3.Empty(ESEQ))]
    head = getattr(c, 'head', None)
    if head is None:
        return out
    for name, pred, want_ca in (('_key_entries', all_plain, False), ('_cert_entries', all_ca, True)):
        h = c.ex.get_field(head, c.self_ref, name).z
        n = c.new(name)
        if n.decl().kind() == z3.Z3_OP_SEQ_CONCAT and n.num_args() == 2 and n.arg(0).eq(h) \
                and n.arg(1).decl().kind() == z3.Z3_OP_SEQ_UNIT:
            e = n.arg(1).arg(0)
            _o, _h, a_head = _added(c, name, h)
            _o, _n, a_new = _added(c, name)
            out.append(Prove(a_new == z3.Concat(a_head, z3.Unit(e)), 'added-part-grows-by-the-appended-entry'))
            out.append(pred(z3.Concat(a_head, z3.Unit(e))) ==
                       z3.And(pred(a_head), is_ca_entry(e) if want_ca else z3.Not(is_ca_entry(e))))
    return out


signers_load = Spec(
    PROP, 'sshsig', 'SSHAllowedSigners.load', self_class='SSHAllowedSigners',
    params=dict(allowed_signers='str'),
    classes={'SSHAllowedSigners': {'_cert_entries': ENTRY_SEQ, '_key_entries': ENTRY_SEQ}},
    stubs={'SSHAllowedSignersEntry': entry_ctor_stub},
    local_types={'line': 'str', 'entry': 'opaque:Entry'},
    loops={1: LoopSpec(invariant=lists_sorted_by_kind, modifies=['_cert_entries', '_key_entries'],
                       lemmas=kind_instances)},
    always=[('cert-authority-lines-only-in-the-CA-list-plain-lines-only-in-the-key-list', lists_sorted_by_kind)],
    lemmas=kind_instances,
    raises={'ValueError': True})
signers_load.opaque_attrs = {('Entry', 'options'): 'opaque:EntryOptions'}
signers_load.no_replay = True


signers_validate_stub.spec_getter = lambda: signers_validate       # arbitrary-bool stub, backed by the contract above


# ---- create_sshsig: emits what validate_sshsig parses
def load_keypairs_stub(cx):
    kp = cx.fresh('obj:KeyPair', 'keypair')
    return [Out(ret=cx.st.alloc(VList([kp]))), Out(ret=cx.st.alloc(VList([])))]


def keypair_sign_stub(cx):
    r = cx.fresh('bytes', 'signature')
    return [Out(ret=r, event=('kp_sign', (cx.recv, cx.args[0], r)))]


def wrap_base64_stub(cx):
    r = cx.fresh('bytes', 'armoured')
    return [Out(ret=r, event=('armour', (cx.args[0], cx.args[1], r)))]


for _f in (load_keypairs_stub, keypair_sign_stub, wrap_base64_stub):
    _f.modifies = ()

utf8enc2 = z3.Function('encode_utf8', StrS, BytesS)       # the engine's name for str.encode('utf-8')


def created_sshsig(c):
    """PROTOCOL.sshsig: "SSHSIG" || uint32 1 || String(pubkey) || String(namespace) || String(reserved="") ||
    String(hash) || String(signature over the signed-data blob of this message / namespace / hash)"""
    sg = c.events('kp_sign')
    sd = [x for x in c.calls() if x['key'] == '_signed_data']
    if len(sg) != 1 or len(sd) != 1:
        return z3.BoolVal(False)
    kp, signed, sig = sg[0][1]
    hn = utf8enc2(c.arg('hash_name'))
    ns = c.arg('namespace')
    digest = z3.If(c.arg('is_hashed'), c.arg('data'), hashfn(hn, c.arg('data')))
    e = z3.Empty(BytesS)
    raw = z3.Concat(bytes_const(b'SSHSIG'), be(z3.IntVal(4), z3.IntVal(1)), S_(c.new('public_data', kp)),
                    S_(utf8enc(ns)), S_(e), S_(hn), S_(sig.z))
    arm = c.events('armour')
    out = z3.And(c.result == raw, z3.BoolVal(not arm)) if not arm else \
        z3.And(arm[0][1][0].z == raw, c.result == arm[0][1][2].z, z3.Not(c.arg('raw')))
    return z3.And(signed.z == sshsig_blob(ns, hn, digest), out,
                  z3.Implies(c.arg('raw'), z3.BoolVal(not arm)))


create_sshsig = Spec(
    PROP, 'sshsig', 'create_sshsig',
    params=dict(key='opaque:KeyArg', data='bytes', is_hashed='bool', hash_name='str', namespace='str', raw='bool'),
    classes={'KeyPair': {'has_x509_chain': 'bool', 'sig_algorithm': 'bytes', 'public_data': 'bytes'}},
    stubs={'load_keypairs': load_keypairs_stub, 'KeyPair.set_sig_algorithm': noop('set_sig_algorithm'),
           '_signed_data': fn_contract_stub(lambda: signed_data), 'KeyPair.sign': keypair_sign_stub,
           'wrap_base64': wrap_base64_stub},
    ensures=[('signature-blob==PROTOCOL.sshsig-layout-over-this-message', created_sshsig)],
    raises={'ValueError': True}, returns='bytes')


# ---- allowed_signers entry: principal pattern AND namespace pattern (if given) AND validity window
ENTRY_FIELDS = {'principals': 'obj:PatternList', 'options': 'obj:OptionsMap', 'ghost_namespaces': 'opt[obj:PatternList]',
                'ghost_valid_after': 'opt[int]', 'ghost_valid_before': 'opt[int]'}
OPTION_GHOST = {'namespaces': 'ghost_namespaces', 'valid-after': 'ghost_valid_after',
                'valid-before': 'ghost_valid_before'}


def entry_options_get_stub(cx):
    """self.options.get(name): the three options an allowed_signers line can carry (None when absent)"""
    name = concrete_str(cx.args[0])
    if name not in OPTION_GHOST:
        raise Unsupported(f'allowed_signers option {name!r} is not modelled')
    return cx.selff(OPTION_GHOST[name])


def pattern_matches_stub(cx):
    r = cx.fresh('bool', 'matches')
    return [Out(ret=r, event=('matches', (cx.recv, cx.args[0], r)))]


entry_options_get_stub.modifies = ()
pattern_matches_stub.modifies = ()


def entry_matches(c):
    """the value the property prescribes, from the pattern verdicts and the clock"""
    ms = {e[1][0].addr: e[1] for e in c.events('matches')}
    pl = c.oldv('principals')
    nsp, va, vb = c.oldv('ghost_namespaces'), c.oldv('ghost_valid_after'), c.oldv('ghost_valid_before')
    conj = []
    if pl.addr not in ms:
        return None
    _r, arg, ok = ms[pl.addr]
    conj.append(z3.And(arg.z == c.arg('principal'), ok.z))
    if nsp.val.addr in ms:
        _r, arg, ok = ms[nsp.val.addr]
        conj.append(z3.Or(nsp.isnone, z3.And(arg.z == c.arg('namespace'), ok.z)))
    else:
        conj.append(nsp.isnone)
    nows = c.events('now')
    if nows:
        now = nows[0][1][0].z
        conj.append(z3.Or(va.isnone, z3.ToReal(va.val.z) <= now))
        conj.append(z3.Or(vb.isnone, now < z3.ToReal(vb.val.z)))
    else:
        conj.append(z3.BoolVal(False))
    return z3.And(conj)


def match_options_post(c):
    want = entry_matches(c)
    res = c.truthy(c.result_v)
    if want is None:
        return z3.BoolVal(False)
    # patterns / clock that were not consulted can only be skipped once the answer is already False
    return z3.And(z3.Implies(res, want),
                  z3.Implies(z3.Not(res), z3.Not(want)) if c.events('now') else z3.Not(res))


match_options = Spec(
    PROP, 'sshsig', 'SSHAllowedSignersEntry.match_options', self_class='SSHAllowedSignersEntry',
    params=dict(principal='str', namespace='str'),
    classes={'SSHAllowedSignersEntry': ENTRY_FIELDS, 'PatternList': {}, 'OptionsMap': {}},
    stubs={'OptionsMap.get': entry_options_get_stub, 'PatternList.matches': pattern_matches_stub,
           'time.time': time_stub},
    ensures=[('principal-and-namespace-and-validity-window', match_options_post)], returns='bool')


# ------------------------------------------------------------------ per key type verify_ssh: blob fully consumed
# SSHKey.verify hands over the reader positioned after the algorithm name.  Whatever follows must be exactly the
# signature encoding of that key type - anything trailing makes the signature invalid (PacketDecodeError, which
# SSHKey.verify turns into False) - and the back-end primitive is asked about the caller's data.
def crypto_verify_stub(cx):
    r = cx.fresh('bool', 'crypto_ok')
    return [Out(ret=r, event=('crypto_verify', tuple(cx.args) + (r,)))]


def pkt_get_mpint(cx):
    """get_mpint(): a string, read as a two's complement integer (value uninterpreted)"""
    from pyvc.builtins_model import be_term
    v = cx.fresh('bytes', 'mpint')
    piece = z3.Concat(be_term(cx.st, 4, z3.Length(v.z)), v.z)
    sets, assume, f, rest1 = _advance(cx, piece, 'mpint')
    ival = z3.Function('sunbe', BytesS, IntS)(v.z)
    return [Out(ret=VInt(ival), sets=sets, assume=assume + [z3.Length(v.z) < 2 ** 32],
                event=('pkt_string', (cx.recv, v, VBytes(f['ghost_rest']), rest1))),
            Out(exc=VExc('PacketDecodeError'))]


crypto_verify_stub.modifies = ()
pkt_get_mpint.modifies = ('_idx', 'ghost_done', 'ghost_rest')
pkt_get_mpint.spec_getter = lambda: real_get_mpint


def _blob_is(c, layout):
    """the unread part of the reader at entry is exactly layout(strings read from it)"""
    p = c.argv('packet')
    strs = [e[1][1].z for e in c.events('pkt_string') if e[1][0].addr == p.addr]
    return c.old('ghost_rest', p) == layout(strs)


def _prim_verdict(c, nargs):
    evs = c.events('crypto_verify')
    if len(evs) != 1:
        return None
    return evs[0][1]


def _mk_verify_ssh(module, cls, post, extra_stubs=None, raises=None, **kw):
    return Spec(
        PROP, module, cls + '.verify_ssh', self_class=cls,
        params=dict(data='bytes', sig_algorithm='bytes', packet='obj:SSHPacket'),
        classes=dict(PKT_CLASSES, **{cls: dict({'_key': 'obj:CryptoKey'}, **kw.pop('fields', {})), 'CryptoKey': {}}),
        truthy=PACKET_TRUTHY,
        stubs=dict(PKT_STUBS, **dict({'CryptoKey.verify': crypto_verify_stub,
                                      'SSHPacket.get_mpint': pkt_get_mpint}, **(extra_stubs or {}))),
        requires=lambda c: pkt_inv(c.old_state, c.argv('packet')),
        ensures=[('blob-fully-consumed-and-primitive-verdict-returned', post)],
        raises=dict({'PacketDecodeError': True}, **(raises or {})), returns='bool', **kw)


def _single_string_post(hash_of=None):
    def post(c):
        ev = _prim_verdict(c, 0)
        strs = [e[1][1].z for e in c.events('pkt_string')]
        if ev is None or len(strs) != 1:
            return z3.BoolVal(False)
        conj = [_blob_is(c, lambda ss: S_(ss[0])), ev[0].z == c.arg('data'), ev[1].z == strs[0],
                c.result == ev[-1].z]
        if hash_of is not None:
            conj.append(hash_of(c, ev[2]))
        return z3.And(conj)
    return post


# RFC 8332 / RFC 4253 / RFC 6187: the hash is selected by the algorithm NAME.  A relabelled signature is therefore
# checked with the hash of the new label: it fails if the new name stands for a different hash (or key type), but
# names that are ALIASES of the same hash (rsa-sha2-256 / ssh-rsa-sha256@ssh.com / rsa2048-sha256, rsa-sha2-512 /
# ssh-rsa-sha512@ssh.com) select the same primitive and the relabelled blob still verifies - by design of those
# aliases, see ASSUMPTIONS and the data check rsa-names-of-one-hash-are-the-only-aliases.
RSA_HASH = {b'rsa-sha2-256': 'sha256', b'rsa-sha2-512': 'sha512', b'ssh-rsa': 'sha1', b'rsa2048-sha256': 'sha256'}


def _rsa_hash(c, h):
    a = c.arg('sig_algorithm')
    return z3.And([z3.Implies(a == bytes_const(k), h.z == z3.StringVal(v)) for k, v in RSA_HASH_ALL.items()])


def _rsa_known(c):
    from pyvc import extract
    keys = extract.get_module('rsa').lookup_const('_hash_algs')
    return z3.Or([c.arg('sig_algorithm') == bytes_const(k) for k in keys])


rsa_verify_ssh = _mk_verify_ssh('rsa', 'RSAKey', _single_string_post(_rsa_hash),
                                raises={'KeyError': lambda c: z3.Not(_rsa_known(c))})
ed_verify_ssh = _mk_verify_ssh('eddsa', '_EdKey', _single_string_post())


def _ecdsa_post(c):
    """blob == String(mpint r || mpint s), nothing trailing at either level"""
    ev = _prim_verdict(c, 0)
    outer = [e[1] for e in c.events('pkt_string') if e[1][0].addr == c.argv('packet').addr]
    inner = [e[1] for e in c.events('pkt_string') if e[1][0].addr != c.argv('packet').addr]
    der = c.events('der_encode')
    if ev is None or len(outer) != 1 or len(inner) != 2 or len(der) != 1:
        return z3.BoolVal(False)
    sig = outer[0][1].z
    sun = z3.Function('sunbe', BytesS, IntS)         # the engine's name for int.from_bytes(.., 'big', signed=True)
    rs = der[0][1][0]
    return z3.And(_blob_is(c, lambda ss: S_(ss[0])), sig == z3.Concat(S_(inner[0][1].z), S_(inner[1][1].z)),
                  ev[0].z == c.arg('data'), ev[1].z == der[0][1][1].z, c.eq(ev[2], c.oldv('_hash_alg')),
                  # what the back end sees is DER(r, s) with r the FIRST and s the SECOND mpint of the blob
                  z3.BoolVal(isinstance(rs, VTuple) and len(rs.items) == 2),
                  rs.items[0].z == sun(inner[0][1].z), rs.items[1].z == sun(inner[1][1].z),
                  c.result == ev[-1].z)


def der_encode_stub(cx):
    r = cx.fresh('bytes', 'der')
    return [Out(ret=r, event=('der_encode', (cx.args[0], r)))]


der_encode_stub.modifies = ()

ec_verify_ssh = _mk_verify_ssh('ecdsa', '_ECKey', _ecdsa_post, extra_stubs={'der_encode': der_encode_stub},
                               fields={'_hash_alg': 'str'})


def _dsa_post(c):
    """blob == String(40 bytes r||s); any other length is no signature (False, primitive not consulted)"""
    evs = c.events('crypto_verify')
    strs = [e[1][1].z for e in c.events('pkt_string')]
    if len(strs) != 1:
        return z3.BoolVal(False)
    exact = _blob_is(c, lambda ss: S_(ss[0]))
    if not evs:
        return z3.And(exact, z3.Length(strs[0]) != 40, z3.Not(c.result))
    ev = evs[0][1]
    der = c.events('der_encode')
    if len(evs) != 1 or len(der) != 1:
        return z3.BoolVal(False)
    rs = der[0][1][0]
    return z3.And(exact, z3.Length(strs[0]) == 40, ev[0].z == c.arg('data'), c.result == ev[-1].z,
                  # RFC 4253 6.6: r is the first 160 bits, s the second; the back end sees DER(r, s)
                  rs.items[0].z == unbe(z3.Extract(strs[0], 0, 20)), rs.items[1].z == unbe(z3.Extract(strs[0], 20, 20)),
                  ev[1].z == der[0][1][1].z, ev[2].z == z3.StringVal('sha1'))


dsa_verify_ssh = _mk_verify_ssh('dsa', '_DSAKey', _dsa_post, extra_stubs={'der_encode': der_encode_stub})
# int.from_bytes of the two 20-byte halves: the engine's big-endian model only defines widths 1, 2, 4 and 8, so the
# integers handed to der_encode cannot be predicted byte-exactly; no native cross-check for this function
dsa_verify_ssh.no_replay = True


# ---- security keys (PROTOCOL.u2f): blob = string sig || byte flags || uint32 counter [|| string origin ||
#      string clientData || string extensions  for webauthn-...]; the key signs
#      sha256(application) || flags || counter || sha256(message)   where message is the caller's data, or the WebAuthn
#      client data which must itself embed the caller's data (challenge); a key that demands touch only accepts
#      signatures whose user-presence flag (0x01) is set.
wa_prefix = z3.Function('webauthn_prefix', BytesS, StrS, BytesS)


def sha256_stub(cx):
    dg = hashfn(bytes_const(b'sha256'), cx.args[0].z)
    h = new_record(cx.st, 'Hash', ghost_digest=VBytes(dg))
    return [Out(ret=h, assume=[z3.Length(dg) == 32])]


def wa_prefix_stub(cx):
    return VBytes(wa_prefix(cx.args[0].z, cx.args[1].z))


sha256_stub.modifies = ()
wa_prefix_stub.modifies = ()


def _sk_post(ecdsa):
    def post(c):
        p = c.argv('packet')
        outer = [e[1] for e in c.events('pkt_string') if e[1][0].addr == p.addr]
        inner = [e[1] for e in c.events('pkt_string') if e[1][0].addr != p.addr]
        ints = {e[1][1]: e[1][2].z for e in c.events('pkt_uint') if e[1][0].addr == p.addr}
        evs = c.events('crypto_verify')
        res = c.result
        if not evs:
            return z3.Not(res)                      # the back end was not consulted: the answer must be False
        if len(evs) != 1 or 1 not in ints or 4 not in ints or not outer:
            return z3.BoolVal(False)
        ev = evs[0][1]
        flags, counter = ints[1], ints[4]
        sig = outer[0][1].z
        is_wa = z3.PrefixOf(bytes_const(b'webauthn'), c.arg('sig_algorithm')) if ecdsa else z3.BoolVal(False)
        tail = z3.Concat(z3.Unit(flags), be(z3.IntVal(4), counter))
        if len(outer) == 4:
            origin, cd, ext = outer[1][1].z, outer[2][1].z, outer[3][1].z
            layout = z3.And(is_wa, c.old('ghost_rest', p) == z3.Concat(S_(sig), tail, S_(origin), S_(cd), S_(ext)),
                            # the client data is bound to the caller's message
                            z3.PrefixOf(wa_prefix(c.arg('data'), c.old('_application')), cd))
            message = cd
        elif len(outer) == 1:
            layout = z3.And(z3.Not(is_wa), c.old('ghost_rest', p) == z3.Concat(S_(sig), tail))
            message = c.arg('data')
        else:
            return z3.BoolVal(False)
        signed = z3.Concat(c.old('_app_hash'), z3.Unit(flags), be(z3.IntVal(4), counter),
                           hashfn(bytes_const(b'sha256'), message))
        conj = [layout, ev[0].z == signed, res == ev[-1].z,
                z3.Implies(c.old('_touch_required'), flags % 2 == 1)]
        if ecdsa:
            der = c.events('der_encode')
            if len(inner) != 2 or len(der) != 1:
                return z3.BoolVal(False)
            sun = z3.Function('sunbe', BytesS, IntS)
            rs = der[0][1][0]
            conj += [sig == z3.Concat(S_(inner[0][1].z), S_(inner[1][1].z)), ev[1].z == der[0][1][1].z,
                     rs.items[0].z == sun(inner[0][1].z), rs.items[1].z == sun(inner[1][1].z),
                     ev[2].z == z3.StringVal('sha256')]
        else:
            conj.append(ev[1].z == sig)
        return z3.And(conj)
    return post


_SK_FIELDS = {'_touch_required': 'bool', '_application': 'str', '_app_hash': 'bytes'}
_SK_STUBS = {'sha256': sha256_stub, 'Hash.digest': hash_digest_stub, 'sk_webauthn_prefix': wa_prefix_stub,
             'der_encode': der_encode_stub}


def _mk_sk(module, cls, ecdsa):
    sp = _mk_verify_ssh(module, cls, _sk_post(ecdsa), extra_stubs=_SK_STUBS, fields=_SK_FIELDS)
    sp.classes['Hash'] = {'ghost_digest': parse_type('bytes')}
    sp.ensures = [('blob-layout-touch-and-webauthn-binding-then-primitive-verdict', _sk_post(ecdsa))]
    return sp


skec_verify_ssh = _mk_sk('sk_ecdsa', '_SKECDSAKey', True)
# replay models of the WebAuthn paths (five strings plus byte-level be() definitions) cost ~40 s, a third of them
# time out; the touch / counter / message layout logic is cross-checked natively on the Ed25519 variant below
skec_verify_ssh.no_replay = True
sked_verify_ssh = _mk_sk('sk_eddsa', '_SKEd25519Key', False)


# ------------------------------------------------------------------ per key type sign_ssh: emits what verify_ssh parses
# "a signature made with any key and algorithm verifies under the matching public key": sign_ssh(data, alg) is the
# key type's encoding of the back end's signature over (data, hash of alg), field for field the blob the verify_ssh
# contract above demands (String(sig) for RSA / EdDSA; String(mpint r || mpint s) for ECDSA, r first; String(r || s)
# as two 160-bit integers for DSA).  With sunbe(sbe(n, v)) == v / unbe(be(20, v)) == v and the unique-parse lemma,
# verify_ssh then hands the back end the same (data, signature, hash).
ASSUMPTIONS += [
    'MPInt(v) == uint32 n || sbe(n, v) (n-byte two\'s complement): the contract of packet.MPInt proved in C15 '
    '(contracts/c15.py enc_mpint, for values whose encoding fits in memory); der_decode / crypto key.sign are abstract',
]
sbe_fn = z3.Function('sbe', IntS, IntS, BytesS)
sunbe_fn = z3.Function('sunbe', BytesS, IntS)


def mpint_enc_stub(cx):
    """MPInt(v): clauses of C15's proved contract that the round trip needs"""
    from pyvc.builtins_model import be_term
    v = cx.args[0]
    L = cx.fresh('int', 'mpint_len')
    body = sbe_fn(L.z, v.z)
    t = z3.Concat(be_term(cx.st, 4, L.z), body)
    return [Out(ret=VBytes(t), assume=[L.z >= 0, L.z < 2 ** 32, z3.Length(body) == L.z, sunbe_fn(body) == v.z],
                event=('mpint', (v, VBytes(body))))]


mpint_enc_stub.modifies = ()
mpint_enc_stub.spec_getter = lambda: __import__('contracts.c15', fromlist=['enc_mpint']).enc_mpint


def crypto_sign_stub(cx):
    r = cx.fresh('bytes', 'raw_sig')
    return [Out(ret=r, event=('crypto_sign', tuple(cx.args) + (r,)))]


def der_decode_stub(cx):
    r, s_ = cx.fresh('int', 'r'), cx.fresh('int', 's')
    return [Out(ret=VTuple([r, s_]), event=('der_decode', (cx.args[0], r, s_)))]


crypto_sign_stub.modifies = ()
der_decode_stub.modifies = ()


def _mk_sign_ssh(module, cls, post, key_fields, fields=None, raises=None):
    return Spec(
        PROP, module, cls + '.sign_ssh', self_class=cls, params=dict(data='bytes', sig_algorithm='bytes'),
        classes={cls: dict({'_key': 'obj:CryptoKey'}, **(fields or {})), 'CryptoKey': key_fields},
        stubs={'CryptoKey.sign': crypto_sign_stub, 'der_decode': der_decode_stub, 'MPInt': mpint_enc_stub},
        ensures=[('blob==key-type-encoding-of-the-back-end-signature-over-(data,hash)', post)],
        raises=dict({'ValueError': True}, **(raises or {})), returns='bytes')


def _signed_once(c, extra_args):
    evs = c.events('crypto_sign')
    if len(evs) != 1:
        return None, z3.BoolVal(False)
    ev = evs[0][1]
    ok = [ev[0].z == c.arg('data')] + [f(ev) for f in extra_args]
    return ev, z3.And(ok)


def _rsa_sign_post(c):
    ev, ok = _signed_once(c, [lambda ev: _rsa_hash(c, ev[1])])
    return ok if ev is None else z3.And(ok, c.result == S_(ev[-1].z))


def _ed_sign_post(c):
    ev, ok = _signed_once(c, [])
    return ok if ev is None else z3.And(ok, c.result == S_(ev[-1].z))


def _ec_sign_post(c):
    ev, ok = _signed_once(c, [lambda ev: c.eq(ev[1], c.oldv('_hash_alg'))])
    dd, mp = c.events('der_decode'), c.events('mpint')
    if ev is None or len(dd) != 1 or len(mp) != 2:
        return z3.BoolVal(False)
    _in, r, s_ = dd[0][1]
    return z3.And(ok, _in.z == ev[-1].z, mp[0][1][0].z == r.z, mp[1][1][0].z == s_.z,       # r first, s second
                  c.result == S_(z3.Concat(S_(mp[0][1][1].z), S_(mp[1][1][1].z))))


def _dsa_sign_post(c):
    ev, ok = _signed_once(c, [lambda ev: ev[1].z == z3.StringVal('sha1')])
    dd = c.events('der_decode')
    if ev is None or len(dd) != 1:
        return z3.BoolVal(False)
    _in, r, s_ = dd[0][1]
    b20 = lambda v: be(z3.IntVal(20), v)
    return z3.And(ok, _in.z == ev[-1].z, c.result == S_(z3.Concat(b20(r.z), b20(s_.z))))


rsa_sign_ssh = _mk_sign_ssh('rsa', 'RSAKey', _rsa_sign_post, {'d': 'opt[int]'},
                            raises={'KeyError': lambda c: z3.Not(_rsa_known(c))})
ed_sign_ssh = _mk_sign_ssh('eddsa', '_EdKey', _ed_sign_post, {'private_value': 'opt[bytes]'})
ec_sign_ssh = _mk_sign_ssh('ecdsa', '_ECKey', _ec_sign_post, {'private_value': 'opt[bytes]'},
                           fields={'_hash_alg': 'str'})
dsa_sign_ssh = _mk_sign_ssh('dsa', '_DSAKey', _dsa_sign_post, {'x': 'opt[int]'},
                            raises={'OverflowError': True})       # r or s of 2**160 or more: not a DSA-1024 signature


# ------------------------------------------------------------------ key equality ("fails if ... the key differs in any way")
# `entry.key == key` decides who is an authorised signer, and certificate / known-key comparisons use it too.
# Public parameters per key type: RSA (e, n) RFC 4253 6.6; DSA (p, q, g, y); ECDSA (curve, Q) RFC 5656 3.1;
# EdDSA public value RFC 8709 4; security keys additionally the application string (PROTOCOL.u2f).
def _mk_key_eq(module, cls, key_fields, public, own_fields=None, own_public=()):
    """two Specs: against a key of the same class, and against an object of another class"""
    own_fields = own_fields or {}

    def fields(c, ref):
        k = c.oldv('_key', ref)
        return {**{n: c.oldv(n, k) for n in key_fields}, **{n: c.oldv(n, ref) for n in own_fields}}

    def post(c):
        a, b = fields(c, c.self_ref), fields(c, c.argv('other'))
        eqs = {n: c.eq(a[n], b[n]) for n in a}
        res = c.truthy(c.result_v)
        return z3.And(z3.BoolVal(isinstance(c.result_v, VBool)),
                      z3.Implies(res, z3.And([eqs[n] for n in tuple(public) + tuple(own_public)])),
                      z3.Implies(z3.And(list(eqs.values())), res))
    classes = {cls: dict({'_key': 'obj:CK'}, **own_fields), 'CK': key_fields, 'Foreign': {}}
    same = Spec(PROP, module, cls + '.__eq__', self_class=cls, params=dict(other='obj:' + cls), classes=classes,
                globals={'NotImplemented': VTag('NotImplemented')},
                ensures=[('equal-only-if-all-public-parameters-equal(and-if-all-parameters-equal)', post)])
    other = Spec(PROP, module, cls + '.__eq__', self_class=cls, params=dict(other='obj:Foreign'), classes=classes,
                 globals={'NotImplemented': VTag('NotImplemented')},
                 ensures=[('a-key-of-another-type-is-never-equal', lambda c: z3.BoolVal(
                     (isinstance(c.result_v, VTag) and c.result_v.tag == 'NotImplemented')
                     or (isinstance(c.result_v, VBool) and concrete_bool(c.result_v.z) is False)))])
    same.no_replay = other.no_replay = True      # __eq__ on bare instances: nothing scripted, nothing to compare
    return same, other


rsa_eq = _mk_key_eq('rsa', 'RSAKey', {'n': 'int', 'e': 'int', 'd': 'opt[int]'}, ('n', 'e'))
dsa_eq = _mk_key_eq('dsa', '_DSAKey', {'p': 'int', 'q': 'int', 'g': 'int', 'y': 'int', 'x': 'opt[int]'},
                    ('p', 'q', 'g', 'y'))
ec_eq = _mk_key_eq('ecdsa', '_ECKey', {'curve_id': 'bytes', 'x': 'int', 'y': 'int', 'd': 'opt[int]'},
                   ('curve_id', 'x', 'y'))
ed_eq = _mk_key_eq('eddsa', '_EdKey', {'public_value': 'bytes', 'private_value': 'opt[bytes]'}, ('public_value',))
_SK_OWN = {'_application': 'str', '_flags': 'int', '_key_handle': 'opt[bytes]', '_reserved': 'bytes'}
skec_eq = _mk_key_eq('sk_ecdsa', '_SKECDSAKey', {'curve_id': 'bytes', 'public_value': 'bytes'},
                     ('curve_id', 'public_value'), _SK_OWN, ('_application',))
sked_eq = _mk_key_eq('sk_eddsa', '_SKEd25519Key', {'public_value': 'bytes'}, ('public_value',), _SK_OWN,
                     ('_application',))


# ------------------------------------------------------------------ lemmas and data checks
KEY_MODULES = ('public_key', 'rsa', 'dsa', 'ecdsa', 'eddsa', 'sk_ecdsa', 'sk_eddsa')
# PROTOCOL.certkeys, "Critical options": all defined ones are for user certificates only
USER_CRITICAL = {b'force-command', b'source-address', b'verify-required'}


def _z3_lemma(name, hyps, goal):
    import time
    s = z3.Solver()
    s.set('timeout', 20000)
    s.add(*hyps)
    s.add(z3.Not(goal))
    t0 = time.time()
    r = s.check()
    verdict = 'proved' if r == z3.unsat else 'refuted' if r == z3.sat else 'unknown'
    return {'name': name, 'verdict': verdict, 'backend': 'z3',
            'solver_s': round(time.time() - t0, 3), 'reason': s.reason_unknown() if r == z3.unknown else '',
            'replayed': False}


def _be4_axioms(*xs):
    out = []
    for x in xs:
        t = be(z3.IntVal(4), z3.Length(x))
        out += [z3.Length(t) == 4, unbe(t) == z3.Length(x)]
    return out


def _algset_usage():
    """all_sig_algorithms is per key class: every write is a fresh `set(...)` stored in the class body of a key
    class or on `self` in its __init__, every other use is a membership test.  (Any in-place mutation - update, add,
    |=, ... - through an instance could reach the set shared via SSHKey.)  Also: every concrete key class gets a
    definition of its own (class level or __init__), none relies on the SSHKey default."""
    import ast
    from pyvc import extract
    bad, defined, classes = [], set(), {}
    for m in KEY_MODULES:
        mod = extract.get_module(m)
        parents = {}
        for node in ast.walk(mod.tree):
            for ch in ast.iter_child_nodes(node):
                parents[ch] = node
        for cname, cdef in mod.classes.items():
            classes[cname] = [b.id for b in cdef.bases if isinstance(b, ast.Name)]
        for node in ast.walk(mod.tree):
            is_attr = isinstance(node, ast.Attribute) and node.attr == 'all_sig_algorithms'
            is_name = isinstance(node, ast.Name) and node.id == 'all_sig_algorithms'
            if not (is_attr or is_name):
                continue
            par = parents.get(node)
            where = f'{m}.py:{node.lineno}'
            if isinstance(node.ctx, ast.Store):
                val = par.value if isinstance(par, (ast.Assign, ast.AnnAssign)) else None
                fresh = isinstance(val, ast.Call) and isinstance(val.func, ast.Name) and val.func.id == 'set'
                owner = par
                while owner is not None and not isinstance(owner, ast.ClassDef):
                    owner = parents.get(owner)
                if not fresh or owner is None:
                    bad.append(where + ': not an assignment of a fresh set(...) inside a key class')
                elif is_attr and not (isinstance(node.value, ast.Name) and node.value.id == 'self'):
                    bad.append(where + ': stored through something other than self')
                else:
                    defined.add(owner.name)
            elif isinstance(par, ast.Compare) and node in par.comparators and \
                    all(isinstance(o, (ast.In, ast.NotIn)) for o in par.ops):
                pass
            else:
                bad.append(where + ': used other than in a membership test')

    def has_def(c, seen=()):
        if c == 'SSHKey' or c in seen:
            return False
        return c in defined or any(has_def(b, seen + (c,)) for b in classes.get(c, []))

    def is_key(c, seen=()):
        return c == 'SSHKey' or (c not in seen and any(is_key(b, seen + (c,)) for b in classes.get(c, [])))
    subclassed = {b for bs in classes.values() for b in bs}
    for c in classes:
        if c != 'SSHKey' and is_key(c) and c not in subclassed and not has_def(c):
            bad.append(f'class {c} has no all_sig_algorithms of its own')
    return bad


def _critical_tables():
    """critical-option tables of every OpenSSH certificate class: user ones only name options PROTOCOL.certkeys
    defines for user certificates, host ones are empty (no critical option is defined for host certificates)"""
    import ast
    from pyvc import extract
    mod = extract.get_module('public_key')
    bad, seen = [], 0
    for cname, cdef in mod.classes.items():
        if not cname.startswith('SSHOpenSSHCertificate'):
            continue
        for st_ in cdef.body:
            tgt = st_.targets[0] if isinstance(st_, ast.Assign) else getattr(st_, 'target', None)
            if not isinstance(tgt, ast.Name) or tgt.id not in ('_user_option_decoders', '_host_option_decoders'):
                continue
            seen += 1
            if not isinstance(st_.value, ast.Dict) or not all(isinstance(k, ast.Constant) for k in st_.value.keys):
                bad.append(f'{cname}.{tgt.id}: not a literal table')
                continue
            keys = {k.value for k in st_.value.keys}
            allowed = USER_CRITICAL if tgt.id.startswith('_user') else set()
            if not keys <= allowed:
                bad.append(f'{cname}.{tgt.id} understands {sorted(keys - allowed)}')
    if seen < 3:
        bad.append('critical-option tables not found')
    return bad


def _rsa_tables():
    """every algorithm RSAKey accepts has a hash in rsa._hash_algs (else SSHKey.verify would raise KeyError instead of
    returning False), and the standard names select the hash their RFC prescribes"""
    import ast
    from pyvc import extract
    mod = extract.get_module('rsa')
    table = mod.lookup_const('_hash_algs')
    consts = {}
    for st_ in mod.classes['RSAKey'].body:
        if isinstance(st_, ast.Assign) and isinstance(st_.targets[0], ast.Name):
            try:
                consts[st_.targets[0].id] = ast.literal_eval(st_.value)
            except ValueError:
                pass
    algs = set(consts.get('sig_algorithms', ())) | set(consts.get('x509_sig_algorithms', ()))
    bad = [f'{a!r} accepted without a hash' for a in sorted(algs) if a not in table]
    if not algs:
        bad.append('RSAKey.sig_algorithms not found')
    bad += [f'{k!r} -> {table.get(k)!r}, RFC says {v!r}' for k, v in RSA_HASH.items() if table.get(k) != v]
    return bad


def _class_consts(module, cls):
    """class-level constants of a key class, evaluated from the source text (tuples / bytes / set(...) only)"""
    import ast
    from pyvc import extract
    mod = extract.get_module(module)
    env = {}
    for st_ in mod.classes[cls].body:
        tgt = st_.targets[0] if isinstance(st_, ast.Assign) else getattr(st_, 'target', None)
        if isinstance(tgt, ast.Name) and getattr(st_, 'value', None) is not None:
            try:
                env[tgt.id] = eval(compile(ast.Expression(st_.value), module, 'eval'),
                                   {'__builtins__': {'set': set, 'tuple': tuple}}, dict(env))
            except Exception:
                pass
    return env


# which signature algorithm names a key of each class answers to: RFC 4253 6.6 (ssh-rsa, ssh-dss), RFC 8332 3
# (rsa-sha2-*), RFC 6187 3.3 (rsa2048-sha256 / ssh-rsa under x509v3-), the ssh.com ssh-rsa-shaNNN@ssh.com names,
# RFC 8709 (ssh-ed25519, ssh-ed448), PROTOCOL.u2f (sk-ssh-ed25519@openssh.com).  ECDSA classes: per instance (__init__).
EXPECTED_ALGS = {
    ('rsa', 'RSAKey'): {b'ssh-rsa', b'rsa-sha2-256', b'rsa-sha2-512', b'rsa2048-sha256', b'ssh-rsa-sha224@ssh.com',
                        b'ssh-rsa-sha256@ssh.com', b'ssh-rsa-sha384@ssh.com', b'ssh-rsa-sha512@ssh.com'},
    ('dsa', '_DSAKey'): {b'ssh-dss'},
    ('eddsa', '_Ed25519Key'): {b'ssh-ed25519'},
    ('eddsa', '_Ed448Key'): {b'ssh-ed448'},
    ('sk_eddsa', '_SKEd25519Key'): {b'sk-ssh-ed25519@openssh.com'},
}
# every RSA name and the hash it stands for (same RSASSA-PKCS1-v1_5 primitive): names of one hash are ALIASES
RSA_HASH_ALL = {**RSA_HASH, b'ssh-rsa-sha224@ssh.com': 'sha224', b'ssh-rsa-sha256@ssh.com': 'sha256',
                b'ssh-rsa-sha384@ssh.com': 'sha384', b'ssh-rsa-sha512@ssh.com': 'sha512'}
# RFC 5656 6.2.1: hash by curve size (b <= 256: SHA-256, 256 < b <= 384: SHA-384, b > 384: SHA-512)
EC_HASH = {b'nistp256': 'sha256', b'nistp384': 'sha384', b'nistp521': 'sha512', b'1.3.132.0.10': 'sha256'}


def _algset_contents():
    """the accepted names of each key class are exactly the ones its RFC / PROTOCOL defines - a name of another key
    type in the set would let a relabelled signature verify (the EdDSA / DSA back ends ignore the name)"""
    bad = []
    for (m, cls), want in EXPECTED_ALGS.items():
        got = _class_consts(m, cls).get('all_sig_algorithms')
        if got != want:
            bad.append(f'{cls}.all_sig_algorithms = {sorted(got) if got is not None else None}, expected {sorted(want)}')
    return bad


def _rsa_alias_classes():
    """rsa._hash_algs gives every accepted RSA name the hash of its definition; relabelling can only succeed between
    names of the SAME hash (aliases)"""
    from pyvc import extract
    table = extract.get_module('rsa').lookup_const('_hash_algs')
    return [f'{k!r} -> {table.get(k)!r}, defined as {v!r}' for k, v in RSA_HASH_ALL.items() if table.get(k) != v]


def _ec_hash_table():
    from pyvc import extract
    table = extract.get_module('ecdsa').lookup_const('_hash_algs')
    return [f'{k!r} -> {table.get(k)!r}, RFC 5656 says {v!r}' for k, v in EC_HASH.items() if table.get(k) != v] + \
        [f'unexpected curve {k!r}' for k in table if k not in EC_HASH]


def _entry_handlers():
    """allowed_signers options: namespaces is a pattern list, valid-after / valid-before are times; nothing else"""
    import ast
    from pyvc import extract
    cdef = extract.get_module('sshsig').classes['SSHAllowedSignersEntry']
    want = {'namespaces': '_set_pattern', 'valid-after': '_set_time', 'valid-before': '_set_time'}
    for st_ in cdef.body:
        if isinstance(st_, ast.Assign) and isinstance(st_.targets[0], ast.Name) and st_.targets[0].id == '_handlers':
            got = {k.value: getattr(v, 'id', None) for k, v in zip(st_.value.keys, st_.value.values)}
            return [] if got == want else [f'_handlers = {got}, expected {want}']
    return ['_handlers not found']


def extra_checks(tier, seed):
    a, b, r, q, ns1, ns2, h1, h2, d1, d2 = [z3.Const(n, BytesS) for n in
                                            ('a', 'b', 'r', 'q', 'ns1', 'ns2', 'h1', 'h2', 'd1', 'd2')]
    e = z3.Empty(BytesS)
    blob = lambda ns, h, d: z3.Concat(bytes_const(b'SSHSIG'), S_(ns), S_(e), S_(h), S_(d))
    lemmas = [
        # verify(d, sign(d, a)): the blob String(a)||s parses in one way only, so verify hands the primitive exactly
        # (d, a, s); equally a relabelled algorithm name or a shifted boundary is a different (alg, rest) pair
        _z3_lemma('C16.lemma#String(a)||r-parses-uniquely', _be4_axioms(a, b),
                  z3.Implies(z3.Concat(S_(a), r) == z3.Concat(S_(b), q), z3.And(a == b, r == q))),
        # the SSHSIG signed blob is injective in (namespace, hash name, digest)
        _z3_lemma('C16.lemma#sshsig-blob-injective', _be4_axioms(ns1, ns2, h1, h2, d1, d2, e),
                  z3.Implies(blob(ns1, h1, d1) == blob(ns2, h2, d2), z3.And(ns1 == ns2, h1 == h2, d1 == d2))),
    ]
    for name, fn in (('C16.data#all_sig_algorithms-is-per-key-class-and-never-mutated-in-place', _algset_usage),
                     ('C16.data#critical-option-tables-match-PROTOCOL.certkeys', _critical_tables),
                     ('C16.data#rsa-algorithm-names-select-the-RFC-hash', _rsa_tables),
                     ('C16.data#accepted-algorithm-names-per-key-class-are-exactly-the-defined-ones', _algset_contents),
                     ('C16.data#rsa-names-of-one-hash-are-the-only-aliases', _rsa_alias_classes),
                     ('C16.data#ecdsa-hash-per-curve-RFC5656', _ec_hash_table),
                     ('C16.data#allowed-signers-option-handlers', _entry_handlers)):
        bad = fn()
        lemmas.append({'name': name, 'verdict': 'refuted' if bad else 'proved', 'detail': bad,
                       'backend': 'data (AST)', 'replayed': True})
    return {'lemmas': lemmas}


# ------------------------------------------------------------------ TRAILER (keep last)
for _s in Spec.registry:
    if _s.prop == PROP:
        _s.lazy_byte_ranges = True       # replay models: try without the explicit 0..255 instances first
