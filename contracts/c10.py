"""C10 — hostile input costs bounded work and fails cleanly.  Sidecar contracts.

Three kinds of obligation on code that consumes peer-controlled bytes:
 (1) termination variants for the loops on that path (every iteration consumes input or leaves the loop),
 (2) signals clauses: parsers raise only their documented error, the receive pump lets nothing escape,
 (3) domain obligations for numeric parameters chosen by the peer.
"""
import z3
from pyvc.contracts import *
from pyvc.engine import LoopSpec, Out, Prove
from pyvc.values import *
from .common import *
from pyvc.values import tag_id

PROP = 'C10'

ASSUMPTIONS = [
    '"time proportional to the input" is claimed as iteration counts (loop variants bounded by the number of '
    'unconsumed input bytes), not as wall-clock cost of bytes concatenation / slicing; memory is not bounded',
    'SSHPacket representation invariant 0 <= _idx <= _len == len(_packet) is established by __init__ and preserved '
    'by every method of the class (all 15 are under contract); no code outside packet.py writes these fields',
]

# ====================================================================== packet.py: the whole SSHPacket class
PK = {'SSHPacket': {'_packet': 'bytes', '_idx': 'int', '_len': 'int'}}


def pk_inv(c, new=True):
    f = c.new if new else c.old
    return z3.And(f('_idx') >= 0, f('_idx') <= f('_len'), f('_len') == z3.Length(f('_packet')))


def pk_frame(c):
    """the payload and its length are never modified by a reader"""
    return z3.And(c.new('_packet') == c.old('_packet'), c.new('_len') == c.old('_len'))


def pk_unchanged(c):
    return z3.And(pk_frame(c), c.new('_idx') == c.old('_idx'))


def pk_spec(name, params=None, stubs=None, requires=None, ensures=(), raises=None, returns=None, modifies=('_idx',),
            on_error=True):
    """every reader: invariant in -> invariant out (also when it raises), only PacketDecodeError escapes, and a
    failed read consumes nothing"""
    rq = (lambda c: z3.And(pk_inv(c, new=False), requires(c))) if requires else (lambda c: pk_inv(c, new=False))
    rs = {'PacketDecodeError': pk_unchanged} if raises is None else raises
    return Spec(PROP, 'packet', 'SSHPacket.' + name, self_class='SSHPacket', params=params or {}, classes=PK,
                truthy=PACKET_TRUTHY, stubs=stubs or {}, requires=rq,
                ensures=[('inv', pk_inv), ('frame', pk_frame)] + list(ensures),
                always=[('inv-always', pk_inv)], raises=rs, returns=returns, modifies=list(modifies))


pk_init = Spec(PROP, 'packet', 'SSHPacket.__init__', self_class='SSHPacket', params={'packet': 'bytes'}, classes=PK,
               ensures=[('establishes-inv', pk_inv),
                        ('starts-at-0', lambda c: z3.And(c.new('_idx') == 0, c.new('_packet') == c.arg('packet')))],
               raises={})

pk_bool = pk_spec('__bool__', returns='bool', modifies=(), raises={},
                  ensures=[('true-iff-unconsumed-bytes', lambda c: c.result == (c.old('_idx') < c.old('_len'))),
                           ('pure', pk_unchanged)])

pk_check_end = pk_spec('check_end', modifies=(),
                       ensures=[('only-at-end', lambda c: c.old('_idx') == c.old('_len')), ('pure', pk_unchanged)],
                       raises={'PacketDecodeError': lambda c: z3.And(pk_unchanged(c), c.old('_idx') < c.old('_len'))})

pk_consumed = pk_spec('get_consumed_payload', returns='bytes', modifies=(), raises={},
                      ensures=[('pure', pk_unchanged),
                               ('prefix', lambda c: c.result == z3.Extract(c.old('_packet'), 0, c.old('_idx')))])

pk_remaining = pk_spec('get_remaining_payload', returns='bytes', modifies=(), raises={},
                       ensures=[('pure', pk_unchanged),
                                ('suffix', lambda c: z3.Length(c.result) == c.old('_len') - c.old('_idx'))])

pk_full = pk_spec('get_full_payload', returns='bytes', modifies=(), raises={},
                  ensures=[('pure', pk_unchanged), ('whole', lambda c: c.result == c.old('_packet'))])


def consumed_exactly(n):
    return lambda c: c.new('_idx') == c.old('_idx') + (n(c) if callable(n) else n)


def short_read(n):
    """PacketDecodeError exactly when fewer than n bytes are left, and then nothing is consumed"""
    return lambda c: z3.And(pk_unchanged(c), c.old('_idx') + (n(c) if callable(n) else n) > c.old('_len'))


pk_get_bytes = pk_spec(
    'get_bytes', params={'size': 'int'}, returns='bytes',
    # sizes come from get_uint32() / constants: never negative (a negative size would move the cursor backwards)
    requires=lambda c: c.arg('size') >= 0,
    ensures=[('consumes-size', consumed_exactly(lambda c: c.arg('size'))),
             ('returns-size-bytes', lambda c: z3.Length(c.result) == c.arg('size')),
             ('returns-the-bytes-at-the-cursor',
              lambda c: c.result == z3.Extract(c.old('_packet'), c.old('_idx'), c.arg('size')))],
    raises={'PacketDecodeError': short_read(lambda c: c.arg('size'))})

GB = {'self.get_bytes': contract_stub(lambda: pk_get_bytes)}

pk_get_byte = pk_spec('get_byte', stubs=GB, returns='int',
                      ensures=[('consumes-1', consumed_exactly(1)),
                               ('is-a-byte', lambda c: z3.And(c.result >= 0, c.result <= 255))],
                      raises={'PacketDecodeError': short_read(1)})

pk_get_boolean = pk_spec('get_boolean', stubs={'self.get_byte': contract_stub(lambda: pk_get_byte)}, returns='bool',
                         ensures=[('consumes-1', consumed_exactly(1))],
                         raises={'PacketDecodeError': short_read(1)})


def uint_spec(name, width):
    return pk_spec(name, stubs=GB, returns='int',
                   ensures=[(f'consumes-{width}', consumed_exactly(width)),
                            (f'fits-{8 * width}-bits', lambda c: z3.And(c.result >= 0, c.result < 256 ** width))],
                   raises={'PacketDecodeError': short_read(width)})


pk_get_uint16 = uint_spec('get_uint16', 2)
pk_get_uint32 = uint_spec('get_uint32', 4)
pk_get_uint64 = uint_spec('get_uint64', 8)

pk_get_string = pk_spec(
    'get_string', stubs=dict(GB, **{'self.get_uint32': contract_stub(lambda: pk_get_uint32)}), returns='bytes',
    # whatever the 32-bit length field says (0 .. 2^32-1): at least the 4 length bytes are consumed, never more
    # than the packet holds
    ensures=[('consumes-4+len', lambda c: c.new('_idx') == c.old('_idx') + 4 + z3.Length(c.result)),
             ('progress>=4', lambda c: c.new('_idx') >= c.old('_idx') + 4)],
    # a truncated string may have consumed its length field (get_uint32 succeeded, get_bytes failed): the cursor
    # never moves backwards and stays inside the packet
    raises={'PacketDecodeError': lambda c: z3.And(pk_frame(c), c.new('_idx') >= c.old('_idx'),
                                                  c.new('_idx') <= c.old('_idx') + 4)})

GS = {'self.get_string': contract_stub(lambda: pk_get_string)}
STR_FAIL = {'PacketDecodeError': lambda c: z3.And(pk_frame(c), c.new('_idx') >= c.old('_idx'))}

pk_get_mpint = pk_spec('get_mpint', stubs=GS, returns='int',
                       ensures=[('progress>=4', lambda c: c.new('_idx') >= c.old('_idx') + 4)], raises=STR_FAIL)

pk_get_namelist = pk_spec('get_namelist', stubs=GS, returns='seq[bytes]',
                          ensures=[('progress>=4', lambda c: c.new('_idx') >= c.old('_idx') + 4)], raises=STR_FAIL)


# ====================================================================== connection.py: the receive pump
# _recv_data runs `while self._inpbuf and self._recv_handler()`.  _recv_handler holds one of four callables
# (writers: connection.py 923, 1594, 1626, 1719, 1758): _recv_version, _recv_pkthdr, _recv_packet, lambda: False.
# Termination measure: 2*len(_inpbuf) + rank(handler), rank(_recv_packet) = 1, else 0.  Every handler is proved to
# satisfy the handler contract H ("a true result strictly decreases the measure and never grows the buffer");
# _recv_data assumes exactly H for the indirect call.
T_VERSION, T_PKTHDR, T_PACKET = (tag_id('method:SSHConnection.' + n) for n in
                                 ('_recv_version', '_recv_pkthdr', '_recv_packet'))


def rank_z(v):
    if isinstance(v, VTag):
        return z3.IntVal(1 if tag_id(v.tag) == T_PACKET else 0)
    return z3.If(v.z == T_PACKET, z3.IntVal(1), z3.IntVal(0))


def measure(c, new):
    f, fv = (c.new, c.newv) if new else (c.old, c.oldv)
    return 2 * z3.Length(f('_inpbuf')) + rank_z(fv('_recv_handler'))


def H(c):
    r = c.result_v
    is_true = c.truthy(r) if r is not None else z3.BoolVal(False)
    return z3.Implies(is_true, z3.And(measure(c, True) < measure(c, False),
                                      z3.Length(c.new('_inpbuf')) <= z3.Length(c.old('_inpbuf'))))


def pump_inv(c, new=True):
    """class invariant K of the receive pump = what the three handlers require of the state they run in
    (block size from the cipher table, >= 8; while _recv_packet is armed the header block and a uint32 length are held)"""
    f, fv = (c.new, c.newv) if new else (c.old, c.oldv)
    return pump_inv_z(fv('_recv_handler'), f('_recv_blocksize'), f('_recv_macsize'), f('_recv_seq'), f('_packet'),
                      f('_pktlen'), f('_banner_lines'))


def is_handler(hv, tid):
    return z3.BoolVal(tag_id(hv.tag) == tid) if isinstance(hv, VTag) else hv.z == tid


def pump_inv_z(hv, bs, mac, seq, pkt, pktlen, banner):
    return z3.And(bs >= 8, mac >= 0, seq >= 0, seq < 2 ** 32, banner >= 0,
                  z3.Implies(is_handler(hv, T_PACKET), z3.And(z3.Length(pkt) == bs, pktlen >= 0, pktlen < 2 ** 32)))


def running(tid):
    """the handler under contract is the one installed in _recv_handler (it is only ever called through it)"""
    return lambda c: c.eq(c.oldv('_recv_handler'), VTag('method:SSHConnection.' + tid))


RCONN = dict(CONN_FIELDS, _banner_lines='int', _client_version='bytes', _server_version='bytes',
             _loop='obj:Loop', _transport='opt[obj:Transport]')
RCLASSES = dict(CONN_CLASSES, SSHConnection=RCONN, Loop={}, Transport={})

force_close = Spec(
    PROP, 'connection', 'SSHConnection._force_close', self_class='SSHConnection', params={'exc': 'any'},
    classes=RCLASSES,
    # loop.call_soon only queues a callback (asyncio contract): it does not run it and does not raise
    stubs={'self._loop.call_soon': noop('call_soon')},
    modifies=['_transport'],
    ensures=[('closed-afterwards', lambda c: c.is_none(c.newv('_transport'))),
             ('owner-told-exactly-once-per-open-connection',
              lambda c: z3.If(c.is_none(c.oldv('_transport')), z3.BoolVal(len(c.events('call_soon')) == 0),
                              z3.BoolVal(len(c.events('call_soon')) == 2)))],
    raises={})


def force_close_stub(cx):
    """_force_close through its verified contract; the call is logged as a ghost event"""
    outs = contract_stub(lambda: force_close)(cx)
    for o in outs:
        o.event = ('force_close', tuple(cx.args))
    return outs


force_close_stub.modifies = ('_transport',)
force_close_stub.spec_getter = lambda: force_close

KEXINIT_FIELDS = ('_kex_complete', '_rekey_bytes_sent', '_rekey_time', '_send_seq')


def send_kexinit_stub(cx):
    """assumed contract of _send_kexinit (C02/C11): starts an exchange, emits KEXINIT; does not touch the input
    buffer or the receive handler"""
    seq = cx.fresh('int', 'kexinit_seq')
    t = cx.fresh('int', 'kexinit_time')
    return [Out(sets={'_kex_complete': VBool(False), '_rekey_bytes_sent': VInt(0), '_rekey_time': t,
                      '_send_seq': seq}, assume=[seq.z >= 0, seq.z < 2 ** 32], event=('send_kexinit', ()))]


send_kexinit_stub.modifies = KEXINIT_FIELDS

MAX_BANNER_LINES, MAX_BANNER_LINE_LEN, MAX_VERSION_LINE_LEN = 1024, 8192, 255     # the limits the property names


def closed(c):
    return z3.BoolVal(len(c.events('force_close')) >= 1)


def consumed(c):
    return z3.Length(c.old('_inpbuf')) - z3.Length(c.new('_inpbuf'))


recv_version = Spec(
    PROP, 'connection', 'SSHConnection._recv_version', self_class='SSHConnection', classes=RCLASSES,
    stubs=dict(ROLE_STUBS, **{'self._force_close': force_close_stub, 'self._send_kexinit': send_kexinit_stub,
                              'self.set_extra_info': noop()}),
    # (the state "limit exceeded, closed, more data arrives before _cleanup runs" is included: no upper bound here)
    requires=lambda c: z3.And(running('_recv_version')(c), pump_inv(c, new=False)),
    returns='bool',
    ensures=[
        ('handler-progress', H),
        # (3) limits: a line is looked for in the first 8192 bytes only, a true result consumed exactly one line
        ('consumes-one-bounded-line',
         lambda c: z3.Implies(c.result, z3.And(consumed(c) >= 1, consumed(c) <= MAX_BANNER_LINE_LEN))),
        ('waits-only-while-below-the-limit',
         lambda c: z3.Implies(z3.And(z3.Not(c.result), z3.Not(closed(c))),
                              z3.And(c.new('_inpbuf') == c.old('_inpbuf'),
                                     z3.Length(c.old('_inpbuf')) < MAX_BANNER_LINE_LEN))),
        ('pump-invariant', pump_inv),
        ('banner-lines-bounded',
         lambda c: z3.And(c.new('_banner_lines') >= c.old('_banner_lines'),
                          z3.Or(c.new('_banner_lines') <= MAX_BANNER_LINES, closed(c),
                                c.new('_banner_lines') == c.old('_banner_lines')))),
        # (3) EVERY line consumed before the version line counts against the limit - empty ones included: a
        # consumed line that is not accepted as the version either adds exactly one to _banner_lines or ends in
        # a close that stops the pump.  With the clause below: at most 1024 lines (<= 8192 bytes each) are ever
        # skipped before the connection is closed
        ('every-line-before-the-version-counts',
         lambda c: z3.Implies(z3.And(consumed(c) >= 1, z3.BoolVal(len(c.events('send_kexinit')) == 0)),
                              z3.Or(c.new('_banner_lines') == c.old('_banner_lines') + 1,
                                    z3.And(closed(c), z3.Not(c.result))))),
        ('too-many-banner-lines-stop-the-pump',
         lambda c: z3.Implies(z3.And(c.new('_banner_lines') > MAX_BANNER_LINES,
                                     c.new('_banner_lines') > c.old('_banner_lines')),
                              z3.And(closed(c), z3.Not(c.result)))),
        ('accepted-version-within-255-or-closed',
         lambda c: z3.BoolVal(True) if len(c.events('send_kexinit')) == 0 else
         z3.Or(closed(c), z3.If(c.old('_is_client'), z3.Length(c.new('_server_version')),
                                z3.Length(c.new('_client_version'))) <= MAX_VERSION_LINE_LEN)),
    ],
    # a version line that is not ASCII: .decode('ascii') fails; _recv_data turns it into a connection close
    raises={'UnicodeDecodeError': True})
recv_version.feasible_timeout_ms = 250      # pruning only: long-sequence models (255 / 8192 bytes) just time out


def decrypt_header_stub(cx):
    """assumed contract of Encryption.decrypt_header(seq, first_block, 4): (block of the same size, 4 header bytes)"""
    blk, hdr = cx.fresh('bytes', 'dec_block'), cx.fresh('bytes', 'dec_hdr')
    return [Out(ret=VTuple([blk, hdr]),
                assume=[z3.Length(blk.z) == z3.Length(cx.args[1].z), z3.Length(hdr.z) == 4])]


decrypt_header_stub.modifies = ()

recv_pkthdr = Spec(
    PROP, 'connection', 'SSHConnection._recv_pkthdr', self_class='SSHConnection', classes=RCLASSES,
    stubs={'self._recv_encryption.decrypt_header': decrypt_header_stub},
    # block sizes come from the cipher table: max(8, cipher block size) (send_newkeys / _recv_newkeys)
    requires=lambda c: z3.And(running('_recv_pkthdr')(c), pump_inv(c, new=False)),
    returns='bool',
    ensures=[('handler-progress', H), ('pump-invariant', pump_inv),
             ('next-is-recv-packet', lambda c: z3.Implies(c.result, c.eq(c.newv('_recv_handler'),
                                                                        VTag('method:SSHConnection._recv_packet')))),
             # (3) the peer-chosen packet length is any uint32: nothing else is derived from it here
             ('pktlen-is-uint32', lambda c: z3.Implies(c.result, z3.And(c.new('_pktlen') >= 0,
                                                                       c.new('_pktlen') < 2 ** 32))),
             ('header-block-kept', lambda c: z3.Implies(c.result, z3.Length(c.new('_packet')) ==
                                                        c.old('_recv_blocksize'))),
             ('waits-without-consuming', lambda c: z3.Implies(z3.Not(c.result), z3.And(
                 c.new('_inpbuf') == c.old('_inpbuf'), c.newv('_recv_handler') is c.oldv('_recv_handler'))))],
    raises={})


def process_packet_stub(cx):
    """message handlers (kex / auth / channel / connection): (2) they raise only DisconnectError subclasses or
    PacketDecodeError (proved per handler below for the ones under contract, assumed for the others); they never
    touch the input buffer or the receive handler (grep: only the writers listed above)"""
    r = cx.fresh('any', 'handler_result')
    ev = ('process_packet', (cx.recv,) + tuple(cx.args))

    def tr():       # a handler may close the connection (_process_disconnect -> _force_close): _transport is havocked
        return {'_transport': cx.fresh('opt[obj:Transport]', 'transport_after_handler')}
    # handlers that are not under contract may raise anything: _recv_packet lets it through to _recv_data, whose
    # `except Exception` closes the connection (the `always` clauses of _recv_packet are checked on that path too)
    return [Out(ret=r, sets=tr(), event=ev), Out(exc=VExc('PacketDecodeError'), sets=tr(), event=ev),
            Out(exc=VExc('DisconnectError'), sets=tr(), event=ev), Out(exc=VExc('Exception'), sets=tr(), event=ev)]


process_packet_stub.modifies = ('_transport',)

def is_async(c):
    """keyword parameter with default False (call sites inside _recv_packet do not pass it)"""
    if 'is_async' in c.args or 'is_async' in c.old_state.env:
        return c.arg('is_async')
    return z3.BoolVal(False)


recv_data_ref = []      # filled below (mutual recursion _finish_recv_packet <-> _recv_data through contracts)

finish_recv_packet = Spec(
    PROP, 'connection', 'SSHConnection._finish_recv_packet', self_class='SSHConnection',
    params=dict(pkttype='int', seq='int', _task='none', is_async='bool'), classes=RCLASSES,
    stubs={'self._recv_data': contract_stub(lambda: recv_data_ref[0]),
           'self._send_disconnect': lambda cx: named(contract_stub(lambda: send_disconnect), 'send_disconnect')(cx),
           'self._force_close': force_close_stub},
    # misc.ProtocolError.__init__(reason, lang=DEFAULT_LANG) -> DisconnectError(DISC_PROTOCOL_ERROR = 2, reason, lang)
    exc_attrs={'ProtocolError': lambda args, kw: {'code': VInt(2), 'reason': args[0], 'lang': VStr('en-US')}},
    # (includes everything the re-entered pump _recv_data may write on the asynchronous call)
    modifies=['_auth_final', '_recv_seq', '_recv_handler', '_inpbuf', '_transport', '_send_seq', '_recv_blocksize',
              '_recv_macsize', '_packet', '_pktlen', '_banner_lines', '_keepalive_timer'],
    ensures=[('handler-rearmed-or-pump-ran', lambda c: z3.Or(
        is_async(c), c.eq(c.newv('_recv_handler'), VTag('method:SSHConnection._recv_pkthdr')))),
             # fix c66417b: as a task done-callback the rollover error cannot be raised to anybody, so the
             # connection must be torn down here (it used to be left open with the error lost in the loop's handler)
             ('async-rollover-closes-the-connection', lambda c: z3.Implies(
                 z3.And(is_async(c), z3.Not(c.is_none(c.oldv('_transport'))), c.old('_recv_seq') == 0xffffffff,
                        c.is_none(c.oldv('_recv_encryption'))),
                 z3.And(c.is_none(c.newv('_transport')), z3.BoolVal(
                     c.ex.spec is not finish_recv_packet or len(c.events('force_close')) == 1)))),
    ],
    requires=lambda c: z3.And(c.arg('seq') >= 0, c.arg('seq') < 2 ** 32, c.old('_recv_seq') >= 0,
                              c.old('_recv_seq') < 2 ** 32, c.old('_recv_blocksize') >= 8,
                              c.old('_recv_macsize') >= 0, c.old('_banner_lines') >= 0),
    always=[('buffer-untouched-when-synchronous', lambda c: z3.Or(is_async(c),
                                                                  c.new('_inpbuf') == c.old('_inpbuf'))),
            # (only the re-entered pump of the asynchronous call may touch the pump's own fields)
            ('pump-fields-untouched-when-synchronous', lambda c: z3.Or(is_async(c), z3.And(
                [c.eq(c.newv(f), c.oldv(f)) for f in ('_recv_blocksize', '_recv_macsize', '_packet', '_pktlen',
                                                      '_banner_lines')]))),
            ('seq-stays-uint32', lambda c: z3.Or(is_async(c), z3.And(c.new('_recv_seq') >= 0,
                                                                     c.new('_recv_seq') < 2 ** 32)))],
    # called synchronously from _recv_packet the rollover error is funnelled by _recv_data; as a task done-callback
    # (is_async=True, functools.partial in _recv_packet) NOTHING catches it: it would reach the loop's exception
    # handler with the connection left open - so it may only be raised on the synchronous call
    raises={'ProtocolError': lambda c: z3.And(z3.Not(is_async(c)), c.old('_recv_seq') == 0xffffffff,
                                              c.is_none(c.oldv('_recv_encryption')))})

recv_packet = Spec(
    PROP, 'connection', 'SSHConnection._recv_packet', self_class='SSHConnection',
    classes=dict(RCLASSES, **PACKET_CLASSES), inline=dict(PACKET_INLINE), truthy=PACKET_TRUTHY,
    stubs={
        'self._recv_encryption.decrypt_packet': ret('opt[bytes]', 'decrypted'),
        'self._decompressor.decompress': ret('opt[bytes]', 'decompressed'),
        '*.log_received_packet': noop(),
        '*.process_packet': process_packet_stub,
        'self.create_task': ret('obj:Task', 'task'),
        'task.add_done_callback': noop(),
        'functools.partial': lambda cx: VTag('partial'),
        'self.send_packet': noop('send_packet'),
        'self._finish_recv_packet': contract_stub(lambda: finish_recv_packet),
    },
    # (3) _pktlen is ANY uint32 the peer chose (0, 1, 2^32-1 included); mac / block sizes from the cipher table
    requires=lambda c: z3.And(running('_recv_packet')(c), pump_inv(c, new=False)),
    returns='bool',
    ensures=[('handler-progress', H), ('pump-invariant', pump_inv),
             ('one-reply-at-most', lambda c: z3.BoolVal(len(c.calls('send_packet')) <= 1))],
    always=[('buffer-never-grows', lambda c: z3.Length(c.new('_inpbuf')) <= z3.Length(c.old('_inpbuf'))),
            ('one-handler-at-most', lambda c: z3.BoolVal(len(c.events('process_packet')) <= 1))],
    raises={'DisconnectError': True, 'PacketDecodeError': True,
            # only from a message handler that is not under contract (never raised by _recv_packet itself)
            'Exception': lambda c: z3.BoolVal(len(c.events('process_packet')) == 1)})
recv_packet.no_replay = True
recv_packet.feasible_timeout_ms = 300


# ---- _recv_data: lets nothing escape; the pump loop terminates (variant = the measure H decreases)
def recv_handler_stub(cx):
    """the indirect call self._recv_handler(): exactly the handler contract H proved for _recv_version,
    _recv_pkthdr, _recv_packet ('lambda: False' satisfies it trivially); handlers may raise any Exception"""
    st = cx.st
    g = cx.selff
    cx.require('handler-preconditions(pump-invariant)',
               pump_inv_z(g('_recv_handler'), g('_recv_blocksize').z, g('_recv_macsize').z, g('_recv_seq').z,
                          g('_packet').z, g('_pktlen').z, g('_banner_lines').z))
    r = cx.fresh('bool', 'handler_result')
    buf = cx.fresh('bytes', 'inpbuf_after')
    h = cx.fresh('tag', 'handler_after')
    tr = cx.fresh('opt[obj:Transport]', 'transport_after')
    kf = {f: cx.fresh(t, f + '_after') for f, t in (('_recv_blocksize', 'int'), ('_recv_macsize', 'int'),
                                                     ('_recv_seq', 'int'), ('_packet', 'bytes'), ('_pktlen', 'int'),
                                                     ('_banner_lines', 'int'))}
    k_after = pump_inv_z(h, kf['_recv_blocksize'].z, kf['_recv_macsize'].z, kf['_recv_seq'].z, kf['_packet'].z,
                         kf['_pktlen'].z, kf['_banner_lines'].z)
    old_buf, old_h = cx.selff('_inpbuf'), cx.selff('_recv_handler')
    prog = z3.Implies(r.z, z3.And(
        2 * z3.Length(buf.z) + rank_z(h) < 2 * z3.Length(old_buf.z) + rank_z(old_h),
        z3.Length(buf.z) <= z3.Length(old_buf.z)))
    sets = dict({'_inpbuf': buf, '_recv_handler': h, '_transport': tr}, **kf)
    # K after a normal return (proved as `pump-invariant` on each handler); after an exception the loop is left
    return [Out(ret=r, sets=sets, assume=[prog, k_after], event=('handler', ())),
            Out(exc=VExc('DisconnectError'), sets=dict(sets), event=('handler', ())),
            Out(exc=VExc('Exception'), sets=dict(sets), event=('handler', ()))]


recv_handler_stub.modifies = ('_inpbuf', '_recv_handler', '_transport', '_recv_blocksize', '_recv_macsize',
                              '_recv_seq', '_packet', '_pktlen', '_banner_lines')


def disconnect_exc(cx, label):
    """a DisconnectError instance as misc.DisconnectError.__init__ builds it: code is one of the DISC_* constants
    (all call sites pass constants 1..15), reason / lang are str"""
    code = cx.fresh('int', label + '_code')
    return VExc('DisconnectError', attrs={'code': code, 'reason': cx.fresh('str', label + '_reason'),
                                          'lang': cx.fresh('str', label + '_lang')}), \
        z3.And(code.z >= 1, code.z <= 15)


def send_packet_signals_stub(cx):
    """send_packet as far as _recv_data depends on it = the signals clause verified under C11
    (ProtocolError exactly on 'sequence rollover before kex complete', after which _send_seq == 0); CompressionError
    is excluded by the zlib contract (compressobj.compress/flush do not fail on bytes input)"""
    seq = cx.selff('_send_seq')
    nseq = cx.fresh('int', 'send_seq_after')
    noenc = cx.selff('_send_encryption').isnone
    ev = ('send_packet', tuple(cx.args))
    return [Out(sets={'_send_seq': nseq}, assume=[nseq.z >= 0, nseq.z < 2 ** 32], event=ev),
            Out(exc=VExc('ProtocolError'), sets={'_send_seq': VInt(0)},
                assume=[noenc, seq.z == 0xffffffff], event=ev)]


send_packet_signals_stub.modifies = ('_send_seq',)

send_disconnect = Spec(
    PROP, 'connection', 'SSHConnection._send_disconnect', self_class='SSHConnection',
    params=dict(code='int', reason='str', lang='str'), classes=RCLASSES,
    stubs={'self.send_packet': send_packet_signals_stub},
    requires=lambda c: z3.And(c.arg('code') >= 0, c.arg('code') < 2 ** 32),
    modifies=['_send_seq'],
    # (event counts are facts about the callee's own run: checked here, vacuous when used as a callee contract)
    ensures=[('one-disconnect-packet', lambda c: z3.BoolVal(c.ex.spec is not send_disconnect or
                                                            len(c.events('send_packet')) == 1))],
    # called from inside the `except DisconnectError` clauses of _recv_data / _reap_task: nothing may escape, not
    # even send_packet's own 'sequence rollover' ProtocolError (finding fixed by 0222390)
    raises={})

ICONN = dict(RCONN, logger='obj:Logger')
internal_error = Spec(
    PROP, 'connection', 'SSHConnection.internal_error', self_class='SSHConnection',
    params=dict(exc_info='none', error_logger='opt[obj:Logger]'),
    classes=dict(RCLASSES, SSHConnection=ICONN, Logger={}),
    stubs={'sys.exc_info': lambda cx: VTuple([cx.fresh('any', 'exc_type'), cx.fresh('any', 'exc_value'),
                                              cx.fresh('any', 'exc_tb')]),
           'error_logger.debug1': noop(), 'self._force_close': force_close_stub},
    modifies=['_transport'],
    ensures=[('closes-the-connection', lambda c: z3.And(closed(c) if c.ex.spec is internal_error else True,
                                                        c.is_none(c.newv('_transport'))))],
    raises={})


def recv_handler_stub2(cx):
    outs = recv_handler_stub(cx)
    exc, rng = disconnect_exc(cx, 'disc')
    outs[1].exc = exc
    outs[1].assume.append(rng)
    return outs


recv_handler_stub2.modifies = recv_handler_stub.modifies


def named(stub, name):
    def f(cx):
        outs = stub(cx)
        for o in outs:
            o.event = (name, tuple(cx.args))
        return outs
    f.modifies = tuple(getattr(stub, 'modifies', ()))
    if hasattr(stub, 'spec_getter'):
        f.spec_getter = stub.spec_getter
    return f


# called OUTSIDE the try block of _recv_data: must itself raise nothing.  Its two helpers are executed from source;
# asyncio contracts: TimerHandle.cancel() and loop.call_later(delay >= 0 or any float, cb) do not raise
KCONN = dict(ICONN, _keepalive_timer='opt[obj:TimerHandle]', _keepalive_interval='int')
reset_keepalive_timer = Spec(
    PROP, 'connection', 'SSHConnection._reset_keepalive_timer', self_class='SSHConnection',
    classes=dict(RCLASSES, SSHConnection=KCONN, Logger={}, TimerHandle={}),
    inline={'self._cancel_keepalive_timer': ('connection', 'SSHConnection._cancel_keepalive_timer'),
            'self._set_keepalive_timer': ('connection', 'SSHConnection._set_keepalive_timer')},
    stubs={'self._keepalive_timer.cancel': noop('cancel'),
           'self._loop.call_later': ret('obj:TimerHandle', 'handle', event='call_later')},
    modifies=['_keepalive_timer'],
    raises={})

recv_data = Spec(
    PROP, 'connection', 'SSHConnection._recv_data', self_class='SSHConnection',
    classes=dict(RCLASSES, SSHConnection=KCONN, Logger={}, TimerHandle={}),
    stubs={'self._reset_keepalive_timer': contract_stub(lambda: reset_keepalive_timer),
           'self._recv_handler': recv_handler_stub2,
           'self._send_disconnect': named(contract_stub(lambda: send_disconnect), 'send_disconnect'),
           'self._force_close': force_close_stub,
           'self.internal_error': named(contract_stub(lambda: internal_error), 'internal_error')},
    loops={1: LoopSpec(header='self._inpbuf and self._recv_handler()',
                       modifies=['_inpbuf', '_recv_handler', '_transport'],
                       invariant=lambda c: pump_inv(c),
                       # (1) every true-returning handler step strictly decreases 2*len(_inpbuf)+rank(handler):
                       # at most 2*len(_inpbuf)+1 iterations per chunk
                       variant=lambda c: measure(c, True))},
    modifies=['_inpbuf', '_recv_handler', '_transport', '_send_seq', '_recv_blocksize', '_recv_macsize',
              '_recv_seq', '_packet', '_pktlen', '_banner_lines', '_keepalive_timer'],
    requires=lambda c: pump_inv(c, new=False),
    ensures=[('normal-exit-without-error-leaves-connection-alone', lambda c: z3.BoolVal(True))],
    always=[('error-means-closed',
             lambda c: z3.BoolVal(True) if not (c.events('send_disconnect') or c.events('internal_error'))
             else z3.And(closed(c) if c.events('send_disconnect') else z3.BoolVal(True),
                         c.is_none(c.newv('_transport'))))],
    # (2) NOTHING escapes to the event loop
    raises={})
recv_data_ref.append(recv_data)


# ====================================================================== asn1.py: DER decoding
# (2) der_decode / der_decode_partial and every registered DERType.decode raise ASN1DecodeError only; (1) the
# tag loop, the SEQUENCE / SET loops and the recursion all descend on the number of unconsumed bytes.
# Dynamic dispatch `_der_class_by_tag[tag].decode(...)` is handled like the receive handlers: contract D below is
# proved for each of the ten registered classes and assumed for the indirect call.
DER_TAGS = {1: '_Boolean', 2: '_Integer', 3: 'BitString', 4: '_OctetString', 5: '_Null', 6: 'ObjectIdentifier',
            12: '_UTF8String', 16: '_Sequence', 17: '_Set', 22: 'IA5String'}       # @DERTag(...) decorators
ASN1_RAISES = {'ASN1DecodeError': True}
DPARAMS = dict(cls='any', constructed='bool', content='bytes')


def der_class_map():
    """module global filled by the @DERTag decorators at import time: tag -> class, domain = DER_TAGS"""
    dom = z3.Const('der_class_by_tag$dom', z3.ArraySort(IntS, BoolS))
    val = z3.Const('der_class_by_tag$val', z3.ArraySort(IntS, sort_of('tag')))
    return VMap(dom, val, 'int', 'tag')


def decoder_spec(cls, **kw):
    kw.setdefault('raises', dict(ASN1_RAISES))
    kw.setdefault('params', dict(DPARAMS))
    return Spec(PROP, 'asn1', cls + '.decode', **kw)


der_null = decoder_spec('_Null', ensures=[('empty-primitive-only', lambda c: z3.And(
    z3.Not(c.arg('constructed')), z3.Length(c.arg('content')) == 0))])
der_boolean = decoder_spec('_Boolean', returns='bool',
                           ensures=[('one-byte-primitive', lambda c: z3.And(z3.Not(c.arg('constructed')),
                                                                            z3.Length(c.arg('content')) == 1))])
der_integer = decoder_spec('_Integer', returns='int')
der_octets = decoder_spec('_OctetString', returns='bytes',
                          ensures=[('content-as-is', lambda c: c.result == c.arg('content'))])
# known finding: invalid UTF-8 raises UnicodeDecodeError (der_decode(b'\x0c\x01\xff'))
der_utf8 = decoder_spec('_UTF8String', returns='str')
der_ia5 = decoder_spec('IA5String', stubs={'cls': ret('any', 'ia5')})

partial_ref = []


def partial_stub(cx):
    return contract_stub(lambda: partial_ref[0])(cx)


partial_stub.modifies = ()
partial_stub.spec_getter = lambda: partial_ref[0]


def seq_loop(extra_inv=None):
    return LoopSpec(header='offset < length',
                    invariant=lambda c: z3.And(c.local('offset') >= 0, c.local('length') == z3.Length(c.arg('content'))),
                    # every element consumes at least its 2 header bytes and never more than what is left
                    variant=lambda c: c.local('length') - c.local('offset'))


der_sequence = decoder_spec('_Sequence', stubs={'der_decode_partial': partial_stub, 'tuple': ret('any', 'tup')},
                            loops={1: seq_loop()}, local_types={'value': 'seq[any]'})
der_set = decoder_spec('_Set', stubs={'der_decode_partial': partial_stub, 'set': ret('obj:PySet', 'pyset'),
                                      'value.add': noop(), 'frozenset': ret('any', 'fset')},
                       classes={'PySet': {}}, loops={1: seq_loop()}, local_types={'value': 'obj:PySet'})

# BitString(value: bytes, unused) as called by decode: 0 <= unused <= 7 (a byte that passed `content[0] > 7`)
def dirty_bits(v, u):
    """unused > 0 and (empty value or one of the `unused` low bits of the last byte set): the constructor refuses"""
    n = z3.Length(v)
    return z3.Or([z3.And(u == k, z3.Or(n == 0, v[n - 1] % (2 ** k) != 0)) for k in range(1, 8)])


bitstring_init = Spec(
    PROP, 'asn1', 'BitString.__init__', self_class='BitString', params=dict(value='bytes', unused='int', named='bool'),
    classes={'BitString': {}},
    requires=lambda c: z3.Not(c.arg('named')),
    cases=[(f'unused={k}', {'arg:unused': k}) for k in range(8)],
    ensures=[('accepted-iff-clean', lambda c: z3.Not(dirty_bits(c.arg('value'), c.arg('unused'))))],
    # documented error of the CONSTRUCTOR (an encoding-side check) - it is not a decode error
    raises={'ASN1EncodeError': lambda c: dirty_bits(c.arg('value'), c.arg('unused'))})


def bitstring_ctor_stub(cx):
    """cls(content[1:], unused=content[0]) through the constructor contract above (same predicate)"""
    u = cx.kwargs['unused']
    cx.require('unused-in-0..7', z3.And(u.z >= 0, u.z <= 7))
    v = cx.args[0]
    return [Out(ret=cx.fresh('any', 'bitstring'), assume=[z3.Not(dirty_bits(v.z, u.z))]),
            Out(exc=VExc('ASN1EncodeError'), assume=[dirty_bits(v.z, u.z)])]


bitstring_ctor_stub.modifies = ()
bitstring_ctor_stub.spec_getter = lambda: bitstring_init

# known finding: unused bits with empty / non-zero-padded value -> ASN1EncodeError (der_decode(b'\x03\x01\x01'))
der_bitstring = decoder_spec('BitString', stubs={'cls': bitstring_ctor_stub})

huge_component = z3.Function('has_component_over_4300_digits', z3.SeqSort(IntS), BoolS)


def local_len(c, name):
    v = c.ex.deref(c.new_state, c.localv(name))
    return z3.IntVal(len(v.items)) if isinstance(v, VList) else z3.Length(v.z)


def bitor_nat(c, *names):
    """int.__or__ on natural numbers (the engine's `bitor` is otherwise uninterpreted): x | y >= x, >= y for
    x, y >= 0 - instantiated at every `bitor` application inside the named locals (quantifier free)"""
    out, seen, stack = [], set(), [c.local(n) for n in names if c.has_local(n) and hasattr(c.localv(n), 'z')]
    while stack:
        t = stack.pop()
        if t.get_id() in seen:
            continue
        seen.add(t.get_id())
        if z3.is_app(t):
            if t.decl().name() == 'bitor' and t.num_args() == 2:
                x, y = t.arg(0), t.arg(1)
                out.append(z3.Implies(z3.And(x >= 0, y >= 0), z3.And(t >= x, t >= y)))
            stack.extend(t.children())
    return out


def join_components_stub(cx):
    """'.'.join(str(c) for c in components): CPython >= 3.11 refuses int -> str conversion beyond 4300 digits
    (sys.int_max_str_digits) with ValueError"""
    gen = cx.args[0]
    comps = cx.st.env['components']
    comps = cx.ex.deref(cx.st, comps)
    z = comps.z if isinstance(comps, VSeq) else to_z3(comps, parse_type('seq[int]'))
    return [Out(ret=cx.fresh('str', 'dotted'), assume=[z3.Not(huge_component(z))]),
            Out(exc=VExc('ValueError'), assume=[huge_component(z)])]


join_components_stub.modifies = ()

# known finding: a component of more than 4300 decimal digits (about 2.1 KB of 0xff) -> ValueError from str()
der_oid = decoder_spec(
    'ObjectIdentifier',
    stubs={'divmod': lambda cx: VTuple([cx.fresh('int', 'div'), cx.fresh('int', 'mod')]),
           "'.'.join": join_components_stub, 'cls': ret('any', 'oid')},
    # no complete sub-identifier yet => a partial one is pending (so components[0] exists after the loop, or the
    # 'Incomplete component' check fires)
    loops={1: LoopSpec(header='for b in content',
                       invariant=lambda c: z3.And(
                           c.local('component') >= 0,
                           z3.Implies(z3.And(local_len(c, 'components') == 0, c.extra['i'] > 0),
                                      c.local('component') > 0)),
                       lemmas=lambda c: bitor_nat(c, 'component'))},
    local_types={'components': 'seq[int]'})


def descends(cx, content):
    """(1) the recursion der_decode_partial -> decode -> der_decode_partial is well founded: the nested content is
    strictly shorter than the data being decoded (depth <= len/2; the interpreter's recursion limit is NOT modelled,
    see finding 'nested-600')"""
    cx.require('recursion-descends', z3.Length(content.z) < z3.Length(cx.st.env['data'].z))


def nested_der_decode_stub(cx):
    descends(cx, cx.args[0])
    return contract_stub(lambda: der_decode_ref[0])(cx)


nested_der_decode_stub.modifies = ()
nested_der_decode_stub.spec_getter = lambda: der_decode_ref[0]


def any_decoder_stub(cx):
    """cls.decode(constructed, content) for cls = _der_class_by_tag[tag]: contract D (proved for all ten classes)"""
    descends(cx, cx.args[1])
    return [Out(ret=cx.fresh('any', 'decoded')), Out(exc=VExc('ASN1DecodeError'))]


any_decoder_stub.modifies = ()

der_decode_ref = []

der_decode_partial = Spec(
    PROP, 'asn1', 'der_decode_partial', params={'data': 'bytes'},
    globals={'_der_class_by_tag': der_class_map()},
    stubs={'cls.decode': any_decoder_stub, 'der_decode': nested_der_decode_stub,
           'TaggedDERObject': ret('any', 'tagged'), 'RawDERObject': ret('any', 'raw')},
    loops={1: LoopSpec(header='for b in data[offset:]',
                       # (1) the long-form tag loop reads one byte per iteration
                       invariant=lambda c: c.local('offset') == 1 + c.extra['i'])},
    returns='tuple[any,int]',
    ensures=[('consumed>=2', lambda c: c.result_v.items[1].z >= 2),
             ('consumed<=len', lambda c: c.result_v.items[1].z <= z3.Length(c.arg('data')))],
    raises=dict(ASN1_RAISES))
partial_ref.append(der_decode_partial)

der_decode = Spec(
    PROP, 'asn1', 'der_decode', params={'data': 'bytes'},
    stubs={'der_decode_partial': partial_stub}, returns='any',
    raises=dict(ASN1_RAISES))
der_decode_ref.append(der_decode)

# calls through local names (cls(...), cls.decode(...)) cannot be intercepted by the native harness: these four are
# checked symbolically only (no per-path CPython cross-check); the findings have native scripts in notes/findings
for _sp in (der_decode_partial, der_ia5, der_oid, der_bitstring):
    _sp.no_replay = True


# ====================================================================== `while packet:` loops
def pkf(c, field, name='packet', new=True):
    """field of the SSHPacket bound to local/parameter `name`"""
    st = c.new_state if new else c.old_state
    return st.rec(st.env[name]).fields[field].z


def packet_left(c, name='packet'):
    return pkf(c, '_len', name) - pkf(c, '_idx', name)


def packet_ok(c, name='packet'):
    return z3.And(pkf(c, '_idx', name) >= 0, pkf(c, '_idx', name) <= pkf(c, '_len', name),
                  pkf(c, '_len', name) == z3.Length(pkf(c, '_packet', name)))


def on_packet(spec_getter):
    """packet.get_xxx() through the verified SSHPacket contract (receiver = the packet object)"""
    st = contract_stub(spec_getter)
    st.modifies = ()        # modifies fields of the packet object, not of self
    return st


def havocs_packet(ls, name='packet'):
    """the reader object bound to `name` is mutated in the loop body: loop-head state = a fresh packet object
    (needs local_types[name] = 'obj:SSHPacket'); what is kept of it must be said in the invariant"""
    ls.havoc_locals = [name]
    return ls


def region_between(first_target, last_type):
    """statements from the assignment to `first_target` up to and including the first `last_type` statement"""
    import ast

    def pick(fn):
        body = fn.body
        i0 = next(i for i, s in enumerate(body) if isinstance(s, ast.Assign) and
                  isinstance(s.targets[0], ast.Name) and s.targets[0].id == first_target)
        i1 = next(i for i, s in enumerate(body) if i >= i0 and isinstance(s, last_type))
        return body[i0:i1 + 1]
    return pick


import ast as _ast

KEYSEQ = 'seq[opaque:Key]'
finish_hostkeys_loop = Spec(
    PROP, 'connection', 'SSHClientConnection._finish_hostkeys', self_class='SSHClientConnection',
    params={'packet': 'obj:SSHPacket'},
    classes=dict(PK, SSHClientConnection={'_trusted_host_keys': KEYSEQ, '_revoked_host_keys': KEYSEQ}),
    truthy=PACKET_TRUTHY,
    # the parsing loop of the hostkeys-00@openssh.com handler: `added = []` ... `while packet:` (the proof request
    # and the report after it do not loop over peer bytes)
    region=region_between('added', _ast.While),
    stubs={'packet.get_string': on_packet(lambda: pk_get_string),
           # public_key.decode_ssh_public_key: documented to raise KeyImportError
           'decode_ssh_public_key': may_raise(ret('opaque:Key', 'key'), 'KeyImportError'),
           # list.remove(x): ValueError when x is not in the list (same trusted key listed twice)
           'removed.remove': may_raise(noop(), 'ValueError')},
    local_types={'packet': 'obj:SSHPacket', 'added': KEYSEQ, 'removed': KEYSEQ, 'retained': KEYSEQ, 'revoked': KEYSEQ,
                 'prove': 'seq[tuple[opaque:Key,bytes]]'},
    requires=lambda c: packet_ok(c),
    loops={1: havocs_packet(LoopSpec(header='packet', invariant=lambda c: packet_ok(c),
                       # (1) every iteration consumes at least the 4 length bytes of one entry, or leaves the loop
                       # by an exception: at most len/4 iterations
                       variant=lambda c: packet_left(c)))},
    ensures=[('all-consumed', lambda c: packet_left(c) == 0)],
    # run as a task (create_task): _reap_task turns these into a connection close
    raises={'PacketDecodeError': True, 'ValueError': True})


# ====================================================================== editor.py: the server-side line editor
# (3) max_line_length (documented: "the maximum input line length", default 1024) bounds the line a client can
# build up with keystrokes; _insert_printable is the only writer of _line that can make it longer from peer input
# (the others shorten it, clear it, or install an application / history line: editor.py 394-637).
ED = {'SSHLineEditor': {'_line': 'str', '_pos': 'int', '_max_line_length': 'int', '_cursor': 'int'}}


def ed_inv(c, new=True):
    f = c.new if new else c.old
    n = z3.Length(f('_line'))
    return z3.And(f('_pos') >= 0, f('_pos') <= n, f('_max_line_length') >= 0,
                  z3.Implies(f('_max_line_length') > 0, n <= f('_max_line_length')))


def update_input_stub(cx):
    """_update_input(pos, column, new_pos): redraws and moves the cursor to new_pos (editor.py 389)"""
    return [Out(sets={'_pos': cx.args[2], '_cursor': cx.fresh('int', 'cursor')}, event=('update_input', tuple(cx.args)))]


update_input_stub.modifies = ('_pos', '_cursor')

insert_printable = Spec(
    PROP, 'editor', 'SSHLineEditor._insert_printable', self_class='SSHLineEditor', params={'data': 'str'}, classes=ED,
    stubs={'self._ring_bell': noop('bell'), 'self._update_input': update_input_stub},
    requires=lambda c: ed_inv(c, new=False),
    ensures=[('line-length-bounded', lambda c: z3.Implies(c.old('_max_line_length') > 0,
                                                         z3.Length(c.new('_line')) <= c.old('_max_line_length'))),
             ('editor-invariant', ed_inv),
             ('grows-by-at-most-the-input', lambda c: z3.And(
                 z3.Length(c.new('_line')) >= z3.Length(c.old('_line')),
                 z3.Length(c.new('_line')) <= z3.Length(c.old('_line')) + z3.Length(c.arg('data')))),
             ('bell-iff-truncated', lambda c: z3.BoolVal(len(c.events('bell')) == 1) ==
              z3.And(c.old('_max_line_length') > 0,
                     z3.Length(c.old('_line')) + z3.Length(c.arg('data')) > c.old('_max_line_length')))],
    raises={})


# ====================================================================== socks.py: SOCKS handshake state machine
# data_received runs `while self._recv_handler:` over ten handlers.  Measure: (unconsumed bytes, rank of the handler
# = its distance to _connect in the state machine).  Class invariant A ("armed implies open"): a handler is armed
# only while the transport is open; every handler `assert`s it, and close() must therefore disarm.
SOCKS_RANK = {'_recv_version': 6, '_recv_socks5_authlist': 5, '_recv_socks5_command': 4, '_recv_socks5_hostlen': 3,
              '_recv_socks4_addr': 3, '_recv_socks5_addr': 2, '_recv_socks5_host': 2, '_recv_socks4_user': 2,
              '_recv_socks4_hostname': 1, '_recv_socks5_port': 1}
SK = {'SSHSOCKSForwarder': {'_inpbuf': 'bytes', '_bytes_needed': 'int', '_recv_handler': 'opt[tag]',
                            '_addrtype': 'int', '_host': 'str', '_port': 'int', '_transport': 'opt[obj:Transport]'},
      'Transport': {}}


def srank(v):
    if v is VNone:
        return z3.IntVal(0)
    if isinstance(v, VTag):
        return z3.IntVal(SOCKS_RANK[v.tag.rsplit('.', 1)[-1]])
    if isinstance(v, VOpt):
        return z3.If(v.isnone, z3.IntVal(0), srank(v.val))
    r = z3.IntVal(7)            # an unknown callable ranks above every handler (never produced by the code)
    for name, k in SOCKS_RANK.items():
        r = z3.If(v.z == tag_id('method:SSHSOCKSForwarder.' + name), z3.IntVal(k), r)
    return r


def armed(v):
    if v is VNone:
        return z3.BoolVal(False)
    if isinstance(v, VOpt):
        return z3.Not(v.isnone)
    return z3.BoolVal(True)


def sk_inv(c, new=True):
    g = c.newv if new else c.oldv
    return z3.Implies(armed(g('_recv_handler')), z3.Not(c.is_none(g('_transport'))))


# SSHSOCKSForwarder.close() itself is executed from its source (it must disarm the handler); only the base class
# close() it delegates to is summarised
SOCKS_CLOSE = {'self.close': ('socks', 'SSHSOCKSForwarder.close')}


def close_stub(cx):
    """SSHForwarder.close(): closes the transport and forgets it (forward.py 179-189); raises nothing"""
    return [Out(sets={'_transport': VNone}, event=('close', ()))]


close_stub.modifies = ('_transport',)


def connect_stub(cx):
    """_connect(): requires an open transport (assert), disarms the handler, starts the tunnel"""
    cx.require('transport-open', z3.Not(cx.ex.ctx_is_none(cx.selff('_transport'))) if hasattr(cx.ex, 'ctx_is_none')
               else z3.Not(_isnone(cx.selff('_transport'))))
    return [Out(sets={'_recv_handler': VNone}, event=('connect', ()))]


def _isnone(v):
    if v is VNone:
        return z3.BoolVal(True)
    if isinstance(v, VOpt):
        return v.isnone
    return z3.BoolVal(False)


connect_stub.modifies = ('_recv_handler',)


# class invariant J: the byte count the pump will deliver next matches what the armed handler expects
# (-1 = NUL-terminated field; peer-chosen counts are single bytes: any value 0..255)
def expect(n):
    return lambda b: b == n


SOCKS_EXPECT = {'_recv_version': expect(2), '_recv_socks4_addr': expect(6), '_recv_socks4_user': expect(-1),
                '_recv_socks4_hostname': expect(-1), '_recv_socks5_authlist': lambda b: z3.And(b >= 0, b <= 255),
                '_recv_socks5_command': expect(4), '_recv_socks5_hostlen': expect(1),
                '_recv_socks5_addr': lambda b: z3.Or(b == 4, b == 16),
                '_recv_socks5_host': lambda b: z3.And(b >= 0, b <= 255), '_recv_socks5_port': expect(2)}


def sk_expect(hv, b):
    """J(handler, _bytes_needed)"""
    if hv is VNone:
        return z3.BoolVal(True)
    if isinstance(hv, VTag):
        return SOCKS_EXPECT[hv.tag.rsplit('.', 1)[-1]](b)
    if isinstance(hv, VOpt):
        return z3.Or(hv.isnone, sk_expect(hv.val, b))
    return z3.And([z3.Implies(hv.z == tag_id('method:SSHSOCKSForwarder.' + n), f(b)) for n, f in SOCKS_EXPECT.items()] +
                  [z3.Or([hv.z == tag_id('method:SSHSOCKSForwarder.' + n) for n in SOCKS_EXPECT])])


AFTER_COMMAND = ('_recv_socks5_hostlen', '_recv_socks5_host', '_recv_socks5_addr', '_recv_socks5_port')


def sk_addrtype(hv, a):
    """J, second part: in the SOCKS5 states after the command _addrtype is IPv4 (1) or IPv6 (4), the only keys of
    _socks5_addr_len"""
    ok = z3.Or(a == 1, a == 4)
    if hv is VNone:
        return z3.BoolVal(True)
    if isinstance(hv, VTag):
        return ok if hv.tag.rsplit('.', 1)[-1] in AFTER_COMMAND else z3.BoolVal(True)
    if isinstance(hv, VOpt):
        return z3.Or(hv.isnone, sk_addrtype(hv.val, a))
    return z3.Implies(z3.Or([hv.z == tag_id('method:SSHSOCKSForwarder.' + n) for n in AFTER_COMMAND]), ok)


def socks_reply_consts():
    """SOCKS4_OK_RESPONSE / SOCKS5_OK_RESPONSE_HDR are `bytes((...))` of module constants (socks.py 52-53): rebuilt
    from the constants of the analysed tree"""
    from pyvc import extract
    k = extract.get_module('socks').lookup_const
    return {'SOCKS4_OK_RESPONSE': VBytes(bytes((0, k('SOCKS4_OK'), 0, 0, 0, 0, 0, 0))),
            'SOCKS5_OK_RESPONSE_HDR': VBytes(bytes((k('SOCKS5'), k('SOCKS5_OK'), 0)))}


def socks_handler(name, extra_stubs=None, raises=None):
    """one state of the handshake; the pump delivers exactly _bytes_needed bytes (or a NUL-terminated field)"""
    tag = VTag('method:SSHSOCKSForwarder.' + name)

    def requires(c):
        b = c.old('_bytes_needed')
        return z3.And(sk_inv(c, new=False), c.eq(c.oldv('_recv_handler'), tag), SOCKS_EXPECT[name](b),
                      sk_addrtype(c.oldv('_recv_handler'), c.old('_addrtype')),
                      z3.Implies(b >= 0, z3.Length(c.arg('data')) == b))

    def progress(c):
        # (1) nothing consumed (len(data) == 0 happens for peer-chosen lengths 0) => the state machine must advance
        consumed = z3.Length(c.arg('data')) + z3.If(c.old('_bytes_needed') < 0, 1, 0)
        return z3.Or(consumed >= 1, srank(c.newv('_recv_handler')) < SOCKS_RANK[name])
    stubs = {'super().close': close_stub, 'self._connect': connect_stub, 'self._transport.write': noop('write'),
             # ipaddress.ip_address(bytes of length 4 or 16): total on those lengths, ValueError otherwise
             'ip_address': lambda cx: [Out(ret=cx.fresh('any', 'ip'),
                                           assume=[z3.Or(z3.Length(cx.args[0].z) == 4, z3.Length(cx.args[0].z) == 16)]),
                                       Out(exc=VExc('ValueError'),
                                           assume=[z3.Not(z3.Or(z3.Length(cx.args[0].z) == 4,
                                                                z3.Length(cx.args[0].z) == 16))])]}
    stubs.update(extra_stubs or {})
    return Spec(PROP, 'socks', 'SSHSOCKSForwarder.' + name, self_class='SSHSOCKSForwarder', params={'data': 'bytes'},
                classes=SK, stubs=stubs, requires=requires, globals=socks_reply_consts(),
                # the two reply senders are executed from source (assert on the transport, _socks5_addr_len lookup)
                inline=dict(SOCKS_CLOSE, **{'self._send_socks4_ok': ('socks', 'SSHSOCKSForwarder._send_socks4_ok'),
                                            'self._send_socks5_ok': ('socks', 'SSHSOCKSForwarder._send_socks5_ok')}),
                ensures=[('armed-implies-open', sk_inv), ('progress', progress),
                         ('next-state-gets-the-length-it-expects',
                          lambda c: sk_expect(c.newv('_recv_handler'), c.new('_bytes_needed'))),
                         ('address-type-known-after-the-command',
                          lambda c: sk_addrtype(c.newv('_recv_handler'), c.new('_addrtype')))],
                # (2) nothing may escape to the event loop: no AssertionError / IndexError / ValueError
                raises=raises or {})


socks_specs = {n: socks_handler(n) for n in SOCKS_RANK}


def weak_find_stub(cx):
    """bytes.find(sub) without the quantified part of the built-in model (first occurrence / absence): the result is
    -1 or the position of AN occurrence.  Strictly weaker than the built-in model (over-approximates CPython), used
    inside a cut loop where only the position bounds matter; keeps the obligations quantifier free."""
    ex, s = cx.ex, cx.st
    r = ex.deref(s, cx.recv)
    sub = ex.deref(s, cx.args[0])
    n = z3.Length(r.z)
    m = z3.Length(sub.z)
    k = cx.fresh('int', 'find')
    return [Out(ret=k, assume=[z3.Or(k.z == -1, z3.And(k.z >= 0, k.z + m <= n, z3.Extract(r.z, k.z, m) == sub.z))])]


weak_find_stub.modifies = ()


def socks_dispatch_stub(cx):
    """self._recv_handler(data): the joint contract of the ten handlers above (their ensures, nothing else)"""
    h0, b0 = cx.selff('_recv_handler'), cx.selff('_bytes_needed')
    data = cx.args[0]
    cx.require('handler-gets-the-length-it-expects',
               z3.And(sk_expect(h0, b0.z), z3.Implies(b0.z >= 0, z3.Length(data.z) == b0.z)))
    cx.require('armed-implies-open', z3.Implies(armed(h0), z3.Not(_isnone(cx.selff('_transport')))))
    cx.require('address-type-known-after-the-command', sk_addrtype(h0, cx.selff('_addrtype').z))
    a1 = cx.fresh('int', 'addrtype_after')
    h1 = cx.fresh('opt[tag]', 'handler_after')
    b1 = cx.fresh('int', 'needed_after')
    t1 = cx.fresh('opt[obj:Transport]', 'transport_after')
    consumed = z3.Length(data.z) + z3.If(b0.z < 0, 1, 0)
    return [Out(sets={'_recv_handler': h1, '_bytes_needed': b1, '_transport': t1, '_addrtype': a1},
                assume=[z3.Implies(armed(h1), z3.Not(t1.isnone)), sk_addrtype(h1, a1.z),
                        z3.Or(consumed >= 1, srank(h1) < srank(h0)), srank(h1) <= 6,
                        sk_expect(h1, b1.z)],
                event=('handler', (data,)))]


socks_dispatch_stub.modifies = ('_recv_handler', '_bytes_needed', '_transport', '_addrtype')

socks_close = Spec(
    PROP, 'socks', 'SSHSOCKSForwarder.close', self_class='SSHSOCKSForwarder', classes=SK,
    stubs={'super().close': close_stub}, modifies=['_recv_handler', '_transport'],
    ensures=[('disarms-the-parser', lambda c: z3.Not(armed(c.newv('_recv_handler')))),
             ('closes-the-transport', lambda c: c.is_none(c.newv('_transport')))],
    raises={})

socks_data_received = Spec(
    PROP, 'socks', 'SSHSOCKSForwarder.data_received', self_class='SSHSOCKSForwarder',
    params={'data': 'bytes', 'datatype': 'none'}, classes=SK,
    stubs={'self._recv_handler': socks_dispatch_stub, 'self.close': contract_stub(lambda: socks_close),
           'super().data_received': noop('forward'), 'self._inpbuf.find': weak_find_stub},
    requires=lambda c: z3.And(sk_inv(c, new=False), srank(c.oldv('_recv_handler')) <= 6,
                              sk_expect(c.oldv('_recv_handler'), c.old('_bytes_needed')),
                              sk_addrtype(c.oldv('_recv_handler'), c.old('_addrtype'))),
    loops={1: LoopSpec(header='self._recv_handler', modifies=['_recv_handler', '_transport'],
                       invariant=lambda c: z3.And(sk_inv(c), srank(c.newv('_recv_handler')) <= 6,
                                                  sk_expect(c.newv('_recv_handler'), c.new('_bytes_needed')),
                                                  sk_addrtype(c.newv('_recv_handler'), c.new('_addrtype'))),
                       # (1) lexicographic (unconsumed bytes, handler rank) as one integer
                       variant=lambda c: 8 * z3.Length(c.new('_inpbuf')) + srank(c.newv('_recv_handler')))},
    ensures=[('armed-implies-open', sk_inv),
             # the bytes buffered before the request is complete are bounded: every field of the handshake is a
             # fixed count, a one-byte count, or a NUL-terminated string of at most 255 bytes - a longer
             # unterminated field closes the connection (which disarms the parser)
             ('buffered-bytes-bounded-while-the-request-is-incomplete',
              lambda c: z3.Implies(armed(c.newv('_recv_handler')), z3.Length(c.new('_inpbuf')) <= 255))],
    raises={})
socks_data_received.cvc5_first = True      # sat-models with > 255 byte buffers: cvc5 builds them quickly


# ====================================================================== sshsig.py: validate_sshsig -> bool
# documented ":returns: bool" for any signature blob: a signature that cannot be parsed or does not verify is False
def signed_data_stub(cx):
    """_signed_data(data, is_hashed, hash_name, namespace) (sshsig.py 156-182): ValueError for a hash name outside
    {sha256, sha512}, an empty namespace, or a pre-hashed input of the wrong size"""
    return [Out(ret=cx.fresh('bytes', 'to_verify')), Out(exc=VExc('ValueError'))]


signed_data_stub.modifies = ()

def sshsig_post(c):
    """leaving the region by `return` is always `return False`; falling through means key.verify() said True"""
    ver = c.calls('verify')
    if c.result_v is VNone:
        return z3.And(z3.BoolVal(len(ver) == 1), *[x['ret'].z for x in ver])
    return z3.Not(c.truthy(c.result_v))


validate_sshsig = Spec(
    PROP, 'sshsig', 'validate_sshsig',
    params=dict(data='bytes', sig='bytes', principal='str', allowed_signers='obj:SSHAllowedSigners', is_hashed='bool'),
    classes=dict(PACKET_CLASSES, SSHAllowedSigners={}, Cert={'is_x509': 'bool', 'key': 'obj:Key',
                                                           'signing_key': 'obj:Key'}, Key={}),
    inline=dict(PACKET_INLINE), truthy=PACKET_TRUTHY,
    globals={'PurePath': VTag('class:PurePath'), 'SSHAllowedSigners': VTag('class:SSHAllowedSigners')},
    stubs={'match_base64': may_raise(ret('tuple[bytes,int]', 'b64'), 'ValueError'),
           'binascii.a2b_base64': may_raise(ret('bytes', 'raw'), 'ValueError'),
           'decode_ssh_certificate': may_raise(ret('obj:Cert', 'cert'), 'KeyImportError'),
           'decode_ssh_public_key': may_raise(ret('obj:Key', 'key'), 'KeyImportError'),
           '_signed_data': signed_data_stub,
           'key.verify': ret('bool', 'verified'),
           'allowed_signers.validate': ret('bool', 'allowed'),
           'cert.validate': may_raise(noop(), 'ValueError')},
    # the binary part: from `packet = SSHPacket(sig)` to the signature check (the ASCII armour before it only maps
    # text to bytes or returns False; the allowed-signers lookup after it works on local configuration)
    region=lambda fn: (lambda b, i: b[i:i + 3])(fn.body, next(
        i for i, st in enumerate(fn.body) if isinstance(st, _ast.Try) and 'SSHPacket' in _ast.unparse(st))),
    ensures=[('rejects-or-verified', lambda c: sshsig_post(c))],
    # known finding: ValueError for an unsupported hash name / empty namespace / X.509 certificate in the blob
    raises={})
validate_sshsig.no_replay = True
validate_sshsig.feasible_timeout_ms = 300
validate_sshsig.cvc5_first = True


# ====================================================================== connection.py: transport message handlers
# (2) a handler raises only DisconnectError subclasses or PacketDecodeError (which _recv_packet converts);
# (1)/(3) loops driven by a peer-chosen count run at most len(packet)/8 times although the count is any uint32.
HCONN = dict(RCONN, _wait='opt[str]', _owner='opt[obj:Owner]', _can_recv_ext_info='bool',
             _utf8_decode_errors='str', _server_sig_algs='any', _next_service='opt[bytes]')
HCLASSES = dict(RCLASSES, SSHConnection=HCONN, Owner={}, **PACKET_CLASSES)
HPARAMS = dict(_pkttype='int', _pktid='int', packet='obj:SSHPacket')
HRAISES = {'DisconnectError': True, 'PacketDecodeError': True}


def decode_utf8_stub(cx):
    """_decode_utf8 = msg_bytes.decode('utf-8', self._utf8_decode_errors): UnicodeDecodeError under 'strict'"""
    return [Out(ret=cx.fresh('str', 'decoded')), Out(exc=VExc('UnicodeDecodeError'))]


decode_utf8_stub.modifies = ()


def handler_spec(name, stubs=None, **kw):
    st = dict(ROLE_STUBS, **{'self._decode_utf8': decode_utf8_stub, 'self._force_close': force_close_stub,
                             'construct_disc_error': ret('any', 'disc_exc'),
                             # application callback (SSHClient/SSHServer.debug_msg_received): assumed not to raise
                             'self._owner.debug_msg_received': noop('debug_msg')})
    st.update(stubs or {})
    rq = kw.pop('requires', None)
    return Spec(PROP, 'connection', 'SSHConnection.' + name, self_class='SSHConnection', params=dict(HPARAMS),
                classes=HCLASSES, inline=dict(PACKET_INLINE), truthy=PACKET_TRUTHY, stubs=st,
                requires=(lambda c: z3.And(packet_ok(c), rq(c))) if rq else packet_ok,
                raises=dict(HRAISES), always=[('packet-stays-well-formed', packet_ok)], **kw)


process_disconnect = handler_spec(
    '_process_disconnect',
    ensures=[('always-closes', closed), ('whole-packet-consumed', lambda c: packet_left(c) == 0)])
process_ignore = handler_spec('_process_ignore')
process_unimplemented = handler_spec('_process_unimplemented',
                                     ensures=[('whole-packet-consumed', lambda c: packet_left(c) == 0)])
process_debug = handler_spec('_process_debug', ensures=[('whole-packet-consumed', lambda c: packet_left(c) == 0)])


def entry_pkf(c, field, name='packet'):
    st = c.loop_entry
    return st.rec(st.env[name]).fields[field].z


process_ext_info = handler_spec(
    '_process_ext_info',
    local_types={'packet': 'obj:SSHPacket', 'extensions': 'dict[bytes,bytes]', 'name': 'bytes', 'value': 'bytes'},
    loops={1: havocs_packet(LoopSpec(
        header='for _ in range(num_extensions)',
        # (3) num_extensions is ANY uint32; after i completed iterations at least 8*i bytes are gone, so the loop
        # body runs at most len/8 times before get_string() raises
        invariant=lambda c: z3.And(packet_ok(c), pkf(c, '_len') == entry_pkf(c, '_len'),
                                   pkf(c, '_idx') >= entry_pkf(c, '_idx') + 8 * c.extra['i'])))},
    ensures=[('whole-packet-consumed', lambda c: packet_left(c) == 0)])


# ---- more `while packet:` loops over peer bytes (same obligation: every iteration consumes >= 4 bytes or leaves)
hostkeys_prove_loop = Spec(
    PROP, 'connection', 'SSHServerConnection._process_hostkeys_prove_00_at_openssh_dot_com_global_request',
    self_class='SSHServerConnection', params={'packet': 'obj:SSHPacket'},
    classes=dict(PK, SSHServerConnection={'_all_server_host_keys': 'dict[bytes,obj:HostKey]', '_session_id': 'bytes'},
                 HostKey={}),
    truthy=PACKET_TRUTHY, inline=dict(PACKET_INLINE),
    stubs={'key.sign': ret('bytes', 'signature'), 'self._report_global_response': noop('report')},
    local_types={'packet': 'obj:SSHPacket', 'signatures': 'seq[bytes]'},
    requires=packet_ok,
    loops={1: havocs_packet(LoopSpec(header='packet', invariant=packet_ok, variant=packet_left))},
    ensures=[('answers-exactly-once', lambda c: z3.BoolVal(len(c.events('report')) == 1))],
    raises={'PacketDecodeError': True})


def ascii_keys(m):
    """the option decoder tables (public_key.py, class attributes) are keyed by ASCII literals"""
    k = z3.Const('optname', BytesS)
    okf = z3.Function('decodable_ascii', BytesS, BoolS)
    return z3.ForAll([k], z3.Implies(z3.Select(m.dom, k), okf(k)))


decode_options = Spec(
    PROP, 'public_key', 'SSHOpenSSHCertificate._decode_options',
    params={'options': 'bytes', 'decoders': 'dict[bytes,tag]', 'critical': 'bool'},
    classes=dict(PK), truthy=PACKET_TRUTHY, inline=dict(PACKET_INLINE),
    # an option decoder reads its own sub-packet: documented errors only
    stubs={'decoder': may_raise(ret('any', 'option_value'), 'PacketDecodeError', 'KeyImportError')},
    local_types={'packet': 'obj:SSHPacket', 'result': 'dict[str,any]', 'data_packet': 'obj:SSHPacket'},
    requires=lambda c: ascii_keys(c.argv('decoders')),
    loops={1: havocs_packet(LoopSpec(header='packet', invariant=packet_ok, variant=packet_left))},
    raises={'PacketDecodeError': True, 'KeyImportError': True})
decode_options.no_replay = True


# ====================================================================== x11.py: X11 client prefix state machine
# chain _recv_prefix(12 bytes) -> _recv_auth_proto(padded len, possibly 0) -> _recv_auth_data(padded len, possibly 0)
# -> None: every handler call lowers the rank, so `while self._recv_handler:` runs at most three times per chunk.
X_RANK = {'_recv_prefix': 3, '_recv_auth_proto': 2, '_recv_auth_data': 1}
XK = {'SSHX11ClientForwarder': {'_inpbuf': 'bytes', '_bytes_needed': 'int', '_recv_handler': 'opt[tag]',
                                '_endian': 'bytes', '_prefix': 'bytes', '_auth_proto_len': 'int',
                                '_auth_data_len': 'int', '_auth_proto': 'bytes', '_auth_proto_pad': 'bytes',
                                '_auth_data': 'bytes', '_auth_data_pad': 'bytes', '_listener': 'obj:Listener'},
      'Listener': {}}


def xrank(v):
    if v is VNone:
        return z3.IntVal(0)
    if isinstance(v, VTag):
        return z3.IntVal(X_RANK[v.tag.rsplit('.', 1)[-1]])
    if isinstance(v, VOpt):
        return z3.If(v.isnone, z3.IntVal(0), xrank(v.val))
    r = z3.IntVal(4)
    for name, k in X_RANK.items():
        r = z3.If(v.z == tag_id('method:SSHX11ClientForwarder.' + name), z3.IntVal(k), r)
    return r


def x_inv(c, new=True):
    f = c.new if new else c.old
    return z3.And(f('_bytes_needed') >= 0, f('_auth_proto_len') >= 0, f('_auth_data_len') >= 0)


def x_expect(hv, b):
    """class invariant: while _recv_prefix is armed the pump delivers the 12-byte fixed prefix (set in __init__)"""
    t = tag_id('method:SSHX11ClientForwarder._recv_prefix')
    if hv is VNone:
        return z3.BoolVal(True)
    if isinstance(hv, VTag):
        return b == 12 if tag_id(hv.tag) == t else z3.BoolVal(True)
    if isinstance(hv, VOpt):
        return z3.Or(hv.isnone, x_expect(hv.val, b))
    return z3.Implies(hv.z == t, b == 12)


def x_handler(name, nbytes):
    tag = VTag('method:SSHX11ClientForwarder.' + name)
    return Spec(PROP, 'x11', 'SSHX11ClientForwarder.' + name, self_class='SSHX11ClientForwarder',
                params={'data': 'bytes'}, classes=XK,
                inline={k: ('x11', 'SSHX11ClientForwarder.' + k.split('.')[1]) for k in
                        ('self._decode_uint16', 'self._encode_uint16', 'self._padded_len', 'self._pad')},
                stubs={'self._listener.validate_auth': may_raise(ret('bytes', 'auth'), 'KeyError'),
                       'self.write': may_raise(noop('write'), 'OSError'),
                       'self.write_eof': may_raise(noop('eof'), 'OSError')},
                requires=lambda c: z3.And(x_inv(c, new=False), c.eq(c.oldv('_recv_handler'), tag),
                                          z3.Length(c.arg('data')) == nbytes(c)),
                ensures=[('state-machine-advances', lambda c: xrank(c.newv('_recv_handler')) < X_RANK[name]),
                         ('lengths-stay-non-negative', x_inv),
                         ('prefix-state-gets-12-bytes',
                          lambda c: x_expect(c.newv('_recv_handler'), c.new('_bytes_needed')))],
                raises={})


x_specs = [x_handler('_recv_prefix', lambda c: z3.IntVal(12)),
           x_handler('_recv_auth_proto', lambda c: c.old('_bytes_needed')),
           x_handler('_recv_auth_data', lambda c: c.old('_bytes_needed'))]


def x_dispatch_stub(cx):
    """self._recv_handler(data): the joint contract of the three handlers above"""
    h0, b0 = cx.selff('_recv_handler'), cx.selff('_bytes_needed')
    # the handlers' preconditions are obligations at the indirect call
    cx.require('handler-gets-the-length-it-expects',
               z3.And(z3.Length(cx.args[0].z) == b0.z, b0.z >= 0, x_expect(h0, b0.z)))
    h1, b1, buf = cx.fresh('opt[tag]', 'handler_after'), cx.fresh('int', 'needed_after'), cx.fresh('bytes', 'buf_after')
    return [Out(sets={'_recv_handler': h1, '_bytes_needed': b1, '_inpbuf': buf},
                assume=[xrank(h1) < xrank(h0), b1.z >= 0, x_expect(h1, b1.z)], event=('handler', tuple(cx.args)))]


x_dispatch_stub.modifies = ('_recv_handler', '_bytes_needed', '_inpbuf')

x_data_received = Spec(
    PROP, 'x11', 'SSHX11ClientForwarder.data_received', self_class='SSHX11ClientForwarder',
    params={'data': 'bytes', 'datatype': 'none'}, classes=XK,
    stubs={'self._recv_handler': x_dispatch_stub, 'super().data_received': noop('forward')},
    requires=lambda c: z3.And(x_inv(c, new=False), xrank(c.oldv('_recv_handler')) <= 3,
                              x_expect(c.oldv('_recv_handler'), c.old('_bytes_needed'))),
    loops={1: LoopSpec(header='self._recv_handler',
                       invariant=lambda c: z3.And(c.new('_bytes_needed') >= 0, xrank(c.newv('_recv_handler')) <= 3,
                                                  x_expect(c.newv('_recv_handler'), c.new('_bytes_needed'))),
                       variant=lambda c: xrank(c.newv('_recv_handler')))},
    ensures=[('at-most-three-handler-steps', lambda c: z3.BoolVal(True))],
    raises={})


# ====================================================================== agent.py: replies of the (untrusted) agent
# documented failure of the agent client is ValueError (PacketDecodeError is a ValueError)
def make_request_stub(cx):
    """_make_request -> (resptype, SSHPacket): a freshly constructed reader after get_byte() (agent.py 252-255),
    hence well-formed by the SSHPacket class invariant; OSError / EOFError / PacketDecodeError become ValueError"""
    t = cx.fresh('int', 'resptype')
    p = cx.fresh('obj:SSHPacket', 'resp')
    r = cx.st.rec(p).fields
    wf = z3.And(r['_idx'].z >= 0, r['_idx'].z <= r['_len'].z, r['_len'].z == z3.Length(r['_packet'].z))
    return [Out(ret=VTuple([t, p]), assume=[wf, t.z >= 0, t.z <= 255]), Out(exc=VExc('ValueError'))]


make_request_stub.modifies = ()
AG = dict(PK, SSHAgentClient={}, KP={})

agent_get_keys = Spec(
    PROP, 'agent', 'SSHAgentClient.get_keys', self_class='SSHAgentClient', params={'identities': 'opt[seq[bytes]]'},
    classes=AG, truthy=PACKET_TRUTHY, inline=dict(PACKET_INLINE),
    stubs={'self._make_request': make_request_stub, 'SSHAgentKeyPair': ret('obj:KP', 'keypair'),
           'result.append': noop()},
    local_types={'resp': 'obj:SSHPacket', 'result': 'seq[int]', 'key_blob': 'bytes', 'comment': 'bytes',
                 'packet': 'obj:SSHPacket', 'algorithm': 'bytes'},
    loops={1: havocs_packet(LoopSpec(
        header='for _ in range(num_keys)',
        # (3) num_keys is any uint32 the agent chose: each listed key costs it at least 8 bytes of reply
        invariant=lambda c: z3.And(packet_ok(c, 'resp'), pkf(c, '_len', 'resp') == entry_pkf(c, '_len', 'resp'),
                                   pkf(c, '_idx', 'resp') >= entry_pkf(c, '_idx', 'resp') + 8 * c.extra['i'])),
        'resp')},
    raises={'ValueError': True})

agent_sign = Spec(
    PROP, 'agent', 'SSHAgentClient.sign', self_class='SSHAgentClient',
    params={'key_blob': 'bytes', 'data': 'bytes', 'flags': 'int'}, classes=AG, truthy=PACKET_TRUTHY,
    inline=dict(PACKET_INLINE), stubs={'self._make_request': make_request_stub},
    requires=lambda c: z3.And(c.arg('flags') >= 0, c.arg('flags') < 2 ** 32), returns='bytes',
    raises={'ValueError': True})


# ====================================================================== sftp.py: extension parsers with peer counts
def counted_loop(step, name='packet'):
    """for _ in range(<peer uint32>): each iteration consumes >= `step` bytes, so at most len/step iterations run"""
    return havocs_packet(LoopSpec(
        invariant=lambda c: z3.And(packet_ok(c, name), pkf(c, '_len', name) == entry_pkf(c, '_len', name),
                                   pkf(c, '_idx', name) >= entry_pkf(c, '_idx', name) + step * c.extra['i'])), name)


SFTP_LT = {'packet': 'obj:SSHPacket', 'ext_names': 'seq[bytes]', 'attrib_ext_names': 'seq[bytes]', 'name': 'bytes'}
parse_supported = Spec(
    PROP, 'sftp', '_parse_supported', params={'data': 'bytes'}, classes=dict(PK), truthy=PACKET_TRUTHY,
    inline=dict(PACKET_INLINE), local_types=SFTP_LT,
    loops={1: havocs_packet(LoopSpec(header='packet', invariant=packet_ok, variant=packet_left))},
    raises={'PacketDecodeError': True})
parse_supported2 = Spec(
    PROP, 'sftp', '_parse_supported2', params={'data': 'bytes'}, classes=dict(PK), truthy=PACKET_TRUTHY,
    inline=dict(PACKET_INLINE), local_types=SFTP_LT,
    loops={1: counted_loop(4), 2: counted_loop(4)},
    raises={'PacketDecodeError': True})
for _sp in (parse_supported, parse_supported2):
    _sp.no_replay = True
parse_supported2.feasible_timeout_ms = 300


# ====================================================================== bounded stand-in: interpreter recursion limit
# The recursion der_decode_partial -> _Sequence/_Set.decode -> der_decode_partial is proved well founded above, but
# its DEPTH is only bounded by len(data)/2 and the engine does not model RecursionError.  This native probe (not
# counted as a proof) feeds nested SEQUENCEs of growing depth to the real der_decode under /venv/bin/python.
_NEST_PROBE = r'''
import json, sys
import asyncssh
from asyncssh.asn1 import der_decode, der_decode_partial, ASN1DecodeError
def nest(d):
    inner = b''
    for _ in range(d):
        n = len(inner)
        if n < 0x80: hdr = bytes([0x30, n])
        else:
            lb = n.to_bytes((n.bit_length() + 7) // 8, 'big'); hdr = bytes([0x30, 0x80 | len(lb)]) + lb
        inner = hdr + inner
    return inner
bad = []
for d in (10, 100, 300, 600, 1200, 5000):
    data = nest(d)
    try:
        der_decode(data)
    except ASN1DecodeError:
        pass
    except BaseException as e:
        bad.append('der_decode(%d nested SEQUENCEs, %d bytes) raised %s' % (d, len(data), type(e).__name__))
    # the same obligation for the other documented entry points that reach the recursive decoder
    for fn, doc in ((der_decode_partial, ASN1DecodeError), (asyncssh.import_public_key, asyncssh.KeyImportError),
                    (asyncssh.import_private_key, asyncssh.KeyImportError)):
        try:
            fn(data)
        except doc:
            pass
        except BaseException as e:
            bad.append('%s(%d nested SEQUENCEs, %d bytes) raised %s' % (fn.__name__, d, len(data), type(e).__name__))
print(json.dumps(bad))
'''


def extra_checks(tier, seed):
    import json, os, subprocess
    from pyvc import extract
    env = dict(os.environ, PYTHONPATH=extract.REPO)
    name = 'C10.asn1.der_decode#bounded(nesting-depth-raises-only-ASN1DecodeError)'
    try:
        p = subprocess.run(['/venv/bin/python', '-c', _NEST_PROBE], capture_output=True, text=True, env=env, timeout=120)
        bad = json.loads(p.stdout.strip().splitlines()[-1])
    except Exception as e:        # harness trouble is never a verdict
        return {'bounded': [{'name': name, 'inputs': 0, 'violations': [], 'error': repr(e)}]}
    return {'bounded': [{'name': name, 'inputs': 24, 'violations': bad}]}


# ====================================================================== connection.py: task errors are reaped
def task_result_stub(cx):
    """asyncio.Task.result() in a done-callback: the coroutine's return value, or re-raises what it raised"""
    exc, rng = disconnect_exc(cx, 'task_disc')
    ev = ('task_result', ())
    return [Out(ret=cx.fresh('any', 'task_value'), event=ev), Out(exc=VExc('CancelledError'), event=ev),
            Out(exc=exc, assume=[rng], event=ev), Out(exc=VExc('Exception'), event=ev)]


task_result_stub.modifies = ()

reap_task = Spec(
    PROP, 'connection', 'SSHConnection._reap_task', self_class='SSHConnection',
    params={'task_logger': 'opt[obj:Logger]', 'task': 'obj:Task'},
    classes=dict(RCLASSES, SSHConnection=dict(ICONN, _tasks='obj:TaskSet'), Logger={}, TaskSet={}),
    stubs={'self._tasks.discard': noop(), 'task.result': task_result_stub,
           'self._send_disconnect': named(contract_stub(lambda: send_disconnect), 'send_disconnect'),
           'self._force_close': force_close_stub,
           'self.internal_error': named(contract_stub(lambda: internal_error), 'internal_error')},
    modifies=['_transport', '_send_seq'],
    always=[('error-means-closed',
             lambda c: z3.BoolVal(True) if not (c.events('send_disconnect') or c.events('internal_error'))
             else z3.And(closed(c) if c.events('send_disconnect') else z3.BoolVal(True),
                         c.is_none(c.newv('_transport')))),
            ('every-failure-is-handled', lambda c: z3.BoolVal(
                c.raised is None and (len(c.events('send_disconnect')) + len(c.events('internal_error')) == 1 or
                                      not any(x['exc'] is not None and x['exc'].cls != 'CancelledError'
                                              for x in c.calls('task.result')))))],
    # (2) a done-callback: NOTHING may escape to the event loop
    raises={})


# ====================================================================== public_key.py: key import error discipline
# documented: import_private_key -> KeyImportError / KeyEncryptionError, import_public_key / import_certificate ->
# KeyImportError, for EVERY byte string.  The format decoders reach DER, PEM, OpenSSH and the cryptography backends;
# whatever ValueError-family error or OverflowError they let through must be converted here.
def decoder_stub(*extra):
    def stub(cx):
        outs = [Out(ret=VTuple([cx.fresh('opt[obj:Key]', 'decoded'), cx.fresh('int', 'end')]))]
        for cls in ('KeyImportError', 'ValueError', 'UnicodeDecodeError', 'PacketDecodeError', 'ASN1DecodeError',
                    'OverflowError') + extra:
            outs.append(Out(exc=VExc(cls)))
        return outs
    stub.modifies = ()
    return stub


def import_spec(name, decoder, params, extra=(), raises=('KeyImportError',)):
    return Spec(PROP, 'public_key', name, params=params, classes={'Key': {}},
                stubs={decoder: decoder_stub(*extra)}, returns='obj:Key',
                raises={r: True for r in raises})


import_private_key = import_spec('import_private_key', '_decode_private',
                                 dict(data='bytes', passphrase='any', unsafe_skip_rsa_key_validation='any'),
                                 extra=('KeyEncryptionError',), raises=('KeyImportError', 'KeyEncryptionError'))
import_public_key = import_spec('import_public_key', '_decode_public', dict(data='bytes'))
import_certificate = import_spec('import_certificate', '_decode_certificate', dict(data='bytes'))


# ====================================================================== misc.py: match_base64 (PEM footer search)
# no exception other than ValueError for ANY header bytes: a regular expression may contain untrusted bytes only
# through re.escape().  re.compile is modelled as raising re.error (class name 'error', NOT a ValueError) unless
# its pattern is a concatenation of literals and re.escape() results.
re_escape_fn = z3.Function('re_escape', BytesS, BytesS)


def re_escape_stub(cx):
    return VBytes(re_escape_fn(cx.args[0].z))


def _pattern_is_safe(z):
    k = z.decl().kind() if z3.is_app(z) else None
    if k == z3.Z3_OP_SEQ_CONCAT:
        return all(_pattern_is_safe(a) for a in z.children())
    if k == z3.Z3_OP_SEQ_EMPTY:
        return True
    if k == z3.Z3_OP_SEQ_UNIT:
        return z3.is_int_value(simp(z.arg(0)))
    return z3.is_app(z) and z.decl().name() == 're_escape'


def re_compile_stub(cx):
    pat = cx.ex.deref(cx.st, cx.args[0])
    ok = Out(ret=cx.fresh('obj:Pattern', 'compiled'), event=('re_compile', (pat,)))
    if _pattern_is_safe(pat.z):
        return [ok]
    return [ok, Out(exc=VExc('error'), event=('re_compile', (pat,)))]


re_compile_stub.modifies = ()


def re_search_stub(cx):
    m = cx.fresh('opt[obj:Match]', 'match')
    return [Out(ret=m)]


re_search_stub.modifies = ()

match_base64 = Spec(
    PROP, 'misc', 'match_base64', params=dict(data='bytes', start='int', header='bytes'),
    classes={'Pattern': {}, 'Match': {}},
    globals={'re': VTag('class:re')},
    stubs={'re.escape': re_escape_stub, 're.compile': re_compile_stub, 're.compile().search': re_search_stub,
           'match.start': ret('int', 'match_start'), 'match.end': ret('int', 'match_end')},
    returns='tuple[bytes,int]',
    ensures=[('pattern-built-from-literals-and-escaped-pieces-only',
              lambda c: z3.BoolVal(all(_pattern_is_safe(e[1][0].z) for e in c.events('re_compile'))))],
    raises={'ValueError': True})
match_base64.no_replay = True


# ====================================================================== channel parameters / send loop (shared)
# "peer-supplied channel parameters validated at open" and "send loop must make progress" are stated and proved in
# contracts/c08.py; the same Specs are run under C10 so that a zero maximum packet size accepted again is a C10
# violation too (clones: same contract, same code, property id C10)
def _clone_from_c08():
    import copy
    from . import c08 as K
    out = []
    for sp in (K.channel_open, K.channel_open_conf, K.flush_send_buf):
        c = copy.copy(sp)
        c.prop = PROP
        Spec.registry.append(c)
        out.append(c)
    return out


c08_clones = _clone_from_c08()


# ====================================================================== sftp.py: server-side copy-data
# (1)/(3) offset and length of a copy-data request are peer-chosen 64-bit numbers.  The synchronous copy loop must be
# bounded by the data actually present in the source file, not by the requested length: its variant is the number
# of source bytes left at the read offset (decreases by the bytes actually read), and a read that returns less than
# a full block - in particular no data - ends the loop.
def copy_read_stub(cx):
    """SFTPServer.read(file_obj, offset, size) on a regular file of ghost length L: exactly the bytes present,
    min(size, max(0, L - offset)) of them (seek + read); server errors surface as SFTPError / OSError"""
    off, size = cx.args[1].z, cx.args[2].z
    L = cx.selff('ghost_src_len').z
    cx.require('reads-a-positive-block', size >= 1)
    d = cx.fresh('bytes', 'block')
    avail = z3.If(L - off <= 0, 0, L - off)
    return [Out(ret=d, assume=[z3.Length(d.z) == z3.If(size <= avail, size, avail)], event=('read', tuple(cx.args))),
            Out(exc=VExc('SFTPError')), Out(exc=VExc('OSError'))]


copy_read_stub.modifies = ()

process_copy_data = Spec(
    PROP, 'sftp', 'SFTPServerHandler._process_copy_data', self_class='SFTPServerHandler',
    params={'packet': 'obj:SSHPacket'},
    classes=dict(PK, SFTPServerHandler={'_file_handles': 'dict[bytes,obj:FileObj]', '_server': 'obj:Server',
                                        'ghost_src_len': 'int'}, FileObj={}, Server={}),
    truthy=PACKET_TRUTHY, inline=dict(PACKET_INLINE),
    stubs={'self._server.read': copy_read_stub,
           'self._server.write': may_raise(noop('write'), 'SFTPError', 'OSError')},
    requires=lambda c: z3.And(packet_ok(c), c.old('ghost_src_len') >= 0),
    loops={1: LoopSpec(header='read_to_end or read_from_length',
                       invariant=lambda c: c.local('read_from_length') >= 0,
                       variant=lambda c: c.new('ghost_src_len') - c.local('read_from_offset'))},
    # converted into one SFTP status reply by the caller (_process_packet)
    raises={'SFTPError': True, 'PacketDecodeError': True, 'OSError': True})
process_copy_data.feasible_timeout_ms = 300


# ====================================================================== connection.py: global request waiters
# every GLOBAL_REQUEST response consumes exactly ONE waiter whatever that waiter's state (pending, cancelled by a
# caller that timed out): the list shrinks by one.  _cleanup() answers all outstanding waiters in a
# `while self._global_request_waiters:` loop whose only progress is that shrinking: (1) variant = len(list).
WAITERS = 'seq[opaque:Waiter]'
GCONN = {'SSHConnection': {'_global_request_waiters': WAITERS}}

process_global_response = Spec(
    PROP, 'connection', 'SSHConnection._process_global_response', self_class='SSHConnection',
    params=dict(pkttype='int', _pktid='int', packet='obj:SSHPacket'), classes=dict(PK, **GCONN),
    # asyncio.Future: cancelled() -> bool; set_result on a future that is not done does not raise
    stubs={'waiter.cancelled': ret('bool', 'cancelled'), 'waiter.set_result': noop('set_result')},
    modifies=['_global_request_waiters'],
    ensures=[('consumes-exactly-one-waiter-whatever-its-state', lambda c: z3.And(
        z3.Length(c.old('_global_request_waiters')) >= 1,
        c.new('_global_request_waiters') == z3.Extract(c.old('_global_request_waiters'), 1,
                                                       z3.Length(c.old('_global_request_waiters')) - 1)))],
    raises={'ProtocolError': lambda c: z3.And(z3.Length(c.old('_global_request_waiters')) == 0,
                                              c.new('_global_request_waiters') == c.old('_global_request_waiters'))})

cleanup_waiter_loop = Spec(
    PROP, 'connection', 'SSHConnection._cleanup', self_class='SSHConnection', params={'exc': 'any'},
    classes=dict(PK, **GCONN), inline={k: v for k, v in PACKET_INLINE.items() if k.endswith('__init__')},
    # the loop that fails all outstanding global requests when the connection goes away
    region=lambda fn: [st for st in fn.body if isinstance(st, _ast.While)][:1],
    stubs={'self._process_global_response': contract_stub(lambda: process_global_response)},
    loops={n: LoopSpec(header='self._global_request_waiters', modifies=['_global_request_waiters'],
                       invariant=lambda c: z3.BoolVal(True),
                       variant=lambda c: z3.Length(c.new('_global_request_waiters'))) for n in (1, 2, 3, 4)},
    ensures=[('no-waiter-left', lambda c: z3.Length(c.new('_global_request_waiters')) == 0)],
    raises={})
