"""C06 (handler side) — the role / phase checks of the transport and authentication handlers that the gate of
SSHConnection._recv_packet (contracts/c06.py) lets through, plus the supporting class invariants

    A1   _auth is not None      =>  _recv_encryption is not None
    A2   _auth_complete         =>  _recv_encryption is not None

which the gate proof assumes (c06.py, recv_packet_requires) and which are proved here as postconditions of the
writers of _auth / _auth_complete / _recv_encryption that are under contract in this module.

Every contract is written from the property text ("a message only the other role may send never takes effect",
"when strict key exchange is negotiated the peer's KEXINIT must be its first packet", "a client accepts an
authentication-success message only while a request of its own is outstanding"), RFC 4253 7/10, RFC 4252 5, RFC 8308
2.4 and OpenSSH PROTOCOL 1.10 (strict kex): "never takes effect" = the activation ends in an exception (the caller
disconnects) and none of the handler's effects (calls to collaborators, writes to the phase fields) happened.

Nothing is exported by `from .c06_handlers import *`: the Specs register themselves.
"""
import ast
import z3
from pyvc.contracts import *
from pyvc.engine import Out, LoopSpec
from pyvc.values import *
from pyvc.builtins_model import unbe
from .common import PACKET_CLASSES, PACKET_INLINE, PACKET_TRUTHY, ROLE_STUBS

__all__ = ['extra_checks']       # c06.py has no extra_checks of its own: the bounded stand-in below becomes the sidecar's

ASSUMPTIONS_HANDLERS = [
    'handlers: packet objects arrive from _recv_packet with the type byte consumed (_idx == 1) and a consistent '
    'length field (SSHPacket.__init__ + get_byte)',
    'A1/A2 writers under contract: _process_newkeys (_recv_encryption), _process_userauth_success (_auth, '
    '_auth_complete), _process_userauth_request (_auth := None), _finish_userauth (_auth), '
    'SSHClientConnection.try_next_auth (_auth); every call site of the last two that is under contract carries the '
    'obligation "receive encryption is set".  Writers NOT under contract here: SSHConnection.__init__ (all three '
    'fields start as None / False), _cleanup / connection_lost (teardown: _auth cancelled, nothing dispatched '
    'afterwards).  send_userauth_success (server side, sets _auth_complete, clears _auth) is under contract with '
    'the precondition "receive keys exist"; its call site in _finish_userauth carries that as an obligation, its '
    'other call site (auth.py ServerAuth.send_success) is not under contract: it runs inside an auth method handler, '
    'i.e. behind a message 50..79 that the gate admits only with receive encryption.  _recv_encryption is never '
    'reset to None (writer scan: __init__ and _process_newkeys only).  Writer scan of the three fields (grep '
    '`self._auth =`, `self._auth_complete =`, `self._recv_encryption =` in connection.py): __init__, '
    '_process_newkeys, send_userauth_success, _process_userauth_request, _finish_userauth, _process_userauth_success, '
    'try_next_auth, _cleanup, send_userauth_failure (`_auth = None` only: it can only make the antecedent of A1 '
    'false) - all listed here',
    '_wait == "auth_methods" only on client connections (the value comes from the constructor argument `wait`; it is '
    'passed only by get_server_auth_methods(), which builds an SSHClientConnection)',
]


# ------------------------------------------------------------------------------------------------ shared shapes
FIELDS = {
    '_is_client': 'bool',
    '_kex': 'opt[obj:Kex]', '_recv_encryption': 'opt[obj:Encryption]', '_next_recv_encryption': 'opt[obj:Encryption]',
    '_recv_blocksize': 'int', '_recv_macsize': 'int', '_next_recv_blocksize': 'int', '_next_recv_macsize': 'int',
    '_decompressor': 'opt[obj:Decompressor]', '_next_decompressor': 'opt[obj:Decompressor]',
    '_decompress_after_auth': 'bool', '_next_decompress_after_auth': 'bool',
    '_auth': 'opt[obj:Auth]', '_auth_complete': 'bool', '_auth_final': 'bool', '_auth_in_progress': 'bool',
    '_can_recv_ext_info': 'bool', '_can_send_ext_info': 'bool', '_strict_kex': 'bool', '_recv_seq': 'int',
    '_kexinit_sent': 'bool', '_session_id': 'bytes', '_client_kexinit': 'bytes', '_server_kexinit': 'bytes',
    '_gss': 'opt[obj:GSS]', '_gss_kex': 'bool', '_kex_algs': 'seq[bytes]', '_server_host_key_algs': 'seq[bytes]',
    '_next_service': 'opt[bytes]', '_username': 'str', '_owner': 'opt[obj:Owner]', '_server_version': 'bytes',
    '_wait': 'opt[str]', '_waiter': 'opt[obj:Waiter]', '_auth_methods': 'seq[bytes]', '_preferred_auth': 'seq[bytes]',
    '_auth_was_trivial': 'bool', '_disable_trivial_auth': 'bool', '_agent': 'opt[obj:Agent]',
    '_acceptor': 'opt[opaque:Callable]', '_error_handler': 'opt[opaque:Callable]',
    '_key_options': 'any', '_cert_options': 'any',
}
CLASSES = dict(PACKET_CLASSES, SSHConnection=FIELDS, SSHClientConnection=FIELDS, Kex={}, Encryption={},
               Decompressor={}, Auth={}, GSS={'mechs': 'seq[bytes]'}, Owner={}, Waiter={}, Agent={}, Task={})
PARAMS = dict(_pkttype='int', _pktid='int', packet='obj:SSHPacket')
PHASE_FIELDS = ['_auth_complete', '_auth_in_progress', '_auth_final', '_can_recv_ext_info', '_strict_kex',
                '_next_service', '_recv_blocksize', '_recv_macsize', '_kexinit_sent']
REF_FIELDS = ['_auth', '_recv_encryption', '_next_recv_encryption', '_kex']


def pkt(c, new=False):
    return (c.new_state if new else c.old_state).rec(c.argv('packet')).fields


def pkt_wf(c):
    p = pkt(c)
    return z3.And(p['_idx'].z == 1, p['_len'].z == z3.Length(p['_packet'].z))


def is_set(c, name, old=True):
    v = c.oldv(name) if old else c.newv(name)
    if v is VNone:
        return z3.BoolVal(False)
    if isinstance(v, VOpt):
        return z3.Not(v.isnone)
    return z3.BoolVal(True)


def same_ref(c, name):
    """optional object field unchanged (same None-ness, same object)"""
    a, b = c.oldv(name), c.newv(name)
    return c.eq(a, b)


def A1A2(c, old=True):
    enc = is_set(c, '_recv_encryption', old)
    ac = c.old('_auth_complete') if old else c.new('_auth_complete')
    return z3.And(z3.Implies(is_set(c, '_auth', old), enc), z3.Implies(ac, enc))


def inv_kept(c):
    """A1 and A2 hold after the activation (normal or exceptional) whenever they held before"""
    return z3.Implies(A1A2(c), A1A2(c, old=False))


def phase_unchanged(c, *extra):
    conj = [c.eq(c.oldv(f), c.newv(f)) for f in PHASE_FIELDS + REF_FIELDS + list(extra)]
    return z3.And(conj)


def no_calls(c, *names):
    return z3.BoolVal(not any(c.calls(n) for n in names))


def is_client(c):
    return c.old('_is_client')


def total(fn):
    """a clause that cannot be evaluated on a path (a call it talks about is missing) is false there"""
    def wrapped(c):
        try:
            return fn(c)
        except (IndexError, KeyError, AttributeError, TypeError):
            return z3.BoolVal(False)
    return wrapped


def finish(sp):
    sp.ensures = [(l_, total(f_)) for l_, f_ in sp.ensures]
    sp.always = [(l_, total(f_)) for l_, f_ in sp.always]
    sp.raises = {k_: (v_ if v_ is True else total(v_)) for k_, v_ in sp.raises.items()}
    return sp


class HSpec(Spec):
    """region contracts get their own obligation names"""
    @property
    def name(self):
        t = getattr(self, 'tag', None)
        return f'{self.prop}.{self.module}.{self.qualname}' + (f'[{t}]' if t else '')


def first_string(c):
    """first `string` field of the payload after the type byte"""
    P = pkt(c)['_packet'].z
    return z3.Extract(P, 5, unbe(z3.Extract(P, 1, 4)))


# ------------------------------------------------------------------------------------------------ KEXINIT
def ki_cut0(fn):
    """index of the first statement after the parsing block of _process_kexinit (after packet.check_end())"""
    for i, st_ in enumerate(fn.body):
        if isinstance(st_, ast.Expr) and isinstance(st_.value, ast.Call) and \
                ast.unparse(st_.value.func) == 'packet.check_end':
            return i + 1
    raise Unsupported('_process_kexinit: no packet.check_end() statement (cut point of the region contracts)')


def ki_cut(fn):
    """index of the statement that starts the negotiation: the first assignment to `kex_alg`"""
    for i, st_ in enumerate(fn.body):
        if isinstance(st_, ast.Assign) and any(isinstance(t, ast.Name) and t.id == 'kex_alg' for t in st_.targets):
            return i
    raise Unsupported('_process_kexinit: no assignment to kex_alg (cut point of the region contracts)')


KI_LOCALS = ['peer_kex_algs', 'peer_host_key_algs', 'enc_algs_cs', 'enc_algs_sc', 'mac_algs_cs', 'mac_algs_sc',
             'cmp_algs_cs', 'cmp_algs_sc']


def ki_setup(ex, st):
    """[record] starts after the parsing block: the name-list locals are arbitrary lists"""
    for n in KI_LOCALS:
        st.env[n] = ex.fresh(st, 'seq[bytes]', n)
    st.env['first_kex_follows'] = ex.fresh(st, 'bool', 'first_kex_follows')


def ki_send_kexinit(cx):
    """_send_kexinit (own contract: c11_kexinit.py): records and sends OUR KEXINIT; it does not touch the phase flags
    this module talks about"""
    own = '_client_kexinit' if z3.is_true(z3.simplify(cx.selff('_is_client').z)) else '_server_kexinit'
    return [Out(sets={own: cx.fresh('bytes', 'own_kexinit')}, event=('send_kexinit', ()))]


ki_send_kexinit.modifies = ('_client_kexinit', '_server_kexinit')

KI_STUBS = dict(ROLE_STUBS, **{'self._send_kexinit': ki_send_kexinit, 'self._gss.reset': noop(),
                               'expand_kex_algs': ret('seq[bytes]', 'local_kex_algs')})
KI_CASES = [('client', {'_is_client': True, '_gss_kex': False}), ('server', {'_is_client': False, '_gss_kex': False})]
KI_INLINE = dict(PACKET_INLINE, **{'SSHPacket.get_namelist': ('packet', 'SSHPacket.get_namelist')})


def peer_marker(c):
    """the peer's KEXINIT carries the strict-kex marker meant for our role (kex-strict-c from a client, -s from a
    server; OpenSSH PROTOCOL 1.10)"""
    from specs.seqs import member_z
    name = b'kex-strict-s-v00@openssh.com' if z3.is_true(z3.simplify(c.old('_is_client'))) \
        else b'kex-strict-c-v00@openssh.com'
    return member_z(c.arg('peer_kex_algs'), bytes_const(name))


def first_exchange(c):
    return z3.Length(c.old('_session_id')) == 0


def strict_violation(c):
    """strict kex is in force after this KEXINIT, the initial exchange is still running (no receive keys yet) and the
    KEXINIT was not the peer's first packet"""
    return z3.And(c.new('_strict_kex'), z3.Not(is_set(c, '_recv_encryption')), c.old('_recv_seq') != 0)


kexinit_strict = finish(HSpec(
    'C06', 'connection', 'SSHConnection._process_kexinit', self_class='SSHConnection', params=PARAMS,
    classes=CLASSES, truthy=PACKET_TRUTHY, inline=KI_INLINE, stubs=KI_STUBS, cases=KI_CASES, setup=ki_setup,
    region=lambda fn: fn.body[ki_cut0(fn):ki_cut(fn)],
    ensures=[
        # the region ends where the negotiation starts: reaching that point means the KEXINIT was accepted
        ('strict-kex:KEXINIT-accepted-only-as-first-packet', lambda c: z3.Not(strict_violation(c))),
    ],
    always=[
        # strict kex is decided by the peer's marker in THIS KEXINIT, and only in the first exchange
        ('strict-kex-negotiated-only-in-first-exchange-from-peer-marker', lambda c: z3.And(
            z3.Implies(c.new('_strict_kex'), z3.Or(c.old('_strict_kex'), z3.And(first_exchange(c), peer_marker(c)))),
            z3.Implies(z3.And(first_exchange(c), peer_marker(c)), c.new('_strict_kex')),
            z3.Implies(c.old('_strict_kex'), c.new('_strict_kex')))),
        # a violating KEXINIT never takes effect: the exception comes before our KEXINIT is sent / the flag flips
        ('strict-violation-is-fatal-and-inert', lambda c: z3.Implies(strict_violation(c), z3.And(
            z3.BoolVal(c.raised == 'ProtocolError' and not c.events('send_kexinit')),
            c.new('_kexinit_sent') == c.old('_kexinit_sent')))),
        ('A1,A2-preserved', inv_kept),
    ],
    raises={'ProtocolError': strict_violation}))
kexinit_strict.tag = 'record'
kexinit_strict.no_replay = True      # a region of the function cannot be started natively


# a second KEXINIT while an exchange is running: checked before the parsing block starts
def first_check_region(fn):
    """the statements before the parsing block (first assignment): the `exchange already running` check"""
    for i, st_ in enumerate(fn.body):
        if isinstance(st_, ast.Assign):
            return fn.body[:i]
    raise Unsupported('_process_kexinit: no parsing block')


kexinit_in_progress = finish(HSpec(
    'C06', 'connection', 'SSHConnection._process_kexinit', self_class='SSHConnection', params=PARAMS,
    classes=CLASSES, truthy=PACKET_TRUTHY, inline=KI_INLINE, stubs=KI_STUBS,
    requires=pkt_wf, region=first_check_region,
    ensures=[('parsing-starts-only-when-no-exchange-is-running', lambda c: z3.Not(is_set(c, '_kex')))],
    always=[('KEXINIT-during-an-exchange-is-fatal-and-inert', lambda c: z3.Implies(is_set(c, '_kex'), z3.And(
        z3.BoolVal(c.raised == 'ProtocolError' and not c.events('send_kexinit')), pkt(c, new=True)['_idx'].z == 1,
        phase_unchanged(c, '_client_kexinit', '_server_kexinit'))))],
    raises={'ProtocolError': lambda c: is_set(c, '_kex')}))
kexinit_in_progress.tag = 'already-running'
kexinit_in_progress.no_replay = True


# ------------------------------------------------------------------------------------------------ NEWKEYS
def nk_switched(c):
    staged, cur = c.oldv('_next_recv_encryption'), c.newv('_recv_encryption')
    same_obj = isinstance(staged, VOpt) and isinstance(staged.val, VRef) and \
        ((isinstance(cur, VOpt) and isinstance(cur.val, VRef) and cur.val.addr == staged.val.addr) or
         (isinstance(cur, VRef) and cur.addr == staged.val.addr))
    return z3.And(is_set(c, '_next_recv_encryption'), z3.BoolVal(same_obj), is_set(c, '_recv_encryption', old=False),
                  z3.Not(is_set(c, '_next_recv_encryption', old=False)),
                  c.new('_recv_blocksize') == c.old('_next_recv_blocksize'),
                  c.new('_recv_macsize') == c.old('_next_recv_macsize'),
                  c.eq(c.newv('_decompressor'), c.oldv('_next_decompressor')),
                  c.new('_decompress_after_auth') == c.old('_next_decompress_after_auth'),
                  c.new('_can_recv_ext_info'))


process_newkeys = finish(Spec(
    'C06', 'connection', 'SSHConnection._process_newkeys', self_class='SSHConnection', params=PARAMS,
    classes=CLASSES, truthy=PACKET_TRUTHY, inline=dict(PACKET_INLINE), requires=pkt_wf,
    ensures=[('receive-keys-switch-to-the-staged-object;stage-cleared;EXT_INFO-window-opens', nk_switched)],
    always=[('NEWKEYS-without-staged-keys-is-fatal-and-inert', lambda c: z3.Implies(
        z3.Not(is_set(c, '_next_recv_encryption')),
        z3.And(z3.BoolVal(c.raised is not None), phase_unchanged(c), same_ref(c, '_decompressor')))),
        ('A1,A2-preserved', inv_kept)],
    raises={'ProtocolError': lambda c: z3.Not(is_set(c, '_next_recv_encryption')),
            'PacketDecodeError': lambda c: phase_unchanged(c)}))


# ------------------------------------------------------------------------------------------------ SERVICE_REQUEST / ACCEPT
def svc_ok(c, want_client):
    role = is_client(c) if want_client else z3.Not(is_client(c))
    ns = c.oldv('_next_service')
    return z3.And(role, is_set(c, '_recv_encryption'), z3.Not(ns.isnone), ns.val.z == first_string(c))


def svc_request_post(c):
    sp = c.calls('send_packet')
    svc = first_string(c)
    from pyvc.builtins_model import be
    return z3.And(svc_ok(c, want_client=False), z3.BoolVal(len(sp) == 1), sp[0]['args'][0].z == 6,
                  sp[0]['args'][1].z == z3.Concat(be(z3.IntVal(4), z3.Length(svc)), svc),
                  z3.Not(is_set(c, '_next_service', old=False)))


SVC_EFFECTS = ('send_packet', '_send_deferred_packets', 'begin_auth', 'try_next_auth')

process_service_request = finish(Spec(
    'C06', 'connection', 'SSHConnection._process_service_request', self_class='SSHConnection', params=PARAMS,
    classes=CLASSES, truthy=PACKET_TRUTHY, inline=dict(PACKET_INLINE), requires=pkt_wf,
    stubs=dict(ROLE_STUBS, **{'self.send_packet': noop('send_packet'),
                              'self._send_deferred_packets': noop('flush_deferred')}),
    ensures=[('accepted-only-on-a-server-with-receive-keys-for-the-expected-service;one-SERVICE_ACCEPT',
              svc_request_post)],
    always=[('otherwise-fatal-and-inert', lambda c: z3.Implies(z3.Not(svc_ok(c, want_client=False)), z3.And(
        z3.BoolVal(c.raised is not None), no_calls(c, *SVC_EFFECTS), phase_unchanged(c)))),
        ('A1,A2-preserved', inv_kept)],
    raises={'ProtocolError': lambda c: z3.Or(is_client(c), z3.Not(is_set(c, '_recv_encryption'))),
            'ServiceNotAvailable': lambda c: z3.And(z3.Not(is_client(c)), is_set(c, '_recv_encryption'),
                                                    z3.Not(svc_ok(c, want_client=False))),
            'PacketDecodeError': True}))


def try_next_auth_stub(cx):
    """SSHClientConnection.try_next_auth() writes _auth: every call site must already have receive keys (A1)"""
    cx.require('A1:receive-encryption-set-before-_auth-is-written',
               z3.Not(cx.selff('_recv_encryption').isnone) if isinstance(cx.selff('_recv_encryption'), VOpt)
               else z3.BoolVal(cx.selff('_recv_encryption') is not VNone))
    return [Out(sets={'_auth': cx.fresh('opt[obj:Auth]', 'next_auth')}, event=('try_next_auth', ()))]


try_next_auth_stub.modifies = ('_auth',)

process_service_accept = finish(Spec(
    'C06', 'connection', 'SSHConnection._process_service_accept', self_class='SSHConnection', params=PARAMS,
    classes=CLASSES, truthy=PACKET_TRUTHY, inline=dict(PACKET_INLINE), requires=pkt_wf,
    stubs=dict(ROLE_STUBS, **{'self._owner.begin_auth': noop('begin_auth'), '*.try_next_auth': try_next_auth_stub}),
    ensures=[('accepted-only-on-a-client-with-receive-keys-for-the-requested-service', lambda c: z3.And(
        svc_ok(c, want_client=True), z3.Not(is_set(c, '_next_service', old=False))))],
    always=[('otherwise-fatal-and-inert', lambda c: z3.Implies(z3.Not(svc_ok(c, want_client=True)), z3.And(
        z3.BoolVal(c.raised is not None), no_calls(c, *SVC_EFFECTS), phase_unchanged(c)))),
        ('A1,A2-preserved', inv_kept)],
    raises={'ProtocolError': lambda c: z3.Or(z3.Not(is_client(c)), z3.Not(is_set(c, '_recv_encryption'))),
            'ServiceNotAvailable': lambda c: z3.And(is_client(c), is_set(c, '_recv_encryption'),
                                                    z3.Not(svc_ok(c, want_client=True))),
            'PacketDecodeError': True}))


# ------------------------------------------------------------------------------------------------ EXT_INFO (RFC 8308 2.4)
def ext_info_region(fn):
    """everything up to and including the first `if`: the phase check precedes every effect of the handler"""
    for i, st_ in enumerate(fn.body):
        if isinstance(st_, ast.If):
            return fn.body[:i + 1]
    raise Unsupported('_process_ext_info: no phase check')


process_ext_info = finish(HSpec(
    'C06', 'connection', 'SSHConnection._process_ext_info', self_class='SSHConnection', params=PARAMS,
    classes=CLASSES, truthy=PACKET_TRUTHY, inline=dict(PACKET_INLINE), requires=pkt_wf, region=ext_info_region,
    ensures=[('EXT_INFO-processed-only-right-after-NEWKEYS', lambda c: c.old('_can_recv_ext_info'))],
    always=[('check-precedes-every-effect', lambda c: z3.And(phase_unchanged(c), pkt(c, new=True)['_idx'].z == 1)),
            ('A1,A2-preserved', inv_kept)],
    raises={'ProtocolError': lambda c: z3.Not(c.old('_can_recv_ext_info'))}))
process_ext_info.tag = 'phase-check'
process_ext_info.no_replay = True


# ------------------------------------------------------------------------------------------------ USERAUTH_REQUEST
def finish_userauth_stub(cx):
    """the coroutine that will write _auth: created only when receive keys exist (A1)"""
    enc = cx.selff('_recv_encryption')
    cx.require('A1:receive-encryption-set-before-_auth-is-written',
               z3.Not(enc.isnone) if isinstance(enc, VOpt) else z3.BoolVal(enc is not VNone))
    return [Out(ret=cx.fresh('opaque:Coroutine', 'finish_userauth'), event=('finish_userauth', tuple(cx.args)))]


finish_userauth_stub.modifies = ()
UAR_EFFECTS = ('_finish_userauth', 'create_task', 'cancel')

process_userauth_request = finish(Spec(
    'C06', 'connection', 'SSHConnection._process_userauth_request', self_class='SSHConnection', params=PARAMS,
    classes=CLASSES, truthy=PACKET_TRUTHY, inline=dict(PACKET_INLINE),
    # the gate dispatches type 50 only with receive keys (gate-sound in c06.py: t > 49 => enc)
    requires=lambda c: z3.And(pkt_wf(c), is_set(c, '_recv_encryption')),
    stubs=dict(ROLE_STUBS, **{'saslprep': may_raise(ret('str', 'prepped'), 'SASLPrepError'),
                              'self._auth.cancel': noop('auth_cancel'),
                              'self._finish_userauth': finish_userauth_stub,
                              'self.create_task': ret('obj:Task', 'task', event='create_task')}),
    ensures=[('request-handled-only-on-a-server', lambda c: z3.Not(is_client(c))),
             ('after-success-requests-are-ignored-without-effect', lambda c: z3.Implies(
                 c.old('_auth_complete'), z3.And(no_calls(c, *UAR_EFFECTS), phase_unchanged(c),
                                                 z3.Not(c.old('_auth_final')))))],
    always=[('USERAUTH_REQUEST-on-a-client-is-fatal-and-inert', lambda c: z3.Implies(is_client(c), z3.And(
        z3.BoolVal(c.raised is not None), no_calls(c, *UAR_EFFECTS), phase_unchanged(c),
        c.new('_username') == c.old('_username')))),
        ('A1,A2-preserved', inv_kept)],
    raises={'ProtocolError': lambda c: z3.Or(is_client(c), z3.And(c.old('_auth_complete'), c.old('_auth_final'))),
            'IllegalUserName': lambda c: no_calls(c, *UAR_EFFECTS), 'ServiceNotAvailable': lambda c: no_calls(c, *UAR_EFFECTS),
            'PacketDecodeError': lambda c: no_calls(c, *UAR_EFFECTS)}))


# ------------------------------------------------------------------------------------------------ USERAUTH_SUCCESS / FAILURE
US_STUBS = dict(ROLE_STUBS, **{
    'self._waiter.cancelled': ret('bool', 'cancelled'), 'self._waiter.set_result': noop('waiter_set'),
    'auth.auth_succeeded': noop('auth_succeeded'), 'auth.auth_failed': noop('auth_failed'),
    'auth.cancel': noop('auth_cancel'), 'self._agent.close': noop('agent_close'),
    'self.set_extra_info': noop('set_extra_info'), 'self._cancel_login_timer': noop('cancel_login_timer'),
    'self._send_deferred_packets': noop('flush_deferred'), 'self._set_keepalive_timer': noop('keepalive'),
    'self._owner.auth_completed': noop('auth_completed'), 'self._acceptor': ret('any', 'acceptor_result',
                                                                                event='acceptor'),
    'self.create_task': ret('obj:Task', 'task', event='create_task'),
    '*.try_next_auth': try_next_auth_stub,
})
US_EFFECTS = ('set_result', 'auth_succeeded', 'auth_failed', 'cancel', 'close', 'set_extra_info',
              '_cancel_login_timer', '_send_deferred_packets', '_set_keepalive_timer', 'auth_completed',
              '_acceptor', 'create_task', 'try_next_auth')


def outstanding(c):
    """this is a client and an authentication request of its own is outstanding (CVE-2023-46445)"""
    return z3.And(is_client(c), is_set(c, '_auth'))


def us_completed(c):
    """authentication completes: exactly the state change RFC 4252 5.1 describes, or only the waiter is released
    (get_server_auth_methods), or nothing"""
    done = z3.And(c.new('_auth_complete'), z3.Not(c.old('_auth_complete')))     # the transition itself
    return z3.And(outstanding(c),
                  z3.Implies(done, z3.And(z3.Not(is_set(c, '_auth', old=False)), z3.Not(c.new('_auth_in_progress')),
                                          z3.Not(c.new('_can_recv_ext_info')),
                                          z3.BoolVal(len(c.calls('auth_succeeded')) == 1 and
                                                     len(c.calls('_send_deferred_packets')) == 1))),
                  z3.Implies(z3.Not(c.new('_auth_complete')), z3.And(c.new('_auth_complete') == c.old('_auth_complete'),
                                                  z3.BoolVal(not c.calls('auth_succeeded') and
                                                             not c.calls('_send_deferred_packets')))))


process_userauth_success = finish(Spec(
    'C06', 'connection', 'SSHConnection._process_userauth_success', self_class='SSHConnection', params=PARAMS,
    classes=CLASSES, truthy=PACKET_TRUTHY, inline=dict(PACKET_INLINE), stubs=US_STUBS,
    requires=lambda c: z3.And(pkt_wf(c), A1A2(c)),
    ensures=[('SUCCESS-accepted-only-while-an-own-request-is-outstanding', us_completed)],
    always=[('unsolicited-SUCCESS-is-fatal-and-inert', lambda c: z3.Implies(z3.Not(outstanding(c)), z3.And(
        z3.BoolVal(c.raised is not None), no_calls(c, *US_EFFECTS), phase_unchanged(c)))),
        ('auth_complete-is-set-only-by-an-accepted-SUCCESS', lambda c: z3.Implies(
            z3.And(c.new('_auth_complete'), z3.Not(c.old('_auth_complete'))),
            z3.And(outstanding(c), z3.BoolVal(c.raised is None)))),
        ('A1,A2-hold-afterwards', lambda c: A1A2(c, old=False))],
    raises={'ProtocolError': lambda c: z3.Not(outstanding(c)),
            'PermissionDenied': lambda c: z3.And(outstanding(c), c.old('_auth_was_trivial'),
                                                 c.old('_disable_trivial_auth'),
                                                 c.new('_auth_complete') == c.old('_auth_complete'),
                                                 no_calls(c, *US_EFFECTS)),
            'PacketDecodeError': lambda c: z3.And(no_calls(c, *US_EFFECTS), phase_unchanged(c))}))
process_userauth_success.no_replay = True     # _acceptor is a plain attribute called as a function


def waiting_for_methods(c):
    w = c.oldv('_wait')
    return z3.And(z3.Not(w.isnone), w.val.z == z3.StringVal('auth_methods'))


process_userauth_failure = finish(Spec(
    'C06', 'connection', 'SSHConnection._process_userauth_failure', self_class='SSHConnection', params=PARAMS,
    classes=CLASSES, truthy=PACKET_TRUTHY, stubs=US_STUBS,
    inline=dict(PACKET_INLINE, **{'SSHPacket.get_namelist': ('packet', 'SSHPacket.get_namelist')}),
    # _wait == 'auth_methods' only on clients (constructor argument, see ASSUMPTIONS_HANDLERS)
    requires=lambda c: z3.And(pkt_wf(c), A1A2(c), z3.Implies(waiting_for_methods(c), is_client(c))),
    ensures=[('FAILURE-accepted-only-while-an-own-request-is-outstanding(or by get_server_auth_methods)',
              lambda c: z3.Or(outstanding(c), z3.And(is_client(c), waiting_for_methods(c),
                                                     no_calls(c, 'auth_failed', 'auth_succeeded', 'try_next_auth')))),
             ('next-method-tried-only-with-an-outstanding-request', lambda c: z3.Implies(
                 z3.BoolVal(bool(c.calls('try_next_auth') or c.calls('auth_failed') or c.calls('auth_succeeded'))),
                 outstanding(c)))],
    always=[('FAILURE-on-a-server-is-fatal', lambda c: z3.Implies(z3.Not(is_client(c)), z3.And(
        z3.BoolVal(c.raised is not None), no_calls(c, 'auth_failed', 'auth_succeeded', 'try_next_auth',
                                                   'set_result'),
        phase_unchanged(c)))),
        ('A1,A2-hold-afterwards', lambda c: A1A2(c, old=False))],
    raises={'ProtocolError': lambda c: z3.And(z3.Not(outstanding(c)), no_calls(c, 'try_next_auth', 'auth_failed')),
            'PacketDecodeError': lambda c: z3.And(no_calls(c, *US_EFFECTS), phase_unchanged(c))}))
process_userauth_failure.tags = ['split-qf']


# ------------------------------------------------------------------------------------------------ USERAUTH_BANNER
process_userauth_banner = finish(Spec(
    'C06', 'connection', 'SSHConnection._process_userauth_banner', self_class='SSHConnection', params=PARAMS,
    classes=CLASSES, truthy=PACKET_TRUTHY, inline=dict(PACKET_INLINE), requires=pkt_wf,
    stubs=dict(ROLE_STUBS, **{'self._decode_utf8': may_raise(ret('str', 'msg'), 'UnicodeDecodeError'),
                              '*.auth_banner_received': noop('banner')}),
    ensures=[('banner-delivered-only-on-a-client', lambda c: z3.And(is_client(c),
                                                                    z3.BoolVal(len(c.calls('auth_banner_received')) == 1)))],
    always=[('BANNER-on-a-server-is-fatal-and-inert', lambda c: z3.Implies(z3.Not(is_client(c)), z3.And(
        z3.BoolVal(c.raised is not None), no_calls(c, 'auth_banner_received'), phase_unchanged(c)))),
        ('A1,A2-preserved', inv_kept)],
    raises={'ProtocolError': lambda c: no_calls(c, 'auth_banner_received'),
            'PacketDecodeError': lambda c: no_calls(c, 'auth_banner_received'),
            'AttributeError': lambda c: z3.And(is_client(c), z3.Not(is_set(c, '_owner')))}))


# the parent sidecar (c06.py) collects the assumptions that go to the evidence file
import sys as _sys
_parent = _sys.modules.get('contracts.c06')
if _parent is not None and hasattr(_parent, 'ASSUMPTIONS'):
    for _a in ASSUMPTIONS_HANDLERS:
        if _a not in _parent.ASSUMPTIONS:
            _parent.ASSUMPTIONS.append(_a)


# ------------------------------------------------------------------------------------------------ remaining writers of _auth
# (A1 only needs: receive keys exist when they run, and they never clear them)
def enc_kept(c):
    return z3.And(is_set(c, '_recv_encryption', old=False), A1A2(c, old=False))


def lookup_auth_stub(cx):
    return [Out(ret=cx.fresh('opt[obj:Auth]', 'looked_up_auth'), event=('lookup_auth', ()))]


lookup_auth_stub.modifies = ()
W_REQUIRES = lambda c: z3.And(is_set(c, '_recv_encryption'), A1A2(c))      # noqa: E731

try_next_auth = finish(Spec(
    'C06', 'connection', 'SSHClientConnection.try_next_auth', self_class='SSHClientConnection',
    params=dict(next_method='bool'), classes=dict(CLASSES, SSHClientConnection=dict(FIELDS, _host='str')),
    stubs={'self._auth.cancel': noop('auth_cancel'), 'lookup_client_auth': lookup_auth_stub,
           'self._force_close': noop('force_close')},
    loops={1: LoopSpec(invariant=lambda c: enc_kept(c), modifies=['_auth', '_auth_methods'])},
    # call sites (_process_service_accept, _process_userauth_failure, client auth objects) run behind messages the
    # gate admits only with receive keys; the two under contract here carry that as a pre-at-call obligation
    requires=W_REQUIRES,
    always=[('A1,A2-hold-afterwards;receive-keys-kept', enc_kept),
            ('auth_complete-untouched', lambda c: c.new('_auth_complete') == c.old('_auth_complete'))],
    raises={'IndexError': True}))

finish_userauth = finish(Spec(
    'C06', 'connection', 'SSHConnection._finish_userauth', self_class='SSHConnection',
    params=dict(begin_auth='bool', method='bytes', packet='obj:SSHPacket'), classes=CLASSES, truthy=PACKET_TRUTHY,
    stubs={'*.reload_config': ret('any', 'reloaded'), '*.begin_auth': ret('any', 'begin_auth_result'),
           'self.send_userauth_success': ret('any', 'sent_success', modifies=['_auth_complete', '_auth_in_progress']),
           'self._auth.cancel': noop('auth_cancel'), 'lookup_server_auth': lookup_auth_stub},
    falsy_sorts={'Any'},
    # created only by _process_userauth_request (pre-at-call there: receive keys exist); _recv_encryption is never
    # cleared, so it still holds when the task runs
    requires=W_REQUIRES,
    always=[('A1,A2-hold-afterwards;receive-keys-kept', enc_kept)]))
finish_userauth.no_replay = True       # coroutine with awaited collaborators


# ------------------------------------------------------------------------------------------------ send_userauth_success
# (server side writer of _auth_complete: A2 needs receive keys at that moment; its call site in _finish_userauth
# carries that as a pre-at-call obligation, the other one - auth.py ServerAuth.send_success - runs inside an auth
# method handler, i.e. behind a message 50..79 that the gate admits only with receive keys)
def send_userauth_success_stub(cx):
    enc = cx.selff('_recv_encryption')
    cx.require('A2:receive-encryption-set-before-_auth_complete-is-written',
               z3.Not(enc.isnone) if isinstance(enc, VOpt) else z3.BoolVal(enc is not VNone))
    decl = cx.ex.spec.classes[cx.st.rec(cx.ex.self_ref).cls]
    return [Out(ret=cx.fresh('any', 'sent_success'),
                sets={f: cx.fresh(decl[f], 'mod_' + f) for f in ('_auth_complete', '_auth_in_progress')},
                event=('send_userauth_success', ()))]


send_userauth_success_stub.modifies = ('_auth_complete', '_auth_in_progress')
finish_userauth.stubs['self.send_userauth_success'] = send_userauth_success_stub

send_userauth_success = finish(Spec(
    'C06', 'connection', 'SSHConnection.send_userauth_success', self_class='SSHConnection', classes=CLASSES,
    truthy=PACKET_TRUTHY, falsy_sorts={'Any'},
    stubs=dict(US_STUBS, **{'self.send_packet': noop('send_packet'), 'self._owner.auth_completed': ret('any', 'completed'),
                            '*.send_server_host_keys': noop('host_keys')}),
    requires=W_REQUIRES,
    always=[('A1,A2-hold-afterwards;receive-keys-kept', enc_kept)]))
send_userauth_success.no_replay = True       # coroutine with awaited collaborators; _acceptor is a plain attribute


# ------------------------------------------------------------------------------------------------ IGNORE / UNIMPLEMENTED / DEBUG
# "... or ignored and the session proceeds exactly as it would have without it" (RFC 4253 11.1-11.4): these three
# handlers write no connection state at all and call nobody, except that DEBUG hands the text to the owner's
# debug_msg_received callback (application code; a malformed text is a ProtocolError before that)
def inert(c, *allowed):
    return z3.And(phase_unchanged(c, '_username', '_session_id', '_auth_was_trivial'),
                  z3.BoolVal(all(x['key'].endswith(tuple(allowed)) for x in c.calls()) if allowed else not c.calls()))


process_ignore = finish(Spec(
    'C06', 'connection', 'SSHConnection._process_ignore', self_class='SSHConnection', params=PARAMS,
    classes=CLASSES, truthy=PACKET_TRUTHY, inline=dict(PACKET_INLINE), requires=pkt_wf,
    always=[('IGNORE-changes-nothing', inert)], raises={'PacketDecodeError': True}))

process_unimplemented = finish(Spec(
    'C06', 'connection', 'SSHConnection._process_unimplemented', self_class='SSHConnection', params=PARAMS,
    classes=CLASSES, truthy=PACKET_TRUTHY, inline=dict(PACKET_INLINE), requires=pkt_wf,
    always=[('UNIMPLEMENTED-changes-nothing', inert)], raises={'PacketDecodeError': True}))

process_debug = finish(Spec(
    'C06', 'connection', 'SSHConnection._process_debug', self_class='SSHConnection', params=PARAMS,
    classes=CLASSES, truthy=PACKET_TRUTHY, inline=dict(PACKET_INLINE), requires=pkt_wf,
    stubs={'self._decode_utf8': may_raise(ret('str', 'msg'), 'UnicodeDecodeError'),
           '*.debug_msg_received': noop('debug_msg')},
    always=[('DEBUG-changes-nothing(only-the-owner-callback-sees-it)', lambda c: inert(c, '_decode_utf8',
                                                                                       'debug_msg_received')),
            ('malformed-DEBUG-never-reaches-the-owner', lambda c: z3.BoolVal(
                c.raised is None or not c.calls('debug_msg_received')))],
    raises={'PacketDecodeError': True, 'ProtocolError': True}))


# ------------------------------------------------------------------------------------------------ kex method messages: role
# "a message only the other role may send never takes effect": who sends which key-exchange method message is fixed
# by the RFCs - the handler of a message the CLIENT sends may run only on a server and vice versa:
#   RFC 4253 8      KEXDH_INIT / ECDH_INIT   c -> s      KEXDH_REPLY / ECDH_REPLY   s -> c
#   RFC 4419 3      KEX_DH_GEX_REQUEST(_OLD) c -> s      KEX_DH_GEX_GROUP           s -> c   (GEX_INIT / GEX_REPLY share
#                                                                                        the DH init / reply handlers)
#   RFC 4432 4      KEXRSA_PUBKEY  s -> c    KEXRSA_SECRET  c -> s    KEXRSA_DONE  s -> c
#   RFC 4462 2.1    KEXGSS_INIT    c -> s    KEXGSS_COMPLETE  s -> c  KEXGSS_ERROR s -> c
# (KEXGSS_CONTINUE goes both ways, KEXGSS_HOSTKEY is guarded by a state flag: not role checks, not covered here.)
# Region contract = everything up to and including the first `if`: falling through means the role was right, the
# wrong role is a ProtocolError before the packet is read or anything else happens.
KEX_ROLE_TABLE = [
    # module, class, handler, the role that may RECEIVE the message
    ('kex_dh', '_KexDHBase', '_process_init', 'server'),
    ('kex_dh', '_KexDHBase', '_process_reply', 'client'),
    ('kex_dh', '_KexDHGex', '_process_request', 'server'),
    ('kex_dh', '_KexDHGex', '_process_group', 'client'),
    ('kex_dh', '_KexGSSBase', '_process_gss_init', 'server'),
    ('kex_dh', '_KexGSSBase', '_process_complete', 'client'),
    ('kex_dh', '_KexGSSBase', '_process_error', 'client'),
    ('kex_rsa', '_KexRSA', '_process_pubkey', 'client'),
    ('kex_rsa', '_KexRSA', '_process_secret', 'server'),
    ('kex_rsa', '_KexRSA', '_process_done', 'client'),
]


def conn_role_stub(want_client):
    def stub(cx):
        r = cx.ex.get_field(cx.st, cx.recv, '_is_client')
        return VBool(r.z if want_client else z3.Not(r.z))
    stub.modifies = ()
    return stub


def kex_role_region(fn):
    for i, st_ in enumerate(fn.body):
        if isinstance(st_, ast.If):
            return fn.body[:i + 1]
    raise Unsupported(f'{fn.name}: no role check')


def _kex_role_spec(module, cls, meth, receiver):
    def on_client(c):
        return c.old('_is_client', c.oldv('_conn'))
    right = (lambda c: on_client(c)) if receiver == 'client' else (lambda c: z3.Not(on_client(c)))
    sp = finish(HSpec(
        'C06', module, f'{cls}.{meth}', self_class=cls,
        params=dict(_pkttype='int', _pktid='int', pkttype='int', packet='obj:SSHPacket'),
        classes=dict(PACKET_CLASSES, **{cls: {'_conn': 'obj:Conn'}, 'Conn': {'_is_client': 'bool'}}),
        truthy=PACKET_TRUTHY, inline=dict(PACKET_INLINE), region=kex_role_region,
        stubs={'self._conn.is_client': conn_role_stub(True), 'self._conn.is_server': conn_role_stub(False)},
        ensures=[(f'handled-only-by-the-{receiver}', right)],
        always=[('role-check-precedes-every-effect', lambda c: z3.And(
            z3.BoolVal(all(x['key'].endswith(('.is_client', '.is_server')) for x in c.calls())),
            pkt(c, new=True)['_idx'].z == pkt(c)['_idx'].z))],
        raises={'ProtocolError': lambda c: z3.Not(right(c))}))
    sp.tag = 'role-check'
    sp.no_replay = True
    return sp


def _kex_params(sp):
    """handlers name their first parameter _pkttype or pkttype: keep only the names the real signature has"""
    from pyvc import extract
    fn = extract.get_module(sp.module).get_function(sp.qualname)
    names = {a.arg for a in fn.args.args}
    sp.params = {k: v for k, v in sp.params.items() if k in names}
    return sp


KEX_ROLE_SPECS = [_kex_params(_kex_role_spec(*row)) for row in KEX_ROLE_TABLE]


# ------------------------------------------------------------------------------------------------ strict kex: SEND counter
# "both sequence numbers restart at NEWKEYS": the receive half is _finish_recv_packet (c06.py); the send half is the
# C06 view of send_packet below - the same function, stubs and case split as the C11 / C02 contracts (c11.py), with
# the one clause this property needs.  (Imported last: c11 -> c11_kexinit import names from this module.)
from . import c11 as _c11      # noqa: E402

send_packet_strict = _c11._mk_send_packet(
    'C06', ensures=[('strict-kex:send-sequence-number-restarts-at-NEWKEYS-and-only-there', _c11.strict_send_seq_reset)],
    always=[])
# no clause of this view talks about padding, so the finite case split over (block size, header length) that keeps
# the padding arithmetic of C02 / C11 linear is not needed: block size and header length stay symbolic (any value
# send_inv allows: 8..128, {1, 5}) - one general proof instead of four instances, a quarter of the paths
send_packet_strict.cases = None


# ------------------------------------------------------------------------------------------------ kex range closes at OUR NEWKEYS
# "Before the first key exchange completes an endpoint accepts only the messages that exchange calls for ... anything
# else never takes effect": the method-specific messages 30..49 belong to ONE exchange, which for this endpoint is over
# when it sends NEWKEYS (RFC 4253 7.3: NEWKEYS ends the exchange; everything after it is protected by the new keys).
# The gate (c06.py, gate-sound) hands 30..49 to a handler only while an exchange object is registered (_kex), so the
# requirement is: by the time our NEWKEYS leaves, no exchange object is registered any more - from then on 30..49 are
# rejected ('Key exchange not in progress') until a new KEXINIT exchange registers a new one (_process_kexinit).
def _c02_send_newkeys():
    """the send_newkeys contract frame of contracts/c02.py (stubs / heap shape), when c02 is completely imported"""
    try:
        from . import c02
    except Exception:       # noqa
        return None
    return getattr(c02, 'send_newkeys', None)


def _no_kex(v):
    return z3.BoolVal(True) if v is VNone else (v.isnone if isinstance(v, VOpt) else z3.BoolVal(False))


def nk_gate_send_stub(cx):
    if concrete_int(cx.args[0]) == 21:
        cx.require('our-NEWKEYS-leaves-only-after-the-exchange-object-is-dropped', _no_kex(cx.selff('_kex')))
    return [Out(event=('send_packet', tuple(cx.args)))]


nk_gate_send_stub.modifies = ()
_nk = _c02_send_newkeys()
if _nk is not None:
    send_newkeys_gate = finish(Spec(
        'C06', 'connection', 'SSHConnection.send_newkeys', self_class='SSHConnection', params=dict(_nk.params),
        classes=_nk.classes, stubs=dict(_nk.stubs, **{'self.send_packet': nk_gate_send_stub}),
        requires=_nk.requires,
        ensures=[('exchange-over:no-kex-handler-registered-after-our-NEWKEYS(30..49-rejected-until-the-next-KEXINIT)',
                  lambda c: z3.And(_no_kex(c.newv('_kex')),
                                   z3.BoolVal(any(concrete_int(x['args'][0]) == 21 for x in c.calls('send_packet')))))],
        raises=dict(_nk.raises)))
    for _attr in ('no_replay', 'opaque_native', 'runtime_class', 'feasible_timeout_ms', 'lazy_byte_ranges',
                  'model_timeout_ms', 'confirm_attempts'):
        if hasattr(_nk, _attr):
            setattr(send_newkeys_gate, _attr, getattr(_nk, _attr))


# generation order (cost only, no effect on what is generated): the sequence-heavy feasibility queries of the userauth
# handlers leave z3 markedly slower for the rest of the process (measured: send_packet 13 s alone, 75 s after
# _process_userauth_request; a single 2^32-length query that times out is enough), so the two large path enumerations
# are generated first
for _sp in [v_ for v_ in (globals().get('send_newkeys_gate'), send_packet_strict) if v_ is not None]:
    if _sp in Spec.registry:
        Spec.registry.remove(_sp)
        Spec.registry.insert(0, _sp)


# per-path CPython cross-check (a sampling sanity check of the engine's model of Python, not a proof step): witness
# search budgets for the functions whose path conditions are sequence-heavy - a witness that is not found within 2 s
# was not found within the default 6 s either (measured), the sample is then counted as `no-model`
for _sp in (process_userauth_request, process_userauth_banner, process_debug):
    _sp.model_timeout_ms = 2000
# branch pruning only (an undecided branch is kept): the 2^32-length slices of the user name / service / method
# strings make a few feasibility queries run into the default 2 s budget without deciding anything
process_userauth_request.feasible_timeout_ms = 300
if globals().get('send_newkeys_gate') is not None:
    # the same function is cross-checked under C02 and C11 (200 paths, witnesses are rarely found): small sample here
    send_newkeys_gate.crosscheck_limit = 2
    send_newkeys_gate.model_timeout_ms = 1500


def extra_checks(tier, seed):
    """Bounded native stand-in (NOT counted as proof) for the strict-kex first-packet rule: the region contract of
    _process_kexinit cannot be replayed natively, specs/c06_native.py runs the real function over the finite grid of
    role x marker x first-exchange x receive-keys x sequence-number x strict-before and supplies failing inputs."""
    import json
    import os
    import subprocess
    from pyvc import extract
    name = 'C06.bounded#process_kexinit-strict-kex-first-packet(native, 64-case grid)'
    script = os.path.join(os.path.dirname(os.path.dirname(os.path.abspath(__file__))), 'specs', 'c06_native.py')
    try:
        p = subprocess.run(['/venv/bin/python', script], capture_output=True, text=True,
                           env=dict(os.environ, PYTHONPATH=extract.REPO), timeout=120)
        out = json.loads(p.stdout)
        b = {'name': name, 'inputs': out['cases'], 'violations': out['violations']}
    except Exception as e:      # harness trouble is never a verdict
        b = {'name': name, 'inputs': 0, 'violations': [], 'error': repr(e)}
    return {'bounded': [b], 'lemmas': []}


# bound the counter-model search when a change breaks many paths of one function at once
for _sp in [v_ for v_ in list(globals().values()) if isinstance(v_, Spec) and v_.prop == 'C06']:
    if getattr(_sp, 'confirm_limit', None) is None:
        _sp.confirm_limit = 2
