"""C09 — everything terminates: no hung waiter, one orderly close.  (Safety core.)

Decided here (see DESIGN.md, section C09):
  (i)   cleanup resolves every waiter that exists at that moment (channel open/request waiters, connection
        global-request waiters, stream read/drain waiters) and never resolves a future twice / a cancelled one;
  (ii)  final notifications are delivered exactly once (session.connection_lost, owner.connection_lost) and the
        object forgets its session/owner afterwards, so a second cleanup notifies nobody (idempotence);
  (iii) every termination path schedules exactly one cleanup (_force_close guard; channel close handshake:
        cleanup is scheduled exactly when the receive side turns 'closed').
Futures are opaque values; "resolved" is a ghost set (self.ghost_done), "cancelled" an uninterpreted predicate.

Second part of the file (after the audit, notes/audit/C09.md): the cleanup overrides that actually run
(SSHClientConnection / SSHServerConnection._cleanup), add_channel / remove_channel / SSHChannel.__init__ (no channel
registers on a closed connection; the channel-side class invariants are established), the pending operations read
(_block_read + the wait step of read / readuntil / TunTap read), SFTP request (client handler cleanup, response
dispatch, request registration) and channel open (_open), the remaining writers of conn_waiter_inv, frames.
"""
import z3
from pyvc.contracts import *
from pyvc.engine import LoopSpec, Out, Prove
from pyvc.values import *
from .common import *

PROP = 'C09'

ASSUMPTIONS = [
    'liveness over the scheduler/network is NOT decided (an open connection\'s peer may never answer; call_soon '
    'callbacks are assumed to run once, in order); decided instead: every termination path schedules exactly one '
    'cleanup, cleanup resolves every registered waiter and delivers the final notification exactly once, every '
    'awaited future is registered where cleanup finds it, and nothing can be registered after cleanup',
    'asyncio.Future contract (trusted): cancelled() implies done(); set_result/set_exception on a done or '
    'cancelled future raise InvalidStateError, set_exception(None) is a TypeError (all three stated as '
    'preconditions at every call site) and make the future done; create_future() returns a future nobody has seen; '
    'Event.set() makes the event set; futures are cancelled only by code outside the functions under contract '
    '(cancelled() is constant during an atomic step)',
    'waiter-registry class invariant (pairwise distinct, pending-or-cancelled futures in _open_waiter / '
    '_request_waiters / _global_request_waiters, `_conn set <=> _recv_chan set`) is required by the cleanup '
    'functions and proved on all writers: SSHChannel.__init__ (establishes it), _open (at its await), _cleanup, '
    'process_connection_close, process_open_confirmation, process_open_failure, _process_response, _make_request '
    '(at its await), SSHConnection._process_global_response, _make_global_request (at its await)',
    'conn_waiter_inv (the connect/auth waiter is pending while _wait names a phase) is proved on _cleanup and on '
    'the five other sites that resolve SSHConnection._waiter, each run as a region of its function (send_newkeys, '
    'send_userauth_success, _process_userauth_failure, _process_userauth_success x2); SSHConnection.__init__ takes '
    'the waiter from the options (created pending by connect()/listen()) and is not under contract',
    'a channel object is opened once: _open requires _open_waiter is None (create()/_open_* of every channel class '
    'call _open exactly once, right after the constructor); a second concurrent _open would overwrite a pending '
    'waiter',
    'close-handshake class invariant hs_inv (recv close_pending/closed => send closed) is proved on '
    'SSHChannel.__init__, _close_send, _discard_recv, _flush_send_buf, _flush_recv_buf, close, abort, '
    '_process_close, process_connection_close, process_open_confirmation; NOT under contract here: '
    'write_eof and _process_eof (they never produce close_pending/closed) and _finish_open_request (sets both '
    'sides to open)',
    'session callbacks invoked while data is delivered (_deliver_data -> session.data_received, '
    'session.eof_received) may pause reading, raise anything, and re-enter close() or abort() of the same channel '
    '(by the contracts proved for them); other re-entrant calls (write, write_eof, resume_reading) are not '
    'modelled; the data path of _flush_send_buf (encoders do not raise, window accounting) is C08\'s contract '
    'and abstract here',
    'chan.process_connection_close(exc) inside SSHConnection._cleanup is used by its channel-level contract '
    '(proved here on SSHChannel): the channel unregisters itself under its own number, exactly once.  The '
    'cross-object facts behind it - a channel found in conn._channels has _conn set and is stored under the number '
    'it remembers in _recv_chan - are established by SSHChannel.__init__ (Spec chan_init: registered exactly once, '
    '_recv_chan = the number add_channel returned, _conn set) together with add_channel / remove_channel (Specs: '
    'fresh number, only that number removed) and kept by SSHChannel._cleanup (clears _conn and _recv_chan with the '
    'unregistration); they are argued across the two objects, not a single obligation.  chan_num(ch) is a ghost '
    'function DEFINED by add_channel\'s return value (definitional lemma in Spec add_channel)',
    'add_channel: fewer than 2**32 channels are registered (ghost witness of a free number; otherwise its scan '
    'loop would not terminate); it refuses on a closed connection (proved), so _channels cannot grow once '
    '_force_close has run',
    'list(d.values()) is modelled by its definition (a fresh list holding the value of every key exactly once); '
    'bool(d) of a dict is "d has a key" (definitional lemma where a cleanup tests `if self._remote_listeners:`)',
    'stream: `_eof_received => no reader parked on a pending future` is a class invariant proved on eof_received(), '
    'connection_lost() and _block_read (the only function that stores a waiter); _block_read requires EOF not '
    'latched, which is an obligation at each of its three call sites (read, readuntil, TunTap read).  read and '
    'readuntil are the Specs of contracts/c19.py re-run under C09 with that obligation: their environment model '
    '(rely condition at the awaits, lock step, _maybe_resume_reading as an environment step, AnyStr = bytes, literal '
    'and newline separators only) is C19\'s, see its ASSUMPTIONS',
    'a reader\'s slot _read_waiters[datatype] is its own while it is parked: readers of one datatype are serialised '
    'by the read lock in read/readuntil; SSHTunTapStreamSession.read takes no lock, so two concurrent TUN/TAP '
    'reads of one stream are outside this contract (the second would overwrite the first one\'s waiter)',
    'stream datatype tables have the keys {None} or {None, EXTENDED_DATA_STDERR} (connection_made fills them '
    'from get_read_datatypes()/get_write_datatypes(), which are {} or {EXTENDED_DATA_STDERR} for every channel '
    'class in channel.py); a set of drain waiters is viewed as a list in iteration order where it is iterated '
    '(_unblock_drain, connection_lost) and as a characteristic function where it is updated (drain)',
    'in drain() the environment step at `await waiter` may change the flags, resolve futures and add/remove other '
    'coroutines\' waiters, but leaves this coroutine\'s own waiter registered (only drain() itself removes it)',
    'SFTP: every outstanding request has its own pending-or-cancelled future (class invariant proved on '
    'SFTPClientHandler._send_request, _make_request (request/wait step, as a region), _process_packet, _cleanup); '
    'the id about to be used is not outstanding (ids are consecutive modulo 2**32); decoding of responses and the '
    'server side are other properties\' business',
    'collaborators whose close()/cancel() is assumed not to raise inside the cleanups: listener.close() / '
    'tcp_listener.close() (asyncssh\'s SSHListener classes; an application-supplied listener object whose close() '
    'raises would abort SSHConnection._cleanup the way the error handler did before 4a6a160), agent / agent '
    'listener close(), tunnel.close(), auth.cancel(), timer.cancel(), writer.close(), conn.detach_x11_listener()',
    'Specs used as callee contracts carry a `frame` obligation (no declared field outside `modifies` changes)',
    'not covered (see DESIGN C09): the other _force_close call sites (disconnect, _process_disconnect, '
    'timers, _reap_task, internal_error itself), listener.py close paths (C20), SFTP server handler cleanup, '
    'SSHClientChannel.create before its final request (only the tail from `if command:` is a region Spec), '
    'SSHClientChannel.create / _open_forward after the open is confirmed (session attached by the opener task: the '
    'order "open confirmed, connection cleanup, opener resumes" is excluded by hand - after _force_close the receive '
    'sequence number is no longer advanced (_finish_recv_packet), so no later packet of the same segment is accepted, '
    'and call_soon is FIFO - not by an obligation)',
]

# ------------------------------------------------------------------------------------------------ futures
FUT = 'opaque:Future'
FutS = sort_of(FUT)
DONE_T = 'dict[' + FUT + ',bool]'
cancelled_fn = z3.Function('fut_cancelled', FutS, BoolS)


def done_in(m, f):
    """future f is resolved (result, exception or cancellation) in ghost map m"""
    return z3.Select(m.val, f)


def mark_done(m, f):
    return VMap(m.dom, z3.Store(m.val, f, True), m.kt, m.vt)


def fut_cancelled_stub(cx):
    f = cx.recv.z
    d = cx.selff('ghost_done')
    # Future contract: a cancelled future is done (the answer is a named constant so that replays are concrete)
    b = cx.fresh('bool', 'is_cancelled')
    return [Out(ret=b, assume=[b.z == cancelled_fn(f), z3.Implies(cancelled_fn(f), done_in(d, f))])]


fut_cancelled_stub.modifies = ()


def fut_done_stub(cx):
    f = cx.recv.z
    d = cx.selff('ghost_done')
    return [Out(ret=VBool(done_in(d, f)), assume=[z3.Implies(cancelled_fn(f), done_in(d, f))])]


fut_done_stub.modifies = ()


def fut_resolve_stub(kind):
    def stub(cx):
        f = cx.recv.z
        d = cx.selff('ghost_done')
        # InvalidStateError otherwise: never resolve a future twice, never touch a cancelled one
        cx.require('future-not-already-done', z3.Not(done_in(d, f)))
        cx.require('future-not-cancelled', z3.Not(cancelled_fn(f)))
        if kind == 'exception':
            # "fails with an error": set_exception(None) is a TypeError (and the waiter would stay pending)
            cx.require('exception-is-an-exception', z3.Not(isn(cx.args[0])))
        return [Out(sets={'ghost_done': mark_done(d, f)}, event=('resolve', (cx.recv, kind) + tuple(cx.args)))]
    stub.modifies = ('ghost_done',)
    return stub


FUT_STUBS = {'*.cancelled': fut_cancelled_stub, '*.done': fut_done_stub,
             '*.set_result': fut_resolve_stub('result'), '*.set_exception': fut_resolve_stub('exception')}


def event_set_stub(cx):
    """asyncio.Event.set() on self._close_event (opaque): recorded in the owner's ghost field"""
    return [Out(sets={'ghost_close_event_set': VBool(True)}, event=('event_set', (cx.recv,)))]


event_set_stub.modifies = ('ghost_close_event_set',)


def bump(cx, field, by=1):
    return VInt(cx.selff(field).z + by)


def on_self(cx, **fields):
    """ghost updates of the analysed object made by a stub whose receiver is another object"""
    return [(cx.ex.self_ref, f, v) for f, v in fields.items()]


def delta(c, field):
    return c.new(field) - c.old(field)


def b2i(z):
    return z3.If(z, 1, 0)


def call_soon_stub(cx):
    """loop.call_soon(cb, *args): scheduling of the object's own _cleanup is counted in ghost_cleanup_sched,
    scheduling of transport.abort in ghost_abort_sched (callbacks run later, once, in order: assumed)"""
    cb = cx.args[0]
    if isinstance(cb, VTag) and cb.tag.startswith('method:') and cb.payload:
        base, attr = cb.payload
        if attr == '_cleanup' and isinstance(base, VRef) and base.addr == cx.ex.self_ref.addr:
            return [Out(sets={'ghost_cleanup_sched': bump(cx, 'ghost_cleanup_sched')},
                        event=('sched_cleanup', tuple(cx.args[1:])))]
        if attr == 'abort':
            return [Out(sets={'ghost_abort_sched': bump(cx, 'ghost_abort_sched')},
                        event=('sched_abort', (base,)))]
    return [Out(event=('call_soon', tuple(cx.args)))]


call_soon_stub.modifies = ('ghost_cleanup_sched',)


def isn(v):
    """z3 Bool: optional value v is None"""
    if v is VNone:
        return z3.BoolVal(True)
    if isinstance(v, VOpt):
        return v.isnone
    return z3.BoolVal(False)


def when_set(v, body):
    """v is not None ==> body(inner value)"""
    if v is VNone:
        return z3.BoolVal(True)
    if isinstance(v, VOpt):
        return z3.Implies(z3.Not(v.isnone), body(v.val))
    return body(v)


def forall_idx(seq, body, lo=0, hi=None):
    """forall k. lo <= k < hi(=len seq)  ==>  body(seq[k], k)"""
    k = z3.Int(fresh_name('k'))
    hi = z3.Length(seq) if hi is None else hi
    return z3.ForAll([k], z3.Implies(z3.And(k >= lo, k < hi), body(seq[k], k)))


def distinct_seq(seq):
    j, k = z3.Int(fresh_name('j')), z3.Int(fresh_name('k'))
    return z3.ForAll([j, k], z3.Implies(z3.And(0 <= j, j < k, k < z3.Length(seq)), seq[j] != seq[k]))


def pending_or_cancelled(d, f):
    return z3.Implies(done_in(d, f), cancelled_fn(f))


def registry_ok(d, seq):
    """waiter registry invariant: distinct futures, each pending or cancelled"""
    return z3.And(distinct_seq(seq), forall_idx(seq, lambda f, k: pending_or_cancelled(d, f)))


# ------------------------------------------------------------------------------------------------ channel
C9_CHAN_FIELDS = dict(CHAN_FIELDS, **{
    '_open_waiter': 'opt[' + FUT + ']', '_request_waiters': 'seq[' + FUT + ']',
    '_close_event': 'opaque:Event', '_loop': 'opaque:Loop',
    # ghost state
    'ghost_done': DONE_T,                 # futures resolved so far
    'ghost_close_event_set': 'bool',      # _close_event.set() happened (wait_closed() returns)
    'ghost_session_lost': 'int',          # number of session.connection_lost() notifications
    'ghost_unregistered': 'int',          # number of conn.remove_channel() calls
    'ghost_cleanup_sched': 'int',         # number of loop.call_soon(self._cleanup, ...)
    'ghost_cleanup_runs': 'int',          # number of direct self._cleanup() calls
    'ghost_close_sent': 'int',            # number of MSG_CHANNEL_CLOSE packets sent
    'ghost_final_told': 'bool',           # within the running _cleanup: session.connection_lost() has been called
    'ghost_eof_told': 'int',              # number of session.eof_received() callbacks
})
C9_CHAN_CLASSES = {'SSHChannel': C9_CHAN_FIELDS, 'Session': {}, 'Decoder': {}, 'Conn': {}}
C9_COUNTERS = ['ghost_session_lost', 'ghost_unregistered', 'ghost_cleanup_sched', 'ghost_cleanup_runs',
               'ghost_close_sent']


def chan_registry_inv(c, new=False):
    """class invariant of the channel's waiter registry + `_conn set <=> registered under _recv_chan` (both are
    set together in __init__ via conn.add_channel and cleared together in _cleanup, the only writers)"""
    g, gv = (c.new, c.newv) if new else (c.old, c.oldv)
    d = gv('ghost_done')
    ws = g('_request_waiters')
    ow = gv('_open_waiter')
    return z3.And(
        registry_ok(d, ws),
        when_set(ow, lambda o: z3.And(pending_or_cancelled(d, o.z), forall_idx(ws, lambda f, k: f != o.z))),
        isn(gv('_conn')) == isn(gv('_recv_chan')))


def session_lost_stub(cx):
    ev = ('session_lost', (cx.recv,) + tuple(cx.args))
    sets = on_self(cx, ghost_session_lost=bump(cx, 'ghost_session_lost'), ghost_final_told=VBool(True))
    return [Out(osets=sets, event=ev), Out(osets=sets, exc=VExc('Exception'), event=ev)]


session_lost_stub.modifies = ('ghost_session_lost', 'ghost_final_told')


def before_final(stub):
    """legal callback order, stated in state so that it also holds inside loop bodies (whose events the exit path
    does not carry): what `stub` stands for happens BEFORE the final connection_lost notification of this cleanup"""
    def wrapped(cx):
        cx.require('before-the-final-notification', z3.Not(cx.selff('ghost_final_told').z))
        return stub(cx)
    wrapped.modifies = getattr(stub, 'modifies', ())
    if hasattr(stub, 'spec_getter'):
        wrapped.spec_getter = stub.spec_getter
    return wrapped


def final_not_told_yet(ex, st):
    """ghost_final_told is a ghost variable local to one run of _cleanup: False at its entry"""
    st.set_field(ex.self_ref, 'ghost_final_told', VBool(False))


def remove_channel_stub(cx):
    # the channel unregisters itself under the number it was registered with
    cx.require('unregisters-own-number', cx.ex.veq(cx.st, cx.args[0], cx.selff('_recv_chan')))
    return [Out(osets=on_self(cx, ghost_unregistered=bump(cx, 'ghost_unregistered')),
                event=('remove_channel', tuple(cx.args)))]


remove_channel_stub.modifies = ('ghost_unregistered',)


def old_waiters_resolved(c):
    d = c.newv('ghost_done')
    return forall_idx(c.old('_request_waiters'), lambda f, k: done_in(d, f))


def cleanup_loop_inv(c):
    d = c.newv('ghost_done')
    ws = c.extra['iter'].z
    i = c.extra['i']
    ow = c.oldv('_open_waiter')
    return z3.And(
        ws == c.old('_request_waiters'),
        # processed prefix is resolved, the rest is still pending-or-cancelled
        forall_idx(ws, lambda f, k: done_in(d, f), hi=i),
        forall_idx(ws, lambda f, k: pending_or_cancelled(d, f), lo=i),
        when_set(ow, lambda o: done_in(d, o.z)))


def attached(c, f):
    return z3.Not(isn(c.oldv(f)))


# state-only clauses (safe to assume at call sites through contract_stub: they never look at the event log)
CHAN_CLEANUP_POST = [
    ('open-waiter-resolved-and-forgotten', lambda c: z3.And(
        isn(c.newv('_open_waiter')),
        when_set(c.oldv('_open_waiter'), lambda o: done_in(c.newv('ghost_done'), o.z)))),
    ('every-request-waiter-resolved', old_waiters_resolved),
    ('request-waiter-list-drained', lambda c: z3.Length(c.new('_request_waiters')) == 0),
    ('session-notified-exactly-once-iff-attached',
     lambda c: delta(c, 'ghost_session_lost') == b2i(attached(c, '_session'))),
    ('session-forgotten', lambda c: isn(c.newv('_session'))),
    ('close-event-set', lambda c: c.new('ghost_close_event_set')),
    ('unregistered-from-connection-exactly-once-iff-registered',
     lambda c: delta(c, 'ghost_unregistered') == b2i(attached(c, '_conn'))),
    ('channel-numbers-and-connection-cleared', lambda c: z3.And(
        isn(c.newv('_conn')), isn(c.newv('_recv_chan')),
        z3.Implies(attached(c, '_conn'), isn(c.newv('_send_chan'))))),
    ('class-inv', lambda c: chan_registry_inv(c, new=True)),
]

CHAN_CLEANUP_STUBS = dict(FUT_STUBS, **{
    '*.set_result': before_final(FUT_STUBS['*.set_result']),
    '*.set_exception': before_final(FUT_STUBS['*.set_exception']),
    'self._session.connection_lost': session_lost_stub,
    'self._close_event.set': event_set_stub,
    'self._conn.detach_x11_listener': noop('detach_x11'),
    'self._conn.remove_channel': remove_channel_stub,
})
CHAN_CLEANUP_MODIFIES = ['_open_waiter', '_request_waiters', '_session', '_conn', '_send_chan', '_recv_chan',
                         'ghost_done', 'ghost_close_event_set', 'ghost_session_lost', 'ghost_unregistered',
                         'ghost_final_told']

chan_cleanup = Spec(
    PROP, 'channel', 'SSHChannel._cleanup', self_class='SSHChannel',
    params=dict(exc='opt[opaque:Exc]'), classes=C9_CHAN_CLASSES, stubs=CHAN_CLEANUP_STUBS,
    setup=final_not_told_yet,
    loops={1: LoopSpec(header='for waiter in self._request_waiters', invariant=cleanup_loop_inv,
                       modifies=['ghost_done'])},
    requires=lambda c: chan_registry_inv(c),
    modifies=CHAN_CLEANUP_MODIFIES,
    ensures=CHAN_CLEANUP_POST + [
        # the same facts, counted on the event log of the path (what the collaborators actually saw)
        ('one-session-callback-at-most', lambda c: z3.BoolVal(len(c.events('session_lost')) <= 1)),
        ('one-unregistration-at-most', lambda c: z3.BoolVal(len(c.events('remove_channel')) <= 1)),
        # legal callback order: connection_lost is the session's last callback - no waiter of this channel is
        # resolved (waking application code that may call back into the session) after it
        ('nothing-resolved-after-the-final-notification', lambda c: z3.BoolVal(
            not any(e[0] == 'resolve'
                    for e in c.events()[([e[0] for e in c.events()] + ['session_lost']).index('session_lost'):]))),
    ],
    raises={})


def cleaned(c):
    """state left behind by a cleanup"""
    return z3.And(isn(c.oldv('_open_waiter')), z3.Length(c.old('_request_waiters')) == 0,
                  isn(c.oldv('_session')), isn(c.oldv('_conn')), isn(c.oldv('_recv_chan')))


# idempotence: a second cleanup (scheduled one after a connection-close one, or vice versa) notifies nobody
chan_cleanup_again = Spec(
    PROP, 'channel', 'SSHChannel._cleanup', self_class='SSHChannel',
    params=dict(exc='opt[opaque:Exc]'), classes=C9_CHAN_CLASSES, stubs=CHAN_CLEANUP_STUBS,
    setup=final_not_told_yet,
    loops={1: LoopSpec(header='for waiter in self._request_waiters', invariant=cleanup_loop_inv,
                       modifies=['ghost_done'])},
    requires=cleaned, cases=[('second-run', {})],
    ensures=[('second-cleanup-notifies-nobody', lambda c: z3.And(
        z3.BoolVal(len(c.events('session_lost')) == 0 and len(c.events('remove_channel')) == 0
                   and len(c.events('resolve')) == 0),
        *[delta(c, f) == 0 for f in C9_COUNTERS])),
        ('stays-cleaned', lambda c: cleaned(Flip(c)))],
    raises={})


class Flip:
    """view of a Ctx in which old* read the new state (to evaluate a pre-state predicate on the post-state)"""
    def __init__(self, c):
        self.c = c

    def old(self, n, ref=None):
        return self.c.new(n, ref)

    def oldv(self, n, ref=None):
        return self.c.newv(n, ref)

    @property
    def old_state(self):
        return self.c.new_state

    def __getattr__(self, n):
        return getattr(self.c, n)


# ---- close handshake --------------------------------------------------------------------------------
CLOSED, CLOSE_PENDING = z3.StringVal('closed'), z3.StringVal('close_pending')
SEND_STATES = ['open', 'eof_pending', 'eof', 'close_pending', 'closed']
RECV_STATES = ['open', 'eof_pending', 'eof', 'close_pending', 'closed']


def one_of(z, names):
    return z3.Or([z == z3.StringVal(n) for n in names])


def hs_inv(c, new=False):
    """handshake invariant: once the peer's CLOSE has been seen (recv close_pending/closed after having been
    open) our own CLOSE has been sent; both state variables range over their five values"""
    g = c.new if new else c.old
    return z3.And(one_of(g('_send_state'), SEND_STATES), one_of(g('_recv_state'), RECV_STATES),
                  z3.Implies(one_of(g('_recv_state'), ['close_pending', 'closed']), g('_send_state') == CLOSED))


def hs_step(c):
    """one cleanup per close: cleanup is scheduled exactly when the receive side turns 'closed' (and then the
    send side is closed too); it is never scheduled otherwise"""
    turned = z3.And(c.old('_recv_state') != CLOSED, c.new('_recv_state') == CLOSED)
    return z3.And(delta(c, 'ghost_cleanup_sched') == b2i(turned),
                  z3.Implies(turned, c.new('_send_state') == CLOSED),
                  # a closed side never re-opens
                  z3.Implies(c.old('_recv_state') == CLOSED, c.new('_recv_state') == CLOSED),
                  z3.Implies(c.old('_send_state') == CLOSED, c.new('_send_state') == CLOSED))


def close_sent_once(c):
    """MSG_CHANNEL_CLOSE goes out exactly when the send side turns 'closed' by a local/peer close"""
    return delta(c, 'ghost_close_sent') == b2i(z3.And(c.old('_send_state') != CLOSED,
                                                      c.new('_send_state') == CLOSED))


def chan_send_packet_stub(cx):
    t = concrete_int(cx.args[0])
    if t == 97:     # MSG_CHANNEL_CLOSE
        cx.require('close-sent-at-most-once', cx.selff('_send_state').z != CLOSED)
        return [Out(sets={'ghost_close_sent': bump(cx, 'ghost_close_sent')}, event=('close_sent', ()))]
    if t == 96:     # MSG_CHANNEL_EOF
        return [Out(event=('eof_sent', ()))]
    return [Out(event=('packet', tuple(cx.args)))]


chan_send_packet_stub.modifies = ('ghost_close_sent',)

close_send = Spec(
    PROP, 'channel', 'SSHChannel._close_send', self_class='SSHChannel', classes=C9_CHAN_CLASSES,
    stubs={'self.send_packet': chan_send_packet_stub},
    requires=lambda c: hs_inv(c),
    modifies=['_send_buf', '_send_buf_len', '_send_state', '_send_chan', 'ghost_close_sent'],
    ensures=[('send-side-closed', lambda c: c.new('_send_state') == CLOSED),
             ('unsent-data-discarded', lambda c: z3.And(z3.Length(c.new('_send_buf')) == 0,
                                                        c.new('_send_buf_len') == 0)),
             ('close-packet-exactly-once', close_sent_once),
             ('class-inv', lambda c: hs_inv(c, new=True))],
    raises={})

discard_recv = Spec(
    PROP, 'channel', 'SSHChannel._discard_recv', self_class='SSHChannel', classes=C9_CHAN_CLASSES,
    stubs={'self._loop.call_soon': call_soon_stub},
    requires=lambda c: hs_inv(c),
    modifies=['_recv_buf', '_recv_paused', '_recv_state', 'ghost_cleanup_sched'],
    ensures=[('undelivered-data-discarded', lambda c: z3.Length(c.new('_recv_buf')) == 0),
             ('pending-peer-close-completed', lambda c: c.new('_recv_state') != CLOSE_PENDING),
             ('recv-state-otherwise-unchanged', lambda c: z3.Or(
                 c.new('_recv_state') == c.old('_recv_state'),
                 z3.And(c.old('_recv_state') == CLOSE_PENDING, c.new('_recv_state') == CLOSED))),
             ('one-cleanup-per-close', hs_step),
             ('class-inv', lambda c: hs_inv(c, new=True))],
    raises={})


def pause_resume_stub(cx):
    return [Out(sets={'_send_paused': cx.fresh('bool', 'send_paused')})]


pause_resume_stub.modifies = ('_send_paused',)


def send_step(c):
    """legal moves of the send side inside a flush: eof_pending -> eof, close_pending -> closed, or none"""
    o, n = c.old('_send_state'), c.new('_send_state')
    return z3.Or(n == o, z3.And(o == z3.StringVal('eof_pending'), n == z3.StringVal('eof')),
                 z3.And(o == CLOSE_PENDING, n == CLOSED))


# _flush_send_buf seen from the close handshake only (flow control / conservation are C08's contract)
flush_send = Spec(
    PROP, 'channel', 'SSHChannel._flush_send_buf', self_class='SSHChannel', classes=C9_CHAN_CLASSES,
    stubs={'self.send_packet': chan_send_packet_stub, 'self._pause_resume_writing': pause_resume_stub,
           'self._close_send': contract_stub(lambda: close_send),
           # packet encoders are abstract here: their range checks are discharged under C08's class invariant
           'UInt32': ret('bytes', 'uint32'), 'String': ret('bytes', 'string')},
    loops={1: LoopSpec(header='self._send_buf and self._send_window',
                       invariant=lambda c: z3.And(hs_inv(c, new=True),
                                                  c.new('_send_state') == c.at_entry('_send_state'),
                                                  c.new('ghost_close_sent') == c.at_entry('ghost_close_sent'),
                                                  z3.Length(c.new('_send_buf')) <= z3.Length(c.at_entry('_send_buf'))))},
    requires=lambda c: hs_inv(c),
    modifies=['_send_buf', '_send_buf_len', '_send_window', '_send_state', '_send_paused', '_send_chan',
              'ghost_close_sent'],
    ensures=[('send-state-step', send_step),
             # EOF / CLOSE wait for buffered DATA only, never for the window: a pending eof/close with an EMPTY buffer
             # is emitted by every flush (else close() with nothing to send and an exhausted window never sends
             # CLOSE and wait_closed() hangs)
             ('pending-eof-or-close-leaves-once-the-buffer-is-empty', lambda c: z3.Implies(
                 z3.Length(c.new('_send_buf')) == 0,
                 z3.Not(one_of(c.new('_send_state'), ['eof_pending', 'close_pending'])))),
             ('eof-packet-exactly-when-eof-pending-becomes-eof', lambda c: z3.And(
                 z3.BoolVal(len(c.events('eof_sent')) <= 1),
                 z3.BoolVal(len(c.events('eof_sent')) == 1) == z3.And(
                     c.old('_send_state') == z3.StringVal('eof_pending'), c.new('_send_state') == z3.StringVal('eof')))),
             ('buffer-only-shrinks', lambda c: z3.Length(c.new('_send_buf')) <= z3.Length(c.old('_send_buf'))),
             ('close-packet-exactly-once', close_sent_once),
             ('class-inv', lambda c: hs_inv(c, new=True))],
    raises={})

CLOSE_STUBS = {'self._flush_send_buf': contract_stub(lambda: flush_send),
               'self._close_send': contract_stub(lambda: close_send),
               'self._discard_recv': contract_stub(lambda: discard_recv)}
CLOSE_MODIFIES = sorted(set(flush_send.modifies) | set(discard_recv.modifies))


def close_post(c):
    return [
        # after a local close()/abort() nothing is left that only the application could complete:
        # the send side is closing, and a peer CLOSE that was waiting for the reader is completed now
        ('send-side-closing', lambda c: one_of(c.new('_send_state'), ['close_pending', 'closed'])),
        ('pending-peer-close-completed', lambda c: c.new('_recv_state') != CLOSE_PENDING),
        ('close-after-peer-close-schedules-cleanup', lambda c: z3.Implies(
            c.old('_recv_state') == CLOSE_PENDING,
            z3.And(c.new('_recv_state') == CLOSED, delta(c, 'ghost_cleanup_sched') == 1))),
        ('one-cleanup-per-close', hs_step),
        ('close-packet-exactly-once', close_sent_once),
        ('class-inv', lambda c: hs_inv(c, new=True)),
        # (used where close()/abort() is re-entered from a session callback, see reentrant() below)
        ('recv-state-otherwise-unchanged', lambda c: z3.Or(
            c.new('_recv_state') == c.old('_recv_state'),
            z3.And(c.old('_recv_state') == CLOSE_PENDING, c.new('_recv_state') == CLOSED))),
        ('receive-buffer-dropped-or-untouched', lambda c: z3.Or(
            z3.Length(c.new('_recv_buf')) == 0, c.new('_recv_buf') == c.old('_recv_buf'))),
    ]


chan_close = Spec(
    PROP, 'channel', 'SSHChannel.close', self_class='SSHChannel', classes=C9_CHAN_CLASSES, stubs=CLOSE_STUBS,
    requires=lambda c: hs_inv(c), modifies=CLOSE_MODIFIES,
    ensures=close_post(None) + [
        ('close-with-nothing-buffered-sends-CLOSE-now-whatever-the-window', lambda c: z3.Implies(
            z3.And(z3.Length(c.old('_send_buf')) == 0, c.old('_send_state') != CLOSE_PENDING),
            c.new('_send_state') == CLOSED))],
    raises={})

chan_abort = Spec(
    PROP, 'channel', 'SSHChannel.abort', self_class='SSHChannel', classes=C9_CHAN_CLASSES, stubs=CLOSE_STUBS,
    requires=lambda c: hs_inv(c), modifies=CLOSE_MODIFIES,
    ensures=close_post(None) + [
        # docstring of abort(): "forcibly close the channel ... any unsent buffered data ... will be discarded"
        ('abort-forces-send-side-closed', lambda c: c.new('_send_state') == CLOSED),
    ],
    raises={})

# ---- connection close reaches the channel -----------------------------------------------------------
# callee view of _cleanup: state-only clauses of the contract verified above
_chan_cleanup_view = Spec(
    PROP, 'channel', 'SSHChannel._cleanup', self_class='SSHChannel', params=dict(exc='opt[opaque:Exc]'),
    classes=C9_CHAN_CLASSES, requires=chan_cleanup.requires, modifies=CHAN_CLEANUP_MODIFIES,
    ensures=CHAN_CLEANUP_POST, raises={})
Spec.registry.remove(_chan_cleanup_view)      # not a separate proof obligation: a view of chan_cleanup


def chan_cleanup_call(cx):
    outs = contract_stub(lambda: _chan_cleanup_view)(cx)
    for o in outs:
        o.sets['ghost_cleanup_runs'] = bump(cx, 'ghost_cleanup_runs')
        o.event = ('cleanup', tuple(cx.args))
    return outs


chan_cleanup_call.modifies = tuple(CHAN_CLEANUP_MODIFIES) + ('ghost_cleanup_runs',)
chan_cleanup_call.spec_getter = lambda: chan_cleanup

process_connection_close = Spec(
    PROP, 'channel', 'SSHChannel.process_connection_close', self_class='SSHChannel',
    params=dict(exc='opt[opaque:Exc]'), classes=C9_CHAN_CLASSES,
    stubs={'self._close_send': contract_stub(lambda: close_send), 'self._cleanup': chan_cleanup_call,
           # (not called by the real code: a cleanup that is only *scheduled* here must be a violation, not exit 2)
           'self._loop.call_soon': call_soon_stub},
    requires=lambda c: z3.And(chan_registry_inv(c), hs_inv(c)),
    modifies=sorted(set(CHAN_CLEANUP_MODIFIES) | set(close_send.modifies) | {'ghost_cleanup_runs'}),
    ensures=CHAN_CLEANUP_POST + [
        ('exactly-one-cleanup-and-none-scheduled', lambda c: z3.And(delta(c, 'ghost_cleanup_runs') == 1,
                                                                    delta(c, 'ghost_cleanup_sched') == 0)),
        ('cleanup-gets-the-connection-error', lambda c: z3.And(*[
            c.eq(e[1][0], c.argv('exc')) for e in c.events('cleanup')])),
        ('send-side-closed', lambda c: c.new('_send_state') == CLOSED),
        ('hs-inv', lambda c: hs_inv(c, new=True)),
    ],
    raises={})


# ---- receive side: peer CLOSE and delivery of the remaining data -----------------------------------
def reentrant(stub):
    """A session callback (data_received, eof_received) is application code: besides what `stub` says it may call
    close() or abort() of this very channel before it returns.  Those outcomes are added with the contracts proved
    for SSHChannel.close / SSHChannel.abort above (their requires, hs_inv, becomes an obligation at the call)."""
    def wrapped(cx):
        outs = stub(cx)
        outs = outs if isinstance(outs, list) else [Out(ret=outs)]
        extra = []
        recv, args, kwargs = cx.recv, cx.args, cx.kwargs
        cx.recv, cx.args, cx.kwargs = cx.ex.self_ref, [], {}        # close()/abort() are called on the channel
        try:
            for o in outs:
                if o.exc is not None:
                    continue
                for getter in (lambda: chan_close, lambda: chan_abort):
                    for co in contract_stub(getter)(cx):
                        if co.exc is not None:
                            continue
                        extra.append(Out(ret=o.ret, sets=dict(o.sets), assume=list(o.assume) + list(co.assume),
                                         osets=list(o.osets) + on_self(cx, **co.sets), event=o.event))
        finally:
            cx.recv, cx.args, cx.kwargs = recv, args, kwargs
        return outs + extra
    wrapped.modifies = tuple(sorted(set(getattr(stub, 'modifies', ())) | set(CLOSE_MODIFIES)))
    return wrapped


def deliver_stub(cx):
    """_deliver_data (C07/C08 contract): the session callback may pause reading or raise anything; decoding may
    fail (ProtocolError)"""
    sets = {'_recv_window': cx.fresh('int', 'recv_window'), '_recv_paused': cx.fresh('any', 'recv_paused')}
    return [Out(sets=sets, event=('deliver', tuple(cx.args))), Out(exc=VExc('ProtocolError')),
            Out(sets=sets, exc=VExc('Exception'), event=('deliver', tuple(cx.args)))]


deliver_stub.modifies = ('_recv_window', '_recv_paused')


def eof_told_stub(cx):
    """session.eof_received(): counted; its answer (keep the channel open for sending?) is arbitrary"""
    return [Out(ret=cx.fresh('bool', 'keep_open'), osets=on_self(cx, ghost_eof_told=bump(cx, 'ghost_eof_told')),
                event=('eof_told', ()))]


eof_told_stub.modifies = ('ghost_eof_told',)


def ordered_deliver_stub(cx):
    """legal callback order (RFC 4254 5.3: no data after EOF): data_received never follows eof_received"""
    cx.require('no-data-after-eof-was-told', cx.selff('ghost_eof_told').z == 0)
    return deliver_stub(cx)


ordered_deliver_stub.modifies = ('_recv_window', '_recv_paused')


def chan_eof_inv(c, new=False):
    """the session is told EOF at most once, only when nothing is left to deliver, and never while the receive
    side is still open / waiting to deliver (data is accepted in state 'open' only: _process_data)"""
    g = c.new if new else c.old
    t = g('ghost_eof_told')
    return z3.And(t >= 0, t <= 1,
                  z3.Implies(t == 1, z3.And(z3.Length(g('_recv_buf')) == 0,
                                            one_of(g('_recv_state'), ['eof', 'close_pending', 'closed']))),
                  z3.Implies(one_of(g('_recv_state'), ['open', 'eof_pending']), t == 0))


def is_starting(c, new=True):
    st = c.new_state if new else c.old_state
    v = c.newv('_recv_paused') if new else c.oldv('_recv_paused')
    return c.ex.veq(st, v, VStr('starting'))


def starting_is_truthy(c):
    """definitional: a value equal to the non-empty string 'starting' is truthy (the value of `_recv_paused` is of
    unknown dynamic type in the model: bool or str)"""
    return [z3.Implies(is_starting(c), c.truthy(c.newv('_recv_paused'))),
            z3.Implies(is_starting(c, new=False), c.truthy(c.oldv('_recv_paused'), c.old_state))]


def eof_pending_has_reason(c):
    """the peer's EOF stays pending only behind a paused reader with undelivered data, or while the session has not
    been started ('starting'): then resume_reading() / _start_reading() deliver it.  On EVERY exit (see
    close_pending_has_data)"""
    return z3.Implies(c.new('_recv_state') == z3.StringVal('eof_pending'),
                      z3.And(c.truthy(c.newv('_recv_paused')),
                             z3.Or(z3.Length(c.new('_recv_buf')) > 0, is_starting(c))))


def eof_told_once(c):
    """the session hears eof_received() exactly once, at the moment the receive side leaves eof_pending"""
    left = z3.And(c.old('_recv_state') == z3.StringVal('eof_pending'),
                  c.new('_recv_state') != z3.StringVal('eof_pending'))
    return delta(c, 'ghost_eof_told') == b2i(z3.And(left, attached(c, '_session')))


def write_eof_stub(cx):
    """write_eof() from 'open': the send side becomes eof_pending or (buffer already flushed) eof"""
    cx.require('send-side-open', cx.selff('_send_state').z == z3.StringVal('open'))
    s = cx.fresh('str', 'send_state')
    return [Out(sets={'_send_state': s}, assume=[one_of(s.z, ['eof_pending', 'eof'])], event=('write_eof', ()))]


write_eof_stub.modifies = ('_send_state',)


def decoder_inv(c):
    # set_encoding() creates the decoder together with the encoding (same precondition as in C08)
    return z3.Implies(c.truthy(c.oldv('_encoding'), c.old_state), z3.Not(isn(c.oldv('_decoder'))))


def close_pending_has_data(c):
    """a peer CLOSE stays pending only behind a paused reader with undelivered data buffered (so that
    resume_reading(), close() or abort() - the only things that can still happen locally - complete it).
    Must hold on EVERY exit: an exception that leaves the receive side close_pending with nothing buffered, or with
    reading un-paused, leaves nobody to complete the close (wait_closed() and every reader hang)"""
    return z3.Implies(c.new('_recv_state') == CLOSE_PENDING,
                      z3.And(z3.Length(c.new('_recv_buf')) > 0, c.truthy(c.newv('_recv_paused'))))


def on_raise(clause):
    """the clause, as an `always` entry that speaks about the exceptional exits only"""
    return lambda c: z3.BoolVal(True) if c.raised is None else clause(c)


def recv_step(c):
    """legal moves of the receive side inside a flush: eof_pending -> eof, close_pending -> closed, or none"""
    o, n = c.old('_recv_state'), c.new('_recv_state')
    return z3.Or(n == o, z3.And(o == z3.StringVal('eof_pending'), n == z3.StringVal('eof')),
                 z3.And(o == CLOSE_PENDING, n == CLOSED))


FLUSH_RECV_STUBS = {
    'self._deliver_data': reentrant(ordered_deliver_stub),
    'self._decoder.decode': may_raise(ret('str', 'decoded'), 'UnicodeDecodeError'),
    'self._session.eof_received': reentrant(eof_told_stub),
    'self.write_eof': write_eof_stub,
    'self._loop.call_soon': call_soon_stub,
}

class SinceLoopEntry:
    """view of a loop-invariant Ctx in which old* read the state at loop entry"""
    def __init__(self, c):
        self.c = c

    def old(self, n, ref=None):
        return self.c.at_entry(n)

    def __getattr__(self, n):
        return getattr(self.c, n)


def flush_recv_inv(c):
    """while data is delivered the handshake only moves by what a re-entrant close()/abort() of the session may
    do: the step relation hs_step / close_sent_once / recv_step holds from loop entry to now"""
    e = SinceLoopEntry(c)
    return z3.And(hs_inv(c, new=True), hs_step(e), close_sent_once(e), recv_step(e),
                  # (delivery itself never moves the receive side; only a re-entrant close()/abort() completes a
                  # pending peer close)
                  z3.Or(c.new('_recv_state') == e.old('_recv_state'),
                        z3.And(e.old('_recv_state') == CLOSE_PENDING, c.new('_recv_state') == CLOSED)),
                  chan_eof_inv(c, new=True), c.new('ghost_eof_told') == c.at_entry('ghost_eof_told'),
                  isn(c.newv('_session')) == isn(e.c.ex.get_field(e.c.loop_entry, e.c.self_ref, '_session')))


flush_recv = Spec(
    PROP, 'channel', 'SSHChannel._flush_recv_buf', self_class='SSHChannel',
    params=dict(exc='opt[opaque:Exc]'), classes=C9_CHAN_CLASSES, stubs=FLUSH_RECV_STUBS, falsy_sorts={'Any'},
    loops={1: LoopSpec(header='self._recv_buf and (not self._recv_paused)', invariant=flush_recv_inv,
                       variant=lambda c: z3.Length(c.new('_recv_buf')))},
    requires=lambda c: z3.And(hs_inv(c), decoder_inv(c), chan_eof_inv(c)),
    lemmas=starting_is_truthy,
    modifies=sorted({'_recv_buf', '_recv_window', '_recv_paused', '_recv_state', '_send_state',
                     'ghost_cleanup_sched', 'ghost_eof_told'} | set(CLOSE_MODIFIES)),
    # the two "stays pending only ..." clauses hold on EVERY exit: on normal return they are `post(...)` obligations,
    # on the raise paths `always(...)` ones (same clause; separate names so that the recorded finding F-C09-3, which
    # is about the raise paths of the pinned code, cannot mask a violation on a normal path)
    ensures=[('close-stays-pending-only-while-data-is-buffered', close_pending_has_data),
             ('eof-stays-pending-only-behind-undelivered-data', eof_pending_has_reason),
             ('cleanup-gets-the-error', lambda c: z3.And(*[
                 c.eq(e[1][0], c.argv('exc')) for e in c.events('sched_cleanup')]))],
    always=[('close-stays-pending-only-while-data-is-buffered', on_raise(close_pending_has_data)),
            ('eof-stays-pending-only-behind-undelivered-data', on_raise(eof_pending_has_reason)),
            ('eof-told-exactly-once-when-reached', eof_told_once),
            ('eof-inv', lambda c: chan_eof_inv(c, new=True)),
            ('one-cleanup-per-close', hs_step),
            ('recv-state-step', recv_step),
            ('class-inv', lambda c: hs_inv(c, new=True)),
            # (a session callback may close the channel: still at most one CLOSE packet)
            ('close-packet-exactly-once', close_sent_once)],
    raises={'ProtocolError': True,
            # whatever the session's data_received / eof_received raised
            'Exception': True})

process_close = Spec(
    PROP, 'channel', 'SSHChannel._process_close', self_class='SSHChannel',
    params=dict(_pkttype='int', _pktid='int', packet='obj:SSHPacket'),
    classes=dict(C9_CHAN_CLASSES, **PACKET_CLASSES), inline=dict(PACKET_INLINE), truthy=PACKET_TRUTHY,
    stubs={'self._close_send': contract_stub(lambda: close_send),
           'self._flush_recv_buf': contract_stub(lambda: flush_recv)},
    requires=lambda c: z3.And(hs_inv(c), decoder_inv(c), chan_eof_inv(c), packet_wf(c, c.argv('packet'))),
    modifies=sorted(set(close_send.modifies) | set(flush_recv.modifies)),
    ensures=[('our-close-sent-exactly-once', close_sent_once),
             ('send-side-closed', lambda c: c.new('_send_state') == CLOSED),
             ('recv-side-closing', lambda c: one_of(c.new('_recv_state'), ['close_pending', 'closed'])),
             ('close-stays-pending-only-while-data-is-buffered', close_pending_has_data),
             ('one-cleanup-per-close', hs_step),
             ('class-inv', lambda c: hs_inv(c, new=True))],
    always=[('never-two-cleanups', lambda c: delta(c, 'ghost_cleanup_sched') <= 1)],
    raises={'ProtocolError': True, 'PacketDecodeError': True, 'Exception': True})


# ------------------------------------------------------------------------------------------------ stream
# The per-datatype tables (_recv_buf, _read_waiters, _drain_waiters) are Python dicts with the concrete keys
# None (stdout/stdin) and possibly EXTENDED_DATA_STDERR = 1; they are built by `setup` hooks below.
ITEM = 'opaque:Item'          # what the stream buffers hold (data or exceptions): never inspected here
STREAM_FIELDS = {
    '_connection_lost': 'bool', '_exception': 'opt[' + ITEM + ']', '_eof_received': 'bool',
    '_write_paused': 'bool', '_loop': 'opt[opaque:Loop]',
    '_recv_buf': 'any', '_read_waiters': 'any', '_drain_waiters': 'any',
    'ghost_done': DONE_T,
}
STREAM_CLASSES = {'SSHStreamSession': STREAM_FIELDS}
STREAM_SHAPES = [      # (label, read datatypes, write datatypes)
    ('plain', (None,), (None,)),             # TCP / UNIX / agent / X11 channels: no extended data
    ('client', (None, 1), (None,)),          # client session: reads stderr
    ('server', (None,), (None, 1)),          # server session: writes stderr
]


def stream_setup(read_keys, write_keys, drains='seq'):
    def setup(ex, st):
        tables = {
            '_recv_buf': {k: ex.fresh(st, 'seq[' + ITEM + ']', f'recv_buf_{k}') for k in read_keys},
            '_read_waiters': {k: ex.fresh(st, 'opt[' + FUT + ']', f'read_waiter_{k}') for k in read_keys},
            '_drain_waiters': {k: ex.fresh(st, drains + '[' + FUT + ']', f'drain_waiters_{k}') for k in write_keys},
        }
        for f, d in tables.items():
            ref = st.alloc(VDict(d))
            st.set_field(ex.self_ref, f, ref)
            st.inputs['self.' + f] = ref
    return setup


def table(c, name, new=False):
    """{key: Value} of a per-datatype table in the old/new state"""
    st = c.new_state if new else c.old_state
    v = c.ex.get_field(st, c.self_ref, name)
    return c.ex.deref(st, v).items


def all_read_waiters_done(c):
    d = c.newv('ghost_done')
    return z3.And(*[when_set(w, lambda f: done_in(d, f.z)) for w in table(c, '_read_waiters').values()])


def all_drain_waiters_done(c):
    d = c.newv('ghost_done')
    return z3.And(*[forall_idx(ws.z, lambda f, k: done_in(d, f)) for ws in table(c, '_drain_waiters').values()])


def done_only_grows(c):
    f = z3.Const(fresh_name('f'), FutS)
    return z3.ForAll([f], z3.Implies(done_in(c.oldv('ghost_done'), f), done_in(c.newv('ghost_done'), f)))


def tables_unchanged(c, *names):
    out = []
    for n in names:
        o, nw = table(c, n), table(c, n, new=True)
        out.append(z3.BoolVal(list(o) == list(nw)))
        out.extend(c.eq(o[k], nw[k]) for k in o if k in nw)
    return z3.And(*out)


def blocked(c, new=False):
    g = c.new if new else c.old
    return z3.And(g('_write_paused'), z3.Not(g('_connection_lost')))


STREAM_INLINE = {
    'self._should_block_drain': ('stream', 'SSHStreamSession._should_block_drain'),
    'self._unblock_read': ('stream', 'SSHStreamSession._unblock_read'),
    'self.eof_received': ('stream', 'SSHStreamSession.eof_received'),
}


UNBLOCK_DRAIN_SPECS = []


def key_arg(c):
    """python key (None / 1) selected by the concrete `datatype` argument of this case"""
    v = c.argv('datatype')
    return None if v is VNone else concrete_int(v)


for _label, _rk, _wk in STREAM_SHAPES:
    for _dt in _rk:
        Spec(PROP, 'stream', 'SSHStreamSession._unblock_read', self_class='SSHStreamSession',
             params=dict(datatype='opt[int]'), classes=STREAM_CLASSES, stubs=dict(FUT_STUBS),
             setup=stream_setup(_rk, _wk), cases=[(f'{_label},datatype={_dt}', {'arg:datatype': _dt})],
             ensures=[('waiter-of-this-datatype-is-done', lambda c: when_set(
                 table(c, '_read_waiters')[key_arg(c)], lambda f: done_in(c.newv('ghost_done'), f.z))),
                 ('nothing-undone', done_only_grows),
                 ('tables-kept', lambda c: tables_unchanged(c, '_read_waiters', '_recv_buf', '_drain_waiters'))],
             raises={})

    for _dt in _wk:
        UNBLOCK_DRAIN_SPECS.append(Spec(
            PROP, 'stream', 'SSHStreamSession._unblock_drain', self_class='SSHStreamSession',
             params=dict(datatype='opt[int]'), classes=STREAM_CLASSES, stubs=dict(FUT_STUBS),
             inline={'self._should_block_drain': STREAM_INLINE['self._should_block_drain']},
             setup=stream_setup(_rk, _wk), cases=[(f'{_label},datatype={_dt}', {'arg:datatype': _dt})],
             loops={1: LoopSpec(
                 header='for waiter in self._drain_waiters[datatype]',
                 invariant=lambda c: z3.And(
                     forall_idx(c.extra['iter'].z, lambda f, k: done_in(c.newv('ghost_done'), f), hi=c.extra['i']),
                     done_only_grows(c)),
                 modifies=['ghost_done'])},
             ensures=[('unblocked-means-every-drain-waiter-of-this-datatype-is-done', lambda c: z3.Implies(
                 z3.Not(blocked(c)),
                 forall_idx(table(c, '_drain_waiters')[key_arg(c)].z,
                            lambda f, k: done_in(c.newv('ghost_done'), f)))),
                 ('nothing-undone', done_only_grows),
                 ('tables-kept', lambda c: tables_unchanged(c, '_read_waiters', '_recv_buf', '_drain_waiters'))],
             modifies=['ghost_done'], raises={}))


# _unblock_drain(datatype) at its call sites: by the contract verified above (same clauses for every shape)
unblock_drain_contract = contract_stub(lambda: UNBLOCK_DRAIN_SPECS[0])


def eof_inv(c):
    """class invariant: once EOF is latched no reader is (or gets) parked: eof_received() wakes all of them, and
    every caller of _block_read (read, readuntil, TunTap read) tests _eof_received in the same atomic step"""
    d = c.oldv('ghost_done')
    return z3.Implies(c.old('_eof_received'),
                      z3.And(*[when_set(w, lambda f: done_in(d, f.z)) for w in table(c, '_read_waiters').values()]))


def stream_lost_post():
    return [
        # no hung waiter: whatever was waiting on this session when the channel went away is woken up
        ('every-read-waiter-done', all_read_waiters_done),
        ('every-drain-waiter-done', all_drain_waiters_done),
        # and nothing can block afterwards: EOF is latched for readers, drain() no longer blocks
        ('eof-latched', lambda c: c.new('_eof_received')),
        ('drain-never-blocks-again', lambda c: z3.Not(blocked(c, new=True))),
        ('error-recorded-for-later-callers', lambda c: c.eq(c.newv('_exception'), c.argv('exc'))),
    ]


for _label, _rk, _wk in STREAM_SHAPES:
    Spec(PROP, 'stream', 'SSHStreamSession.eof_received', self_class='SSHStreamSession',
         classes=STREAM_CLASSES, stubs=dict(FUT_STUBS),
         inline={'self._unblock_read': STREAM_INLINE['self._unblock_read']},
         setup=stream_setup(_rk, _wk), cases=[(_label, {})],
         ensures=[('every-read-waiter-done', all_read_waiters_done), ('eof-latched', lambda c: c.new('_eof_received')),
                  ('eof-inv', lambda c: eof_inv(Flip(c)))],
         raises={})

    Spec(PROP, 'stream', 'SSHStreamSession.connection_lost', self_class='SSHStreamSession',
         params=dict(exc='opt[' + ITEM + ']'), classes=STREAM_CLASSES,
         stubs=dict(FUT_STUBS, **{'self._unblock_drain': unblock_drain_contract}),
         inline={'self._unblock_read': STREAM_INLINE['self._unblock_read'],
                 'self.eof_received': STREAM_INLINE['self.eof_received']},
         setup=stream_setup(_rk, _wk), cases=[(_label, {})],
         requires=eof_inv, ensures=stream_lost_post() + [('eof-inv', lambda c: eof_inv(Flip(c)))], raises={})


# ---- drain(): the awaited waiter is registered where connection_lost()/resume_writing() will find it ----
DRAIN_FIELDS = dict(STREAM_FIELDS, _drain_waiters='dict[opt[int],set[' + FUT + ']]')
DRAIN_CLASSES = {'SSHStreamSession': DRAIN_FIELDS}

should_block = Spec(
    PROP, 'stream', 'SSHStreamSession._should_block_drain', self_class='SSHStreamSession',
    params=dict(datatype='opt[int]'), classes=DRAIN_CLASSES, returns='bool', modifies=[],
    ensures=[('blocks-iff-paused-and-connected', lambda c: c.result == blocked(c))], raises={})


def drain_set(cx_or_state, ex, selfref, key):
    m = ex.get_field(cx_or_state, selfref, '_drain_waiters')
    return m, z3.Select(m.val, to_z3(key, m.kt))


def create_future_stub(cx):
    """loop.create_future(): a future nobody has seen yet - pending, not cancelled, in no waiter set"""
    f = cx.fresh(FUT, 'waiter')
    m = cx.selff('_drain_waiters')
    k = z3.Const(fresh_name('dt'), sort_of(m.kt))
    return [Out(ret=f, assume=[z3.Not(done_in(cx.selff('ghost_done'), f.z)), z3.Not(cancelled_fn(f.z)),
                               z3.ForAll([k], z3.Not(z3.Select(z3.Select(m.val, k), f.z)))])]


create_future_stub.modifies = ()


def await_drain_waiter_stub(cx):
    """`await waiter` inside drain(): a cut point.  Obligation: the awaited future is registered in
    _drain_waiters[datatype] (that is where connection_lost / resume_writing look for it).  Meanwhile the
    environment (other callbacks and coroutines of this session) may change the flags, resolve futures and
    add/remove *its own* waiters; the await returns when the future is done, or raises CancelledError."""
    w = cx.args[0]
    dt = cx.st.env['datatype']
    m, cur = drain_set(cx.st, cx.ex, cx.ex.self_ref, dt)
    kz = to_z3(dt, m.kt)
    cx.require('awaited-waiter-is-registered', z3.And(z3.Select(m.dom, kz), z3.Select(cur, w.z)))
    outs = []
    for exc in (None, VExc('CancelledError')):
        m2 = cx.fresh(DRAIN_FIELDS['_drain_waiters'], 'drain_waiters')
        d2 = cx.fresh(DONE_T, 'done')
        sets = {'_write_paused': cx.fresh('bool', 'write_paused'), '_connection_lost': cx.fresh('bool', 'lost'),
                '_exception': cx.fresh(DRAIN_FIELDS['_exception'], 'exception'), 'ghost_done': d2,
                '_drain_waiters': m2}
        assume = [m2.dom == m.dom, z3.Select(z3.Select(m2.val, kz), w.z)]
        if exc is None:
            assume.append(done_in(d2, w.z))
        outs.append(Out(sets=sets, assume=assume, exc=exc, event=('await', (w,))))
    return outs


await_drain_waiter_stub.modifies = ('_write_paused', '_connection_lost', '_exception', 'ghost_done',
                                    '_drain_waiters')


def key_known(c, new=False):
    m = c.newv('_drain_waiters') if new else c.oldv('_drain_waiters')
    return z3.Select(m.dom, to_z3(c.argv('datatype'), m.kt))


def must_fail(c):
    """after the connection is lost drain() must report it: the recorded error, or BrokenPipeError if output was
    still paused (data can no longer be flushed)"""
    return z3.And(c.new('_connection_lost'), z3.Or(z3.Not(isn(c.newv('_exception'))), c.new('_write_paused')))


drain = Spec(
    PROP, 'stream', 'SSHStreamSession.drain', self_class='SSHStreamSession',
    params=dict(datatype='opt[int]'), classes=DRAIN_CLASSES,
    stubs={'self._should_block_drain': contract_stub(lambda: should_block),
           'self._loop.create_future': create_future_stub, 'await waiter': await_drain_waiter_stub},
    loops={1: LoopSpec(header='self._should_block_drain(datatype)',
                       invariant=lambda c: z3.And(key_known(c, new=True), z3.Not(isn(c.newv('_loop')))))},
    requires=lambda c: z3.And(key_known(c), z3.Not(isn(c.oldv('_loop')))),
    ensures=[('returns-only-when-unblocked', lambda c: z3.Not(blocked(c, new=True))),
             ('never-returns-normally-on-a-lost-connection-with-an-error', lambda c: z3.Not(must_fail(c)))],
    raises={'CancelledError': True,
            'BrokenPipeError': lambda c: z3.And(must_fail(c), isn(c.newv('_exception'))),
            'Exception': lambda c: z3.And(must_fail(c), z3.Not(isn(c.newv('_exception'))))})


# ------------------------------------------------------------------------------------------------ connection
CHAN, LSN, LKEY = 'opaque:Chan', 'opaque:Listener', 'opaque:ListenKey'
ChanS, LsnS = sort_of(CHAN), sort_of(LSN)
chan_num = z3.Function('chan_recv_num', ChanS, IntS)      # the number a channel registered itself under

C9_CONN_FIELDS = {
    '_transport': 'opt[obj:Transport]', '_loop': 'opaque:Loop',
    '_channels': 'dict[int,' + CHAN + ']', '_local_listeners': 'dict[' + LKEY + ',' + LSN + ']',
    '_global_request_waiters': 'seq[' + FUT + ']',
    '_auth': 'opt[obj:Auth]', '_error_handler': 'opt[opaque:Handler]', '_acceptor': 'opt[opaque:Handler]',
    '_wait': 'opt[str]', '_waiter': 'opt[' + FUT + ']', '_owner': 'opt[obj:Owner]', '_tunnel': 'opt[obj:Tunnel]',
    '_close_event': 'opaque:Event', '_inpbuf': 'bytes',
    '_login_timer': 'opt[obj:Timer]', '_keepalive_timer': 'opt[obj:Timer]',
    # ghost state
    'ghost_done': DONE_T, 'ghost_close_event_set': 'bool',
    'ghost_listener_closed': 'dict[' + LSN + ',bool]',
    'ghost_cleanup_sched': 'int', 'ghost_abort_sched': 'int',
    'ghost_owner_lost': 'int', 'ghost_auth_cancelled': 'int', 'ghost_error_handler_calls': 'int',
    'ghost_tunnel_closed': 'int', 'ghost_timers_cancelled': 'int',
    'ghost_final_told': 'bool',           # within the running _cleanup: owner.connection_lost() has been called
}
C9_CONN_CLASSES = dict({'SSHConnection': C9_CONN_FIELDS, 'Transport': {}, 'Auth': {}, 'Owner': {}, 'Tunnel': {},
                        'Timer': {}}, **PACKET_CLASSES)

# ---- _force_close: any number of close triggers, one cleanup ----------------------------------------
force_close = Spec(
    PROP, 'connection', 'SSHConnection._force_close', self_class='SSHConnection',
    params=dict(exc='opt[opaque:Exc]'), classes=C9_CONN_CLASSES,
    stubs={'self._loop.call_soon': call_soon_stub},
    modifies=['_transport', 'ghost_cleanup_sched', 'ghost_abort_sched'],
    ensures=[
        ('one-cleanup-and-one-transport-abort-iff-still-open', lambda c: z3.And(
            delta(c, 'ghost_cleanup_sched') == b2i(attached(c, '_transport')),
            delta(c, 'ghost_abort_sched') == b2i(attached(c, '_transport')))),
        # ... so a second trigger (transport already cleared) schedules nothing
        ('transport-cleared', lambda c: isn(c.newv('_transport'))),
        ('cleanup-gets-the-error', lambda c: z3.And(*[c.eq(e[1][0], c.argv('exc'))
                                                      for e in c.events('sched_cleanup')])),
        ('abort-is-scheduled-before-cleanup', lambda c: z3.BoolVal(
            [e[0] for e in c.events() if e[0].startswith('sched_')] in ([], ['sched_abort', 'sched_cleanup']))),
    ],
    raises={})
call_soon_stub.modifies = ('ghost_cleanup_sched', 'ghost_abort_sched')


def force_close_call(cx):
    outs = contract_stub(lambda: force_close)(cx)
    for o in outs:
        o.event = ('force_close', tuple(cx.args))
    return outs


force_close_call.modifies = tuple(force_close.modifies)
force_close_call.spec_getter = lambda: force_close

conn_connection_lost = Spec(
    PROP, 'connection', 'SSHConnection.connection_lost', self_class='SSHConnection',
    params=dict(exc='opt[opaque:Exc]'), classes=C9_CONN_CLASSES,
    stubs={'self._force_close': force_close_call},
    modifies=force_close.modifies,
    ensures=[
        ('one-cleanup-iff-still-open', lambda c: delta(c, 'ghost_cleanup_sched') == b2i(attached(c, '_transport'))),
        ('transport-cleared', lambda c: isn(c.newv('_transport'))),
        ('force-close-on-every-path', lambda c: z3.BoolVal(len(c.events('force_close')) == 1)),
        # waiters of an open connection must fail with an error, not with "None"
        ('open-connection-closes-with-an-error', lambda c: z3.Implies(
            attached(c, '_transport'), z3.And(*[z3.Not(isn(e[1][0])) for e in c.events('force_close')]))),
    ],
    raises={})

# ---- _process_global_response: one waiter popped and resolved ---------------------------------------
def shifted(new, old):
    """new == old[1:]  (elementwise, no seq.extract in the statement)"""
    k = z3.Int(fresh_name('k'))
    return z3.And(z3.Length(new) == z3.Length(old) - 1,
                  z3.ForAll([k], z3.Implies(z3.And(0 <= k, k < z3.Length(new)), new[k] == old[k + 1])))


def only_changed(c, f):
    """ghost_done differs from its old value at most at future f"""
    g = z3.Const(fresh_name('g'), FutS)
    return z3.ForAll([g], z3.Implies(g != f, done_in(c.newv('ghost_done'), g) == done_in(c.oldv('ghost_done'), g)))


global_response = Spec(
    PROP, 'connection', 'SSHConnection._process_global_response', self_class='SSHConnection',
    params=dict(pkttype='int', _pktid='int', packet='obj:SSHPacket'), classes=C9_CONN_CLASSES,
    stubs=dict(FUT_STUBS),
    requires=lambda c: registry_ok(c.oldv('ghost_done'), c.old('_global_request_waiters')),
    modifies=['_global_request_waiters', 'ghost_done'],
    ensures=[('oldest-waiter-popped', lambda c: shifted(c.new('_global_request_waiters'),
                                                        c.old('_global_request_waiters'))),
             ('popped-waiter-resolved', lambda c: done_in(c.newv('ghost_done'), c.old('_global_request_waiters')[0])),
             ('nothing-else-touched', lambda c: only_changed(c, c.old('_global_request_waiters')[0])),
             ('class-inv', lambda c: registry_ok(c.newv('ghost_done'), c.new('_global_request_waiters')))],
    raises={'ProtocolError': lambda c: z3.Length(c.old('_global_request_waiters')) == 0})


# ---- SSHConnection._cleanup ---------------------------------------------------------------------------
def values_stub(cx):
    """<dict>.values(): a view; only list(view) is used"""
    return VTag('dictvalues', payload=cx.ex.deref(cx.st, cx.recv))


values_stub.modifies = ()


def list_of_values_stub(cx):
    """list(d.values()) for a symbolic dict d = (dom, val): a fresh list L with the *definition* of "the values
    of d, each key once": (L1) every element is the value of some key, (L2) every key's value occurs (at
    position pos(key)), (L3) |L| = number of keys, stated as pos being injective on dom with range [0, |L|)"""
    v = cx.args[0]
    if not (isinstance(v, VTag) and v.tag == 'dictvalues'):
        raise Unsupported('list() of something else than dict.values() in this contract')
    m = v.payload
    L = cx.fresh('seq[' + repr(m.vt) + ']', 'values')
    ks = sort_of(m.kt)
    key_at = z3.Function(fresh_name('key_at'), IntS, ks)
    pos = z3.Function(fresh_name('pos'), ks, IntS)
    i, k = z3.Int(fresh_name('i')), z3.Const(fresh_name('k'), ks)
    n = z3.Length(L.z)
    ax = [z3.ForAll([i], z3.Implies(z3.And(0 <= i, i < n),
                                    z3.And(z3.Select(m.dom, key_at(i)), z3.Select(m.val, key_at(i)) == L.z[i],
                                           pos(key_at(i)) == i))),
          z3.ForAll([k], z3.Implies(z3.Select(m.dom, k),
                                    z3.And(0 <= pos(k), pos(k) < n, L.z[pos(k)] == z3.Select(m.val, k),
                                           key_at(pos(k)) == k)))]
    cx.st.heap['__c09_lists__'] = tuple(cx.st.heap.get('__c09_lists__', ())) + ((L.z.get_id(), L.z, m, key_at, pos),)
    return [Out(ret=L, assume=ax)]


list_of_values_stub.modifies = ()


def snapshot_of(c, seq):
    for (i, L, m, key_at, pos) in c.new_state.heap.get('__c09_lists__', ()):
        if L.eq(seq):
            return m, key_at, pos
    raise Unsupported('loop does not iterate a list(dict.values()) snapshot')


def chan_close_stub(cx):
    """chan.process_connection_close(exc) by the channel contract proved above: the channel unregisters itself
    under its own number (remove_channel(_recv_chan), exactly once iff registered) - nothing else of the
    connection changes (add_channel refuses new channels once _transport is None)"""
    ch = cx.recv.z
    m = cx.selff('_channels')
    n = chan_num(ch)
    reg = z3.And(z3.Select(m.dom, n), z3.Select(m.val, n) == ch)
    dom2 = z3.If(reg, z3.Store(m.dom, n, False), m.dom)
    return [Out(osets=on_self(cx, _channels=VMap(dom2, m.val, m.kt, m.vt)),
                event=('chan_closed', (cx.recv,) + tuple(cx.args)))]


chan_close_stub.modifies = ('_channels',)


def listener_close_stub(cx):
    """listener.close(): the listener is closed; it may take itself (and only entries) out of _local_listeners"""
    g = cx.selff('ghost_listener_closed')
    m = cx.selff('_local_listeners')
    dom2 = z3.Const(fresh_name('listeners_dom'), m.dom.sort())
    k = z3.Const(fresh_name('k'), sort_of(m.kt))
    return [Out(osets=on_self(cx, ghost_listener_closed=VMap(g.dom, z3.Store(g.val, cx.recv.z, True), g.kt, g.vt),
                              _local_listeners=VMap(dom2, m.val, m.kt, m.vt)),
                assume=[z3.ForAll([k], z3.Implies(z3.Select(dom2, k), z3.Select(m.dom, k)))],
                event=('listener_closed', (cx.recv,)))]


listener_close_stub.modifies = ('ghost_listener_closed', '_local_listeners')


def counting(field, event, exc_too=False):
    def stub(cx):
        sets = on_self(cx, **{field: bump(cx, field)})
        ev = (event, tuple(cx.args))
        outs = [Out(osets=sets, event=ev)]
        if exc_too:
            outs.append(Out(osets=sets, exc=VExc('Exception'), event=ev))
        return outs
    stub.modifies = (field,)
    return stub


def cancel_timer_stub(which):
    def stub(cx):
        """_cancel_<which>_timer(): three-line helper (cancel the handle if set, forget it)"""
        return [Out(sets={which: VNone, 'ghost_timers_cancelled': bump(cx, 'ghost_timers_cancelled')},
                    event=('timer_cancelled', (VStr(which),)))]
    stub.modifies = (which, 'ghost_timers_cancelled')
    return stub


def chan_table_inv(c):
    """every registered channel is registered under its own number (add_channel returns the key it stores)"""
    m = c.oldv('_channels')
    k = z3.Int(fresh_name('k'))
    return z3.ForAll([k], z3.Implies(z3.Select(m.dom, k), chan_num(z3.Select(m.val, k)) == k))


def awaited(c):
    """somebody awaits self._waiter: _wait names the phase ('kex', 'auth', 'auth_methods') it waits for"""
    return c.truthy(c.oldv('_wait'), c.old_state)


def conn_waiter_inv(c, d=None, ws=None):
    """the connect/auth waiter is pending (or cancelled) while _wait names what is awaited, and it is not one of
    the global-request waiters"""
    d = d or c.oldv('ghost_done')
    ws = c.old('_global_request_waiters') if ws is None else ws
    w = c.oldv('_waiter')
    return z3.Implies(awaited(c),
                      when_set(w, lambda f: z3.And(pending_or_cancelled(d, f.z),
                                                   forall_idx(ws, lambda g, k: g != f.z))))


def chans_loop_inv(c):
    L, i = c.extra['iter'].z, c.extra['i']
    m0, key_at, pos = snapshot_of(c, L)
    m = c.newv('_channels')
    k = z3.Int(fresh_name('k'))
    return z3.And(
        m.val == m0.val,
        z3.ForAll([k], z3.Select(m.dom, k) == z3.And(z3.Select(m0.dom, k), pos(k) >= i)),
        c.new('_global_request_waiters') == c.old('_global_request_waiters'),
        c.newv('ghost_done').val == c.oldv('ghost_done').val)


def listeners_loop_inv(c):
    L, i = c.extra['iter'].z, c.extra['i']
    g = c.newv('ghost_listener_closed')
    return z3.And(forall_idx(L, lambda x, k: z3.Select(g.val, x), hi=i),
                  c.new('_global_request_waiters') == c.old('_global_request_waiters'),
                  c.newv('ghost_done').val == c.oldv('ghost_done').val,
                  no_channels(c))


def no_channels(c):
    k = z3.Int(fresh_name('k'))
    return z3.ForAll([k], z3.Not(z3.Select(c.newv('_channels').dom, k)))


def waiters_loop_inv(c):
    W, W0 = c.new('_global_request_waiters'), c.old('_global_request_waiters')
    d = c.newv('ghost_done')
    off = z3.Length(W0) - z3.Length(W)
    k = z3.Int(fresh_name('k'))
    return z3.And(
        off >= 0,
        z3.ForAll([k], z3.Implies(z3.And(0 <= k, k < z3.Length(W)), W[k] == W0[k + off])),   # W is a suffix of W0
        forall_idx(W0, lambda f, j: done_in(d, f), hi=off),                                     # popped ones are done
        registry_ok(d, W),
        conn_waiter_inv(c, d=d, ws=W),
        no_channels(c))


def all_listeners_closed(c):
    m0 = c.oldv('_local_listeners')
    g = c.newv('ghost_listener_closed')
    k = z3.Const(fresh_name('k'), sort_of(m0.kt))
    return z3.ForAll([k], z3.Implies(z3.Select(m0.dom, k), z3.Select(g.val, z3.Select(m0.val, k))))


# Finding F-C09-2 (notes/findings/c09_error_handler_raises.py, audit finding 4; fixed in /repo by 4a6a160):
# SSHConnection._cleanup used to call the application's error handler unprotected; when it raised, the waiter was
# not resolved, the owner not told and _close_event never set (wait_closed() hung).  The stub therefore has the
# raising outcome: without the try/except around the call `SSHConnection._cleanup#signals(Exception)` is refuted.
def owner_lost_stub(cx):
    sets = on_self(cx, ghost_owner_lost=bump(cx, 'ghost_owner_lost'), ghost_final_told=VBool(True))
    ev = ('owner_lost', tuple(cx.args))
    return [Out(osets=sets, event=ev), Out(osets=sets, exc=VExc('Exception'), event=ev)]


owner_lost_stub.modifies = ('ghost_owner_lost', 'ghost_final_told')


CONN_CLEANUP_STUBS = dict(FUT_STUBS, **{
    # by the contracts proved for the two helpers (Specs cancel_timer_specs)
    'self._cancel_keepalive_timer': contract_stub(lambda: cancel_timer_specs['_keepalive_timer']),
    'self._cancel_login_timer': contract_stub(lambda: cancel_timer_specs['_login_timer']),
    'self._channels.values': values_stub, 'self._local_listeners.values': values_stub,
    'list': list_of_values_stub,
    '*.set_result': before_final(FUT_STUBS['*.set_result']),
    '*.set_exception': before_final(FUT_STUBS['*.set_exception']),
    'chan.process_connection_close': before_final(chan_close_stub),
    'listener.close': before_final(listener_close_stub),
    'self._process_global_response': before_final(contract_stub(lambda: global_response)),
    'self._auth.cancel': before_final(counting('ghost_auth_cancelled', 'auth_cancelled')),
    # application callback (listen(..., error_handler=...)): it can raise anything
    'self._error_handler': before_final(counting('ghost_error_handler_calls', 'error_handler', exc_too=True)),
    'self._owner.connection_lost': owner_lost_stub,
    'self._tunnel.close': counting('ghost_tunnel_closed', 'tunnel_closed'),
    'self._close_event.set': event_set_stub,
})

cancel_timer_specs = {
    _f: Spec(PROP, 'connection', 'SSHConnection._cancel' + _f, self_class='SSHConnection', classes=C9_CONN_CLASSES,
             stubs={'self.' + _f + '.cancel': counting('ghost_timers_cancelled', 'timer_cancelled')},
             modifies=[_f, 'ghost_timers_cancelled'],
             ensures=[('timer-forgotten', lambda c, _f=_f: isn(c.newv(_f))),
                      ('running-timer-cancelled-once', lambda c, _f=_f:
                          delta(c, 'ghost_timers_cancelled') == b2i(attached(c, _f))),
                      ('one-cancel-call-at-most', lambda c: z3.BoolVal(len(c.events('timer_cancelled')) <= 1))],
             raises={})
    for _f in ('_keepalive_timer', '_login_timer')}

conn_cleanup = Spec(
    PROP, 'connection', 'SSHConnection._cleanup', self_class='SSHConnection',
    params=dict(exc='opt[opaque:Exc]'), classes=C9_CONN_CLASSES, stubs=CONN_CLEANUP_STUBS,
    inline=dict(PACKET_INLINE), setup=final_not_told_yet,
    loops={
        1: LoopSpec(header='for chan in list(self._channels.values())', invariant=chans_loop_inv),
        2: LoopSpec(header='for listener in list(self._local_listeners.values())', invariant=listeners_loop_inv),
        3: LoopSpec(header='self._global_request_waiters', invariant=waiters_loop_inv,
                    variant=lambda c: z3.Length(c.new('_global_request_waiters'))),
    },
    requires=lambda c: z3.And(chan_table_inv(c),
                              registry_ok(c.oldv('ghost_done'), c.old('_global_request_waiters')),
                              conn_waiter_inv(c)),
    ensures=[
        ('no-channel-stays-registered', no_channels),
        ('every-local-listener-closed', all_listeners_closed),
        ('every-global-request-waiter-resolved', lambda c: z3.And(
            forall_idx(c.old('_global_request_waiters'), lambda f, k: done_in(c.newv('ghost_done'), f)),
            z3.Length(c.new('_global_request_waiters')) == 0)),
        ('auth-cancelled-once-and-forgotten', lambda c: z3.And(
            delta(c, 'ghost_auth_cancelled') == b2i(attached(c, '_auth')), isn(c.newv('_auth')))),
        ('connect-waiter-resolved', lambda c: z3.Implies(
            awaited(c),
            when_set(c.oldv('_waiter'), lambda f: done_in(c.newv('ghost_done'), f.z)))),
        ('owner-notified-exactly-once-and-forgotten', lambda c: z3.And(
            delta(c, 'ghost_owner_lost') == b2i(attached(c, '_owner')), isn(c.newv('_owner')),
            z3.BoolVal(len(c.events('owner_lost')) <= 1))),
        # (state-only form of the clause above: this one is what callers get through contract_stub)
        ('owner-told-once-iff-attached-and-forgotten', lambda c: z3.And(
            delta(c, 'ghost_owner_lost') == b2i(attached(c, '_owner')), isn(c.newv('_owner')))),
        ('nothing-after-the-final-notification', lambda c: z3.BoolVal(
            not any(e[0] in ('chan_closed', 'resolve', 'error_handler', 'auth_cancelled')
                    for e in c.events()[([e[0] for e in c.events()] + ['owner_lost']).index('owner_lost'):]))),
        ('tunnel-closed-once-and-forgotten', lambda c: z3.And(
            delta(c, 'ghost_tunnel_closed') == b2i(attached(c, '_tunnel')), isn(c.newv('_tunnel')))),
        ('timers-cancelled', lambda c: z3.And(isn(c.newv('_login_timer')), isn(c.newv('_keepalive_timer')))),
        ('each-running-timer-cancelled-once', lambda c: delta(c, 'ghost_timers_cancelled') ==
            b2i(attached(c, '_login_timer')) + b2i(attached(c, '_keepalive_timer'))),
        ('close-event-set', lambda c: c.new('ghost_close_event_set')),
        ('input-buffer-dropped', lambda c: z3.Length(c.new('_inpbuf')) == 0),
    ],
    raises={})


# ------------------------------------------------------------------------------------------------
# Writers of the waiter registries: they keep the registry invariant that the cleanup functions rely on, and an
# awaited future is always registered where cleanup will find it ("no hung waiter").
def fresh_future_stub(registries):
    def stub(cx):
        """loop.create_future(): a future nobody has seen yet - pending, not cancelled, in no registry"""
        f = cx.fresh(FUT, 'waiter')
        assume = [z3.Not(done_in(cx.selff('ghost_done'), f.z)), z3.Not(cancelled_fn(f.z))]
        for name in registries:
            v = cx.selff(name)
            if isinstance(v, VSeq):
                assume.append(forall_idx(v.z, lambda g, k: g != f.z))
            else:
                assume.append(when_set(v, lambda o: o.z != f.z))
        return [Out(ret=f, assume=assume)]
    stub.modifies = ()
    return stub


def await_registered_stub(registry, inv, result_type):
    def stub(cx):
        """`await waiter`: a cut point.  Obligations: the awaited future is in `registry` and the class invariant
        holds (other coroutines run now).  Outcomes: the result, an exception set on the future, cancellation."""
        from pyvc.contracts import Ctx
        w = cx.args[0]
        ws = cx.selff(registry).z
        k = z3.Int(fresh_name('wit'))
        cx.require('awaited-waiter-is-registered',
                   z3.Exists([k], z3.And(0 <= k, k < z3.Length(ws), ws[k] == w.z)))
        if ws.decl().kind() == z3.Z3_OP_SEQ_CONCAT and ws.num_args() == 2 and \
                ws.arg(1).decl().kind() == z3.Z3_OP_SEQ_UNIT:
            # the registry is `old ++ [x]`: element-wise view of the append, proved (seq theory) before it is used
            w0, j = ws.arg(0), z3.Int(fresh_name('j'))
            cx.require('append-elementwise', z3.And(
                z3.Length(ws) == z3.Length(w0) + 1, ws[z3.Length(w0)] == ws.arg(1).arg(0),
                z3.ForAll([j], z3.Implies(z3.And(0 <= j, j < z3.Length(w0)), ws[j] == w0[j]))))
        c0 = Ctx(cx.ex, cx.st, cx.st, cx.ex.self_ref)
        cx.require('class-inv-at-await', inv(c0))
        outs = []
        for exc in (None, VExc('Exception'), VExc('CancelledError')):
            sets = {registry: cx.fresh('seq[' + FUT + ']', registry), 'ghost_done': cx.fresh(DONE_T, 'done')}
            outs.append(Out(ret=cx.fresh(result_type, 'result') if exc is None else VNone, sets=sets, exc=exc,
                            event=('await', (w,))))
        return outs
    stub.modifies = (registry, 'ghost_done')
    return stub


open_confirmation = Spec(
    PROP, 'channel', 'SSHChannel.process_open_confirmation', self_class='SSHChannel',
    params=dict(send_chan='int', send_window='int', send_pktsize='int', packet='obj:SSHPacket'),
    classes=dict(C9_CHAN_CLASSES, **PACKET_CLASSES), stubs=dict(FUT_STUBS), truthy=PACKET_TRUTHY,
    requires=lambda c: chan_registry_inv(c),
    ensures=[('opener-woken-and-forgotten', lambda c: z3.And(
        isn(c.newv('_open_waiter')),
        when_set(c.oldv('_open_waiter'), lambda o: done_in(c.newv('ghost_done'), o.z)))),
        ('class-inv', lambda c: z3.And(chan_registry_inv(c, new=True), hs_inv(c, new=True)))],
    raises={'ProtocolError': lambda c: isn(c.oldv('_open_waiter'))})

open_failure = Spec(
    PROP, 'channel', 'SSHChannel.process_open_failure', self_class='SSHChannel',
    params=dict(code='int', reason='str', lang='str'), classes=C9_CHAN_CLASSES,
    stubs=dict(FUT_STUBS, **{'self._loop.call_soon': call_soon_stub}),
    requires=lambda c: chan_registry_inv(c),
    ensures=[('opener-failed-and-forgotten', lambda c: z3.And(
        isn(c.newv('_open_waiter')),
        when_set(c.oldv('_open_waiter'), lambda o: done_in(c.newv('ghost_done'), o.z)))),
        ('cleanup-scheduled-exactly-once', lambda c: delta(c, 'ghost_cleanup_sched') == 1),
        ('class-inv', lambda c: chan_registry_inv(c, new=True))],
    raises={'ProtocolError': lambda c: z3.And(isn(c.oldv('_open_waiter')), delta(c, 'ghost_cleanup_sched') == 0)})

chan_response = Spec(
    PROP, 'channel', 'SSHChannel._process_response', self_class='SSHChannel',
    params=dict(pkttype='int', _pktid='int', packet='obj:SSHPacket'),
    classes=dict(C9_CHAN_CLASSES, **PACKET_CLASSES), inline=dict(PACKET_INLINE), truthy=PACKET_TRUTHY,
    stubs=dict(FUT_STUBS),
    requires=lambda c: z3.And(chan_registry_inv(c), packet_wf(c, c.argv('packet'))),
    ensures=[('oldest-waiter-popped', lambda c: shifted(c.new('_request_waiters'), c.old('_request_waiters'))),
             ('popped-waiter-resolved', lambda c: done_in(c.newv('ghost_done'), c.old('_request_waiters')[0])),
             ('nothing-else-touched', lambda c: only_changed(c, c.old('_request_waiters')[0])),
             ('class-inv', lambda c: chan_registry_inv(c, new=True))],
    raises={'ProtocolError': lambda c: z3.Length(c.old('_request_waiters')) == 0, 'PacketDecodeError': True})

make_request = Spec(
    PROP, 'channel', 'SSHChannel._make_request', self_class='SSHChannel',
    params=dict(request='bytes', args='seq[bytes]'), classes=C9_CHAN_CLASSES,
    stubs={'self._loop.create_future': fresh_future_stub(['_request_waiters', '_open_waiter']),
           'self._send_request': noop('send_request'),
           'await waiter': await_registered_stub('_request_waiters', chan_registry_inv, 'bool')},
    requires=lambda c: chan_registry_inv(c),
    ensures=[
        # after cleanup (_send_chan is None) nobody can be parked any more: immediate failure, nothing registered
        ('closed-channel-fails-immediately', lambda c: z3.Implies(
            isn(c.oldv('_send_chan')),
            z3.And(z3.BoolVal(len(c.events('await')) == 0), c.eq(c.result_v, VBool(False)),
                   c.new('_request_waiters') == c.old('_request_waiters'))))],
    raises={'Exception': True, 'CancelledError': True})

make_global_request = Spec(
    PROP, 'connection', 'SSHConnection._make_global_request', self_class='SSHConnection',
    params=dict(request='bytes', args='seq[bytes]'), classes=C9_CONN_CLASSES, inline=dict(PACKET_INLINE),
    stubs={'self._loop.create_future': fresh_future_stub(['_global_request_waiters', '_waiter']),
           'self._send_global_request': noop('send_global_request'),
           'await waiter': await_registered_stub(
               '_global_request_waiters',
               lambda c: z3.And(registry_ok(c.oldv('ghost_done'), c.old('_global_request_waiters')),
                                conn_waiter_inv(c)), 'any')},
    requires=lambda c: z3.And(registry_ok(c.oldv('ghost_done'), c.old('_global_request_waiters')),
                              conn_waiter_inv(c)),
    ensures=[
        # after _force_close (_transport is None) no new waiter is registered: immediate REQUEST_FAILURE
        ('closed-connection-fails-immediately', lambda c: z3.Implies(
            isn(c.oldv('_transport')),
            z3.And(z3.BoolVal(len(c.events('await')) == 0),
                   c.new('_global_request_waiters') == c.old('_global_request_waiters'))))],
    raises={'Exception': True, 'CancelledError': True})


# ================================================================================================
# Audit follow-up (notes/audit/C09.md).
# ---- (1) the cleanup that actually runs: SSHClientConnection._cleanup / SSHServerConnection._cleanup -------
# _force_close schedules `self._cleanup`, i.e. the override of the concrete class.  Contract of an override, from
# the property: whatever else it tidies up, the base cleanup (which resolves the waiters, closes the channels and
# tells the owner - Spec conn_cleanup above) runs exactly once, with the same error, on every path, and is the
# last thing that happens; the forwarding endpoints owned by the subclass are closed.
CONN_CLEANUP_MODIFIES = [
    '_keepalive_timer', '_login_timer', '_channels', '_local_listeners', '_global_request_waiters', '_auth',
    '_error_handler', '_acceptor', '_wait', '_owner', '_tunnel', '_inpbuf', 'ghost_done', 'ghost_close_event_set',
    'ghost_listener_closed', 'ghost_owner_lost', 'ghost_auth_cancelled', 'ghost_error_handler_calls',
    'ghost_tunnel_closed', 'ghost_timers_cancelled', 'ghost_final_told']
conn_cleanup.modifies = CONN_CLEANUP_MODIFIES


def base_cleanup_call(cx):
    """super()._cleanup(exc): by the contract of SSHConnection._cleanup proved above (its requires is an obligation
    here, its state clauses are assumed); the call is counted"""
    outs = contract_stub(lambda: conn_cleanup)(cx)
    for o in outs:
        o.sets['ghost_base_cleanups'] = bump(cx, 'ghost_base_cleanups')
        o.event = ('base_cleanup', tuple(cx.args))
    return outs


base_cleanup_call.modifies = tuple(CONN_CLEANUP_MODIFIES) + ('ghost_base_cleanups',)
base_cleanup_call.spec_getter = lambda: conn_cleanup


def endpoint_close_stub(cx):
    """close() of an agent / agent listener / remote port-forward listener object owned by the subclass"""
    return [Out(event=('endpoint_closed', (cx.recv,)))]


endpoint_close_stub.modifies = ()


def remote_listener_close_stub(cx):
    g = cx.selff('ghost_remote_closed')
    return [Out(osets=on_self(cx, ghost_remote_closed=VMap(g.dom, z3.Store(g.val, cx.recv.z, True), g.kt, g.vt)),
                event=('listener_closed', (cx.recv,)))]


remote_listener_close_stub.modifies = ('ghost_remote_closed',)


def override_post(extra=()):
    return [
        ('base-cleanup-exactly-once', lambda c: z3.And(delta(c, 'ghost_base_cleanups') == 1,
                                                       z3.BoolVal(len(c.events('base_cleanup')) == 1))),
        ('base-cleanup-gets-the-same-error', lambda c: z3.And(*[
            c.eq(e[1][0], c.argv('exc')) for e in c.events('base_cleanup')])),
        ('base-cleanup-comes-last', lambda c: z3.BoolVal(
            [e[0] for e in c.events() if e[0] in ('base_cleanup', 'endpoint_closed', 'listener_closed')][-1:]
            == ['base_cleanup'])),
        # what the base contract gives, seen through the override (state clauses of conn_cleanup)
        ('no-channel-stays-registered', no_channels),
        ('every-global-request-waiter-resolved', lambda c: z3.And(
            forall_idx(c.old('_global_request_waiters'), lambda f, k: done_in(c.newv('ghost_done'), f)),
            z3.Length(c.new('_global_request_waiters')) == 0)),
        ('connect-waiter-resolved', lambda c: z3.Implies(
            awaited(c), when_set(c.oldv('_waiter'), lambda f: done_in(c.newv('ghost_done'), f.z)))),
        ('owner-notified-exactly-once-and-forgotten', lambda c: z3.And(
            delta(c, 'ghost_owner_lost') == b2i(attached(c, '_owner')), isn(c.newv('_owner')))),
        ('close-event-set', lambda c: c.new('ghost_close_event_set')),
    ] + list(extra)


CLIENT_CONN_FIELDS = dict(C9_CONN_FIELDS, **{
    '_agent': 'opt[obj:Agent]', '_remote_listeners': 'dict[' + LKEY + ',' + LSN + ']',
    '_dynamic_remote_listeners': 'dict[' + LKEY + ',' + LSN + ']', 'ghost_base_cleanups': 'int',
    'ghost_remote_closed': 'dict[' + LSN + ',bool]'})
SERVER_CONN_FIELDS = dict(C9_CONN_FIELDS, **{'_agent_listener': 'opt[obj:Agent]', 'ghost_base_cleanups': 'int'})


def conn_classes(name, fields):
    d = dict(C9_CONN_CLASSES)
    del d['SSHConnection']
    d[name] = fields
    d['Agent'] = {}
    return d


def all_remote_listeners_closed(c):
    m0 = c.oldv('_remote_listeners')
    g = c.newv('ghost_remote_closed')
    k = z3.Const(fresh_name('k'), sort_of(m0.kt))
    return z3.ForAll([k], z3.Implies(z3.Select(m0.dom, k), z3.Select(g.val, z3.Select(m0.val, k))))


def remote_listeners_loop_inv(c):
    L, i = c.extra['iter'].z, c.extra['i']
    g = c.newv('ghost_remote_closed')
    return z3.And(forall_idx(L, lambda x, k: z3.Select(g.val, x), hi=i),
                  *[c.eq(c.oldv(f), c.newv(f)) for f in ('_global_request_waiters', '_wait', '_waiter', '_owner')],
                  c.newv('ghost_done').val == c.oldv('ghost_done').val,
                  c.newv('_channels').dom == c.oldv('_channels').dom,
                  c.newv('_channels').val == c.oldv('_channels').val,
                  c.new('ghost_base_cleanups') == c.old('ghost_base_cleanups'))


def dict_truthiness(c, f):
    """definition of bool(d) for the (old) dict field f: d is truthy iff it has a key"""
    m = c.oldv(f)
    k = z3.Const(fresh_name('k'), sort_of(m.kt))
    return [z3.Implies(z3.Not(c.truthy(m, c.old_state)), z3.ForAll([k], z3.Not(z3.Select(m.dom, k))))]


def empty_table(c, f):
    v = c.ex.deref(c.new_state, c.newv(f))
    if isinstance(v, VDict):            # a dict literal assigned by the code
        return z3.BoolVal(len(v.items) == 0)
    k = z3.Const(fresh_name('k'), sort_of(v.kt))
    return z3.ForAll([k], z3.Not(z3.Select(v.dom, k)))


client_conn_cleanup = Spec(
    PROP, 'connection', 'SSHClientConnection._cleanup', self_class='SSHClientConnection',
    params=dict(exc='opt[opaque:Exc]'), classes=conn_classes('SSHClientConnection', CLIENT_CONN_FIELDS),
    stubs={'self._agent.close': endpoint_close_stub,
           'self._remote_listeners.values': values_stub, 'list': list_of_values_stub,
           'tcp_listener.close': remote_listener_close_stub,
           'isinstance': ret('bool', 'is_connection_lost'), 'str': ret('str', 'text'),
           'super()._cleanup': base_cleanup_call},
    loops={1: LoopSpec(header='for tcp_listener in list(self._remote_listeners.values())',
                       invariant=remote_listeners_loop_inv)},
    requires=conn_cleanup.requires, lemmas=lambda c: dict_truthiness(c, '_remote_listeners'),
    ensures=override_post([
        ('every-remote-listener-closed', all_remote_listeners_closed),
        ('remote-listener-tables-emptied', lambda c: z3.And(
            empty_table(c, '_remote_listeners'),
            z3.Or(z3.Not(c.truthy(c.oldv('_remote_listeners'), c.old_state)),
                  empty_table(c, '_dynamic_remote_listeners')))),
        ('agent-closed-once-iff-present', lambda c: z3.BoolVal(len(c.events('endpoint_closed')) == 1) ==
            attached(c, '_agent')),
    ]),
    raises={})

server_conn_cleanup = Spec(
    PROP, 'connection', 'SSHServerConnection._cleanup', self_class='SSHServerConnection',
    params=dict(exc='opt[opaque:Exc]'), classes=conn_classes('SSHServerConnection', SERVER_CONN_FIELDS),
    stubs={'self._agent_listener.close': endpoint_close_stub, 'super()._cleanup': base_cleanup_call},
    requires=conn_cleanup.requires,
    ensures=override_post([
        ('agent-listener-closed-once-iff-present-and-forgotten', lambda c: z3.And(
            z3.BoolVal(len(c.events('endpoint_closed')) == 1) == attached(c, '_agent_listener'),
            isn(c.newv('_agent_listener')))),
    ]),
    raises={})


# ---- (3) no channel registers on a closed connection: add_channel / remove_channel, the only writers of _channels
# besides the channels' own unregistration ---------------------------------------------------------------
TWO32 = 1 << 32
ADDCHAN_FIELDS = {'_transport': 'opt[obj:Transport]', '_channels': 'dict[int,' + CHAN + ']', '_next_recv_chan': 'int',
                  'ghost_free_slot': 'int'}
ADDCHAN_CLASSES = {'SSHConnection': ADDCHAN_FIELDS, 'Transport': {}}


def chan_table_inv_new(c):
    return chan_table_inv(Flip(c))


def table_wf(c, new=False):
    """channel numbers are uint32 (add_channel masks them)"""
    m = c.newv('_channels') if new else c.oldv('_channels')
    nx = c.new('_next_recv_chan') if new else c.old('_next_recv_chan')
    k = z3.Int(fresh_name('k'))
    return z3.And(0 <= nx, nx < TWO32, z3.ForAll([k], z3.Implies(z3.Select(m.dom, k), z3.And(0 <= k, k < TWO32))))


def free_slot(c):
    """fewer than 2**32 channels are open: some number (ghost witness) is free"""
    g = c.old('ghost_free_slot')
    return z3.And(0 <= g, g < TWO32, z3.Not(z3.Select(c.oldv('_channels').dom, g)))


add_channel = Spec(
    PROP, 'connection', 'SSHConnection.add_channel', self_class='SSHConnection', params=dict(chan=CHAN),
    classes=ADDCHAN_CLASSES, returns='int',
    loops={1: LoopSpec(header='self._next_recv_chan in self._channels',
                       invariant=lambda c: z3.And(0 <= c.new('_next_recv_chan'), c.new('_next_recv_chan') < TWO32),
                       # the scan reaches the free number: distance to it, modulo 2**32
                       variant=lambda c: (c.old('ghost_free_slot') - c.new('_next_recv_chan')) % TWO32)},
    requires=lambda c: z3.And(chan_table_inv(c), table_wf(c), free_slot(c)),
    # chan_num (ghost) is DEFINED here: the number add_channel hands to a channel (each channel object is added
    # once, by its constructor - Spec chan_init below)
    lemmas=lambda c: [chan_num(c.arg('chan')) == c.result] if c.raised is None else [],
    modifies=['_channels', '_next_recv_chan'],
    ensures=[
        # "no channel stays registered on a closed connection": after _force_close nothing can be added
        ('refuses-on-a-closed-connection', lambda c: attached(c, '_transport')),
        ('registers-under-a-fresh-number', lambda c: z3.And(
            0 <= c.result, c.result < TWO32, z3.Not(z3.Select(c.oldv('_channels').dom, c.result)),
            c.newv('_channels').dom == z3.Store(c.oldv('_channels').dom, c.result, True),
            c.newv('_channels').val == z3.Store(c.oldv('_channels').val, c.result, c.arg('chan')))),
        ('class-inv', lambda c: z3.And(chan_table_inv_new(c), table_wf(c, new=True)))],
    raises={'ChannelOpenError': lambda c: z3.And(
        isn(c.oldv('_transport')),
        c.newv('_channels').dom == c.oldv('_channels').dom, c.newv('_channels').val == c.oldv('_channels').val)})

remove_channel = Spec(
    PROP, 'connection', 'SSHConnection.remove_channel', self_class='SSHConnection', params=dict(recv_chan='int'),
    classes=ADDCHAN_CLASSES, modifies=['_channels'],
    requires=lambda c: z3.And(chan_table_inv(c), table_wf(c)),
    ensures=[('only-that-number-unregistered', lambda c: z3.And(
        z3.Select(c.oldv('_channels').dom, c.arg('recv_chan')),
        c.newv('_channels').dom == z3.Store(c.oldv('_channels').dom, c.arg('recv_chan'), False),
        c.newv('_channels').val == c.oldv('_channels').val)),
        ('class-inv', lambda c: z3.And(chan_table_inv_new(c), table_wf(c, new=True)))],
    raises={'KeyError': lambda c: z3.And(
        z3.Not(z3.Select(c.oldv('_channels').dom, c.arg('recv_chan'))),
        c.newv('_channels').dom == c.oldv('_channels').dom)})


# ---- SSHChannel.__init__: establishes the channel's class invariants and registers the channel exactly once --
INIT_CHAN_FIELDS = dict(C9_CHAN_FIELDS, **{
    '_extra': 'any', '_errors': 'str', '_env': 'any', '_str_env': 'any', '_command': 'any', '_subsystem': 'any',
    '_request_queue': 'any', '_logger': 'any', 'ghost_registered_as': 'opt[int]'})


def add_channel_stub(cx):
    """conn.add_channel(self) by its contract (Spec add_channel): a number, or ChannelOpenError on a closed
    connection; the registration is recorded in the channel's ghost field"""
    n = cx.fresh('int', 'recv_chan')
    return [Out(ret=n, osets=on_self(cx, ghost_registered_as=n), event=('add_channel', tuple(cx.args))),
            Out(exc=VExc('ChannelOpenError'), event=('add_channel_refused', tuple(cx.args)))]


add_channel_stub.modifies = ('ghost_registered_as',)


def set_encoding_stub(cx):
    """set_encoding(): the decoder exists exactly when an encoding is set (its 8 lines are C08's business)"""
    enc = cx.args[0]
    dec = cx.fresh('opt[obj:Decoder]', 'decoder')
    return [Out(sets={'_encoding': enc, '_decoder': dec},
                assume=[isn(dec) == z3.Not(cx.ex.truthy(cx.st, enc))])]


set_encoding_stub.modifies = ('_encoding', '_decoder')

chan_init = Spec(
    PROP, 'channel', 'SSHChannel.__init__', self_class='SSHChannel',
    params=dict(conn='obj:Conn', loop='opaque:Loop', encoding='opt[str]', errors='str', window='int',
                max_pktsize='int'),
    classes=dict(C9_CHAN_CLASSES, SSHChannel=INIT_CHAN_FIELDS),
    stubs={'conn.add_channel': add_channel_stub, 'asyncio.Event': ret('opaque:Event', 'close_event'),
           'conn.logger.get_child': ret('any', 'logger'), 'self.set_encoding': set_encoding_stub,
           'self.set_write_buffer_limits': ret('none', 'limits', modifies=('_send_high_water', '_send_low_water'))},
    requires=lambda c: isn(c.oldv('ghost_registered_as')),
    ensures=[
        ('registered-exactly-once-under-the-number-it-remembers', lambda c: z3.And(
            z3.BoolVal(len(c.events('add_channel')) == 1),
            *[c.eq(e[1][0], c.self_ref) for e in c.events('add_channel')],
            z3.Not(isn(c.newv('_recv_chan'))), c.eq(c.newv('_recv_chan'), c.newv('ghost_registered_as')))),
        ('attached-to-the-connection-it-registered-with', lambda c: z3.And(
            z3.Not(isn(c.newv('_conn'))), c.eq(c.newv('_conn'), c.argv('conn')))),
        ('no-waiter-no-session-yet', lambda c: z3.And(isn(c.newv('_open_waiter')), isn(c.newv('_session')),
                                                      z3.Length(c.new('_request_waiters')) == 0)),
        ('both-sides-closed-until-the-open-completes', lambda c: z3.And(
            c.new('_send_state') == CLOSED, c.new('_recv_state') == CLOSED, isn(c.newv('_send_chan')))),
        ('class-inv', lambda c: z3.And(chan_registry_inv(c, new=True), hs_inv(c, new=True),
                                       decoder_inv(Flip(c)))),
    ],
    # the constructor fails (nothing was registered, the object is dropped) on a closed connection
    raises={'ChannelOpenError': lambda c: z3.BoolVal(len(c.events('add_channel')) == 0)})


# ---- (2) pending operation "read": _block_read and the wait step of read / readuntil / TunTap read ----------
# Class invariant eof_inv (above, table form) in map form: once EOF is latched, no reader is parked on a pending
# future.  Writers: eof_received / connection_lost (above), _block_read (here; it is the only function that stores
# a waiter), whose precondition "EOF not latched" is an obligation at each of its three call sites.
OFUT = parse_type('opt[' + FUT + ']')
OFutS = sort_of(OFUT)
ofut_is_none, ofut_val = OFutS.recognizer(0), OFutS.accessor(1, 0)
KT9 = 'opt[int]'
BLOCK_READ_FIELDS = {'_loop': 'opt[opaque:Loop]', '_eof_received': 'bool',
                     '_read_waiters': 'dict[' + KT9 + ',opt[' + FUT + ']]', 'ghost_done': DONE_T}


def eof_inv_map(eof, m, d):
    k = z3.Const(fresh_name('dt'), sort_of(m.kt))
    slot = z3.Select(m.val, k)
    return z3.Implies(eof, z3.ForAll([k], z3.Implies(z3.Select(m.dom, k),
                                                     z3.Or(ofut_is_none(slot), done_in(d, ofut_val(slot))))))


def slot_of(c, new=False):
    m = c.newv('_read_waiters') if new else c.oldv('_read_waiters')
    return z3.Select(m.val, to_z3(c.argv('datatype'), m.kt))


def read_future_stub(cx):
    """loop.create_future(): a future nobody has seen yet - pending, not cancelled"""
    f = cx.fresh(FUT, 'waiter')
    return [Out(ret=f, assume=[z3.Not(done_in(cx.selff('ghost_done'), f.z)), z3.Not(cancelled_fn(f.z))])]


read_future_stub.modifies = ()


def await_read_waiter_stub(cx):
    """`await waiter` inside _block_read(): a cut point.  Obligations: the awaited future is the one stored in
    _read_waiters[datatype] (where data_received / eof_received / connection_lost look for it) and the class
    invariant holds when control leaves.  The environment may latch EOF, resolve futures and park/unpark readers of
    OTHER datatypes, keeping the class invariant (proved on eof_received, connection_lost and here); this reader's
    slot is its own (readers of one datatype are serialised by the read lock)."""
    w = cx.args[0]
    m = cx.selff('_read_waiters')
    kz = to_z3(cx.st.env['datatype'], m.kt)
    cx.require('awaited-waiter-is-registered',
               z3.And(z3.Select(m.dom, kz), z3.Select(m.val, kz) == OFutS.constructor(1)(w.z)))
    cx.require('class-inv-at-await', eof_inv_map(cx.selff('_eof_received').z, m, cx.selff('ghost_done')))
    outs = []
    for exc in (None, VExc('CancelledError')):
        m2 = cx.fresh(BLOCK_READ_FIELDS['_read_waiters'], 'read_waiters')
        d2 = cx.fresh(DONE_T, 'done')
        eof2 = cx.fresh('bool', 'eof')
        assume = [m2.dom == m.dom, z3.Select(m2.val, kz) == z3.Select(m.val, kz),
                  eof_inv_map(eof2.z, m2, d2)]
        if exc is None:
            assume.append(done_in(d2, w.z))
        outs.append(Out(sets={'_read_waiters': m2, 'ghost_done': d2, '_eof_received': eof2}, assume=assume, exc=exc,
                        event=('await', (w,))))
    return outs


await_read_waiter_stub.modifies = ('_read_waiters', 'ghost_done', '_eof_received')

c9_block_read = Spec(
    PROP, 'stream', 'SSHStreamSession._block_read', self_class='SSHStreamSession',
    params=dict(datatype=KT9), classes={'SSHStreamSession': BLOCK_READ_FIELDS},
    stubs={'self._loop.create_future': read_future_stub, 'await waiter': await_read_waiter_stub},
    requires=lambda c: z3.And(
        z3.Not(isn(c.oldv('_loop'))),
        z3.Select(c.oldv('_read_waiters').dom, to_z3(c.argv('datatype'), KT9)),
        # the callers' obligation (stated at the three call sites below): never park once EOF is latched
        z3.Not(c.old('_eof_received')),
        eof_inv_map(c.old('_eof_received'), c.oldv('_read_waiters'), c.oldv('ghost_done'))),
    ensures=[('returns-only-after-its-waiter-was-resolved', lambda c: z3.And(
        z3.BoolVal(len(c.events('await')) == 1),
        *[done_in(c.newv('ghost_done'), e[1][0].z) for e in c.events('await')]))],
    always=[('waiter-slot-cleared', lambda c: ofut_is_none(slot_of(c, new=True))),
            ('eof-inv', lambda c: eof_inv_map(c.new('_eof_received'), c.newv('_read_waiters'), c.newv('ghost_done')))],
    raises={'CancelledError': True})


# read / readuntil: the Specs of contracts/c19.py (their loop invariants and environment model, see its ASSUMPTIONS:
# rely condition at the awaits, lock step) re-run under C09 with the C09 clause at the wait step: the call of
# _block_read is reached only with EOF not latched (the other preconditions of c9_block_read - loop set, datatype
# known - are C19's wf()).  C19's data clauses are not repeated here.
import copy as _copy
import ast as _ast9
from . import c19 as _c19


def park_stub(cx):
    """await self._block_read(datatype) at a call site: precondition of c9_block_read, then C19's suspension"""
    cx.require('never-parks-once-eof-is-latched', z3.Not(cx.selff('_eof_received').z))
    return _c19.await_stub(cx)


park_stub.modifies = tuple(_c19.await_stub.modifies)


def c9_reader(sp, label):
    cl = _copy.copy(sp)
    cl.prop = PROP
    cl.stubs = dict(sp.stubs, **{'self._block_read': park_stub})
    cl.loops = dict(sp.loops)
    cl.cases = [(label, {})]
    cl.ensures = []
    cl.always = []
    cl.raises = {k: True for k in sp.raises}
    cl.lemmas = None
    Spec.registry.append(cl)
    return cl


c9_read = c9_reader(_c19.read, 'read')
c9_readuntil_literal = c9_reader(_c19.readuntil_literal, 'literal-separator')
c9_readuntil_newline = c9_reader(_c19.readuntil_newline, 'newline')


# the third caller of _block_read: the TUN/TAP override of read (packet-preserving; not covered by C19)
def tuntap_env_stub(extra_req=None):
    def stub(cx):
        """a suspension (or the synchronous call-out of _maybe_resume_reading into the channel): the environment
        may append packets and latch EOF"""
        if extra_req is not None:
            cx.require(*extra_req(cx))
        m = cx.selff('_recv_buf')
        sets = {'_recv_buf': VMap(m.dom, z3.Const(fresh_name('env_recv_buf'), m.val.sort()), m.kt, m.vt),
                '_recv_buf_len': cx.fresh('int', 'env_len'), '_eof_received': cx.fresh('bool', 'env_eof')}
        return [Out(sets=sets, event=('env', ())), Out(exc=VExc('CancelledError'))]
    stub.modifies = ('_recv_buf', '_recv_buf_len', '_eof_received')
    return stub


c9_tuntap_read = Spec(
    PROP, 'stream', 'SSHTunTapStreamSession.read', self_class='SSHTunTapStreamSession',
    params=dict(datatype=KT9, n='int', exact='bool'),
    classes={'SSHTunTapStreamSession': {'_recv_buf': 'dict[' + KT9 + ',seq[bytes]]', '_recv_buf_len': 'int',
                                        '_eof_received': 'bool', '_read_locks': 'dict[' + KT9 + ',opaque:Lock]'}},
    stubs={'self._maybe_resume_reading': noop('resume'),
           # (only used once the override takes the read lock, see notes/findings/c09_tuntap_concurrent_reads.patch)
           'with self._read_locks[]': tuntap_env_stub(),
           'self._block_read': tuntap_env_stub(lambda cx: ('never-parks-once-eof-is-latched',
                                                           z3.Not(cx.selff('_eof_received').z)))},
    loops={1: LoopSpec(header='not self._eof_received',
                       invariant=lambda c: z3.Select(c.newv('_recv_buf').dom, to_z3(c.argv('datatype'), KT9)),
                       modifies=['_recv_buf', '_recv_buf_len', '_eof_received'])},
    requires=lambda c: z3.And(z3.Select(c.oldv('_recv_buf').dom, to_z3(c.argv('datatype'), KT9)),
                              z3.Select(c.oldv('_read_locks').dom, to_z3(c.argv('datatype'), KT9))),
    returns='bytes',
    ensures=[], raises={'CancelledError': True})
c9_tuntap_read.alias_map_lists = True


# ---- (2) pending operation "SFTP request": SFTPClientHandler._cleanup / _process_packet -----------------------
REQS_T = 'dict[int,' + FUT + ']'
SFTP_FIELDS = {'_requests': REQS_T, '_loop': 'opaque:Loop', '_next_pktid': 'int',
               '_reader': 'opt[obj:Reader]', '_writer': 'opt[obj:Writer]',
               'ghost_done': DONE_T, 'ghost_base_cleanups': 'int', 'ghost_writer_closed': 'int'}
SFTP_CLASSES = dict({'SFTPClientHandler': SFTP_FIELDS, 'Reader': {}, 'Writer': {}}, **PACKET_CLASSES)


def sftp_registry_inv(c, new=False):
    """every outstanding request has its own future, pending or cancelled (the _make_request that awaits it may
    have been cancelled)"""
    m = c.newv('_requests') if new else c.oldv('_requests')
    d = c.newv('ghost_done') if new else c.oldv('ghost_done')
    md = c.ex.deref(c.new_state if new else c.old_state, m)
    if isinstance(md, VDict):           # a dict literal assigned by the code: `{}` holds trivially
        return z3.BoolVal(len(md.items) == 0)
    j, k = z3.Int(fresh_name('j')), z3.Int(fresh_name('k'))
    return z3.And(
        z3.ForAll([k], z3.Implies(z3.Select(m.dom, k), pending_or_cancelled(d, z3.Select(m.val, k)))),
        z3.ForAll([j, k], z3.Implies(z3.And(z3.Select(m.dom, j), z3.Select(m.dom, k), j != k),
                                     z3.Select(m.val, j) != z3.Select(m.val, k))))


def sftp_loop_inv(c):
    L, i = c.extra['iter'].z, c.extra['i']
    d = c.newv('ghost_done')
    return z3.And(distinct_seq(L),
                  forall_idx(L, lambda f, k: done_in(d, f), hi=i),
                  forall_idx(L, lambda f, k: pending_or_cancelled(d, f), lo=i),
                  c.newv('_requests').dom == c.oldv('_requests').dom,
                  c.newv('_requests').val == c.oldv('_requests').val)


sftp_base_cleanup = Spec(
    PROP, 'sftp', 'SFTPHandler._cleanup', self_class='SFTPClientHandler',
    params=dict(exc='opt[opaque:Exc]'), classes=SFTP_CLASSES,
    stubs={'self._writer.close': counting('ghost_writer_closed', 'writer_closed')},
    modifies=['_reader', '_writer', 'ghost_writer_closed'],
    ensures=[('writer-closed-once-iff-open', lambda c: delta(c, 'ghost_writer_closed') == b2i(attached(c, '_writer'))),
             ('writer-forgotten', lambda c: isn(c.newv('_writer'))),
             ('reader-loop-stops', lambda c: z3.Implies(attached(c, '_writer'), isn(c.newv('_reader'))))],
    raises={})


def sftp_base_cleanup_stub(cx):
    """await super()._cleanup(exc) by the contract of SFTPHandler._cleanup (Spec sftp_base_cleanup); counted"""
    outs = contract_stub(lambda: sftp_base_cleanup)(cx)
    for o in outs:
        o.sets['ghost_base_cleanups'] = bump(cx, 'ghost_base_cleanups')
        o.event = ('base_cleanup', tuple(cx.args))
    return outs


sftp_base_cleanup_stub.modifies = ('ghost_base_cleanups', '_reader', '_writer', 'ghost_writer_closed')
sftp_base_cleanup_stub.spec_getter = lambda: sftp_base_cleanup


def all_requests_failed(c):
    m0 = c.oldv('_requests')
    d = c.newv('ghost_done')
    k = z3.Int(fresh_name('k'))
    return z3.ForAll([k], z3.Implies(z3.Select(m0.dom, k), done_in(d, z3.Select(m0.val, k))))


sftp_cleanup = Spec(
    PROP, 'sftp', 'SFTPClientHandler._cleanup', self_class='SFTPClientHandler',
    params=dict(exc='opt[opaque:Exc]'), classes=SFTP_CLASSES,
    stubs=dict(FUT_STUBS, **{'self._requests.values': values_stub, 'list': list_of_values_stub,
                             'str': ret('str', 'text'), 'super()._cleanup': sftp_base_cleanup_stub}),
    loops={1: LoopSpec(header='for waiter in list(self._requests.values())', invariant=sftp_loop_inv,
                       modifies=['ghost_done'])},
    requires=lambda c: sftp_registry_inv(c),
    modifies=['_requests', 'ghost_done', 'ghost_base_cleanups', '_reader', '_writer', 'ghost_writer_closed'],
    ensures=[
        ('every-outstanding-request-resolved', all_requests_failed),
        # ("... fails with an error", never with None: pre-at-call obligation exception-is-an-exception in the loop)
        ('request-table-emptied', lambda c: empty_table(c, '_requests')),
        ('base-cleanup-exactly-once-with-the-same-error', lambda c: z3.And(
            delta(c, 'ghost_base_cleanups') == 1, z3.BoolVal(len(c.events('base_cleanup')) == 1),
            *[c.eq(e[1][0], c.argv('exc')) for e in c.events('base_cleanup')])),
        ('writer-closed', lambda c: isn(c.newv('_writer'))),
        # (state-only forms, usable at call sites)
        ('base-cleanup-exactly-once', lambda c: delta(c, 'ghost_base_cleanups') == 1),
        ('reader-loop-stops', lambda c: z3.Implies(attached(c, '_writer'), isn(c.newv('_reader')))),
        ('class-inv', lambda c: sftp_registry_inv(c, new=True)),
    ],
    raises={})


def sftp_cleanup_call(cx):
    outs = contract_stub(lambda: sftp_cleanup)(cx)
    for o in outs:
        o.event = ('cleanup', tuple(cx.args))
    return outs


sftp_cleanup_call.modifies = tuple(sftp_cleanup.modifies)
sftp_cleanup_call.spec_getter = lambda: sftp_cleanup


def only_removed(c, key):
    m0, m1 = c.oldv('_requests'), c.newv('_requests')
    return z3.And(m1.dom == z3.Store(m0.dom, key, False), m1.val == m0.val)


sftp_process_packet = Spec(
    PROP, 'sftp', 'SFTPClientHandler._process_packet', self_class='SFTPClientHandler',
    params=dict(pkttype='int', pktid='int', packet='obj:SSHPacket'), classes=SFTP_CLASSES,
    stubs=dict(FUT_STUBS, **{'self._cleanup': sftp_cleanup_call, 'SFTPBadMessage': ret('opaque:Exc', 'bad_message')}),
    requires=lambda c: sftp_registry_inv(c),
    ensures=[
        ('answered-request-resolved-and-forgotten', lambda c: z3.Implies(
            z3.Select(c.oldv('_requests').dom, c.arg('pktid')),
            z3.And(done_in(c.newv('ghost_done'), z3.Select(c.oldv('_requests').val, c.arg('pktid'))),
                   only_removed(c, c.arg('pktid')),
                   only_changed(c, z3.Select(c.oldv('_requests').val, c.arg('pktid'))),
                   z3.BoolVal(len(c.events('cleanup')) == 0)))),
        # a response nobody waits for means the two sides are out of step: every request is failed, session closed
        ('unknown-id-fails-every-request', lambda c: z3.Implies(
            z3.Not(z3.Select(c.oldv('_requests').dom, c.arg('pktid'))),
            z3.And(all_requests_failed(c), empty_table(c, '_requests'), isn(c.newv('_writer')),
                   z3.BoolVal(len(c.events('cleanup')) == 1)))),
        ('class-inv', lambda c: sftp_registry_inv(c, new=True)),
    ],
    raises={})


# ---- SFTP requests are registered where the cleanup finds them ----------------------------------------
def sftp_write_stub(cx):
    """writer.write(): ConnectionError subclasses when the channel refuses the write"""
    return [Out(event=('sent', tuple(cx.args))), Out(exc=VExc('BrokenPipeError'))]


sftp_write_stub.modifies = ()


sftp_send_packet = Spec(
    PROP, 'sftp', 'SFTPHandler.send_packet', self_class='SFTPClientHandler',
    params=dict(pkttype='int', pktid='opt[int]', args='seq[bytes]'), classes=SFTP_CLASSES,
    stubs={'self._writer.write': sftp_write_stub, 'self.log_sent_packet': noop('log'),
           'UInt32': ret('bytes', 'uint32'), 'Byte': ret('bytes', 'byte'), 'str': ret('str', 'text')},
    modifies=[],
    ensures=[('sent-only-on-an-open-session', lambda c: attached(c, '_writer'))],
    # once the cleanup has dropped the writer every request is refused before anybody can wait for its answer
    raises={'SFTPNoConnection': lambda c: isn(c.oldv('_writer')),
            'SFTPConnectionLost': lambda c: attached(c, '_writer')})
sftp_send_packet.vararg = 'args'


def sftp_send_packet_call(cx):
    """self.send_packet(pkttype, pktid, hdr, *args) by the contract of Spec sftp_send_packet (the payload is not
    looked at here, so the mixed positional/star argument list is not rebuilt)"""
    gone = isn(cx.selff('_writer'))
    return [Out(assume=[z3.Not(gone)], event=('sent', ())), Out(exc=VExc('SFTPNoConnection'), assume=[gone]),
            Out(exc=VExc('SFTPConnectionLost'), assume=[z3.Not(gone)])]


sftp_send_packet_call.modifies = ()
sftp_send_packet_call.spec_getter = lambda: sftp_send_packet


def registered_as(c, key, new=True):
    m = c.newv('_requests') if new else c.oldv('_requests')
    return z3.And(z3.Select(m.dom, key), z3.Select(m.val, key) == c.arg('waiter'))


def id_free(c):
    """the id about to be used is not outstanding (ids are handed out in sequence modulo 2**32: this fails only if
    a request stays unanswered while 2**32 others are issued)"""
    return z3.Not(z3.Select(c.oldv('_requests').dom, c.old('_next_pktid')))


def fresh_for_requests(c):
    """the future passed in is not yet the waiter of another request (it comes from create_future())"""
    m = c.oldv('_requests')
    k = z3.Int(fresh_name('k'))
    return z3.And(pending_or_cancelled(c.oldv('ghost_done'), c.arg('waiter')),
                  z3.ForAll([k], z3.Implies(z3.Select(m.dom, k), z3.Select(m.val, k) != c.arg('waiter'))))


sftp_send_request = Spec(
    PROP, 'sftp', 'SFTPClientHandler._send_request', self_class='SFTPClientHandler',
    params=dict(pkttype='int', args='seq[bytes]', waiter=FUT), classes=SFTP_CLASSES,
    stubs={'self.send_packet': sftp_send_packet_call,
           'UInt32': ret('bytes', 'uint32'), 'String': ret('bytes', 'string')},
    requires=lambda c: z3.And(sftp_registry_inv(c), id_free(c), fresh_for_requests(c)),
    modifies=['_requests', '_next_pktid'],
    ensures=[('sent-only-on-an-open-session', lambda c: attached(c, '_writer'))],
    # registered BEFORE anything can fail: on every outcome the waiter is in the table (if sending failed nobody
    # awaits it: Spec sftp_make_request)
    always=[('waiter-registered-under-a-fresh-id', lambda c: z3.And(
        registered_as(c, c.old('_next_pktid')),
        c.newv('_requests').dom == z3.Store(c.oldv('_requests').dom, c.old('_next_pktid'), True),
        c.newv('_requests').val == z3.Store(c.oldv('_requests').val, c.old('_next_pktid'), c.arg('waiter')))),
        ('class-inv', lambda c: sftp_registry_inv(c, new=True))],
    raises={'SFTPNoConnection': lambda c: isn(c.oldv('_writer')), 'SFTPConnectionLost': True})


def await_sftp_waiter_stub(cx):
    """`await waiter` in SFTPClientHandler._make_request: a cut point.  Obligations: the awaited future is a value
    of _requests (where _cleanup / _process_packet find it), class invariant holds.  The await returns the
    (type, packet) response, raises the exception the cleanup set, or is cancelled."""
    from pyvc.contracts import Ctx
    w = cx.args[0]
    m = cx.selff('_requests')
    k = z3.Int(fresh_name('wit'))
    cx.require('awaited-waiter-is-registered', z3.Exists([k], z3.And(z3.Select(m.dom, k), z3.Select(m.val, k) == w.z)))
    cx.require('class-inv-at-await', sftp_registry_inv(Ctx(cx.ex, cx.st, cx.st, cx.ex.self_ref)))
    outs = []
    for exc in (None, VExc('Exception'), VExc('CancelledError')):
        sets = {'_requests': cx.fresh(REQS_T, 'requests'), 'ghost_done': cx.fresh(DONE_T, 'done'),
                '_writer': cx.fresh(SFTP_FIELDS['_writer'], 'writer')}
        r = VTuple([cx.fresh('int', 'resptype'), cx.fresh('obj:SSHPacket', 'resp')]) if exc is None else VNone
        outs.append(Out(ret=r, sets=sets, exc=exc, event=('await', (w,))))
    return outs


await_sftp_waiter_stub.modifies = ('_requests', 'ghost_done', '_writer')


def fresh_request_future_stub(cx):
    """loop.create_future(): a future nobody has seen yet - pending, not cancelled, no request's waiter"""
    f = cx.fresh(FUT, 'waiter')
    m = cx.selff('_requests')
    k = z3.Int(fresh_name('k'))
    return [Out(ret=f, assume=[z3.Not(done_in(cx.selff('ghost_done'), f.z)), z3.Not(cancelled_fn(f.z)),
                               z3.ForAll([k], z3.Implies(z3.Select(m.dom, k), z3.Select(m.val, k) != f.z))])]


fresh_request_future_stub.modifies = ()

sftp_make_request = Spec(
    PROP, 'sftp', 'SFTPClientHandler._make_request', self_class='SFTPClientHandler',
    params=dict(pkttype='int', args='seq[bytes]'), classes=SFTP_CLASSES,
    # the request/wait step: `waiter = create_future(); self._send_request(...); resptype, resp = await waiter`
    # (decoding of the response that follows is C13/C16's business)
    region=lambda fn: [s for s in fn.body if not isinstance(s, _ast9.Expr) or
                       not isinstance(s.value, _ast9.Constant)][:3],
    stubs={'self._loop.create_future': fresh_request_future_stub,
           'self._send_request': contract_stub(lambda: sftp_send_request), 'await waiter': await_sftp_waiter_stub},
    requires=lambda c: z3.And(sftp_registry_inv(c), id_free(c)),
    always=[
        # after cleanup (_writer is None) nobody is parked: the request fails before the wait
        ('closed-session-fails-immediately', lambda c: z3.Implies(
            isn(c.oldv('_writer')), z3.BoolVal(len(c.events('await')) == 0)))],
    raises={'SFTPNoConnection': True, 'SFTPConnectionLost': True, 'Exception': True, 'CancelledError': True})


# ---- (2) pending operation "channel open": SSHChannel._open, the only creator of _open_waiter --------------
def await_open_waiter_stub(cx):
    """`await self._open_waiter`: a cut point.  Obligations: what is awaited is the future stored in _open_waiter
    (where _cleanup / process_open_confirmation / process_open_failure find it) and the class invariant holds.
    Outcomes: the confirmation packet, the ChannelOpenError set by cleanup / open failure, cancellation."""
    from pyvc.contracts import Ctx
    w = cx.args[0]
    cx.require('awaited-waiter-is-registered', z3.Not(isn(w)))      # the expression awaited IS the registry slot
    c0 = Ctx(cx.ex, cx.st, cx.st, cx.ex.self_ref)
    cx.require('class-inv-at-await', chan_registry_inv(c0))
    outs = []
    for exc in (None, VExc('ChannelOpenError'), VExc('CancelledError')):
        sets = {'_open_waiter': cx.fresh(C9_CHAN_FIELDS['_open_waiter'], 'open_waiter'),
                '_request_waiters': cx.fresh('seq[' + FUT + ']', 'request_waiters'),
                'ghost_done': cx.fresh(DONE_T, 'done')}
        outs.append(Out(ret=cx.fresh('obj:SSHPacket', 'confirmation') if exc is None else VNone, sets=sets, exc=exc,
                        event=('await', (w,))))
    return outs


await_open_waiter_stub.modifies = ('_open_waiter', '_request_waiters', 'ghost_done')

chan_open = Spec(
    PROP, 'channel', 'SSHChannel._open', self_class='SSHChannel',
    params=dict(chantype='bytes', args='seq[bytes]'), classes=dict(C9_CHAN_CLASSES, **PACKET_CLASSES),
    stubs={'self._loop.create_future': fresh_future_stub(['_request_waiters', '_open_waiter']),
           'self._conn.send_packet': noop('open_sent'),
           # packet encoders are abstract here (their range checks are C08's)
           'String': ret('bytes', 'string'), 'UInt32': ret('bytes', 'uint32'),
           'await self._open_waiter': await_open_waiter_stub},
    # a channel object is opened once (create()/_open_* of each channel class call _open exactly once, right after
    # the constructor): no earlier opener is parked on _open_waiter
    requires=lambda c: z3.And(chan_registry_inv(c), hs_inv(c), isn(c.oldv('_open_waiter'))),
    ensures=[('the-open-request-was-sent-and-waited-for', lambda c: z3.BoolVal(
        [e[0] for e in c.events() if e[0] in ('open_sent', 'await')] == ['open_sent', 'await']))],
    raises={
        # an already open channel: nothing registered, nobody parked
        'OSError': lambda c: z3.And(c.old('_send_state') != CLOSED, isn(c.newv('_open_waiter')),
                                    z3.BoolVal(len(c.events('await')) == 0)),
        # the channel was cleaned up before it was opened (connection lost right after the constructor): fails
        # without parking anybody (robustness of this path is C10's)
        'AssertionError': lambda c: z3.And(isn(c.oldv('_conn')), z3.BoolVal(len(c.events('await')) == 0)),
        'ChannelOpenError': True, 'CancelledError': True})
chan_open.vararg = 'args'


# ---- (3) conn_waiter_inv on its remaining writers: the five sites that resolve SSHConnection._waiter ---------
# send_newkeys, send_userauth_success, _process_userauth_failure, _process_userauth_success (two sites): each is
# one `if self._wait == <phase> and self._waiter and not self._waiter.cancelled(): set_result(None); ...;
# self._wait = None` statement, run here as a region of its function.  (__init__, the only other writer of
# _wait/_waiter, takes the waiter from the options: create_future() in connect()/listen(), pending.)
def waiter_site(n):
    def pick(fn):
        sites = [s for s in _ast9.walk(fn) if isinstance(s, _ast9.If) and any(
            isinstance(x, _ast9.Attribute) and x.attr == 'cancelled' and isinstance(x.value, _ast9.Attribute)
            and x.value.attr == '_waiter' for x in _ast9.walk(s.test))]
        sites.sort(key=lambda s: s.lineno)
        return [sites[n]]
    return pick


WAITER_SITE_FIELDS = {'_wait': 'opt[str]', '_waiter': 'opt[' + FUT + ']', '_global_request_waiters': 'seq[' + FUT + ']',
                      '_auth_methods': 'any', 'ghost_done': DONE_T}


def waiter_site_post():
    return [
        ('phase-cleared-exactly-when-its-waiter-is-woken', lambda c: z3.And(
            z3.BoolVal(len(c.events('resolve')) <= 1),
            z3.BoolVal(len(c.events('resolve')) == 1) == z3.And(attached(c, '_wait'), isn(c.newv('_wait'))),
            z3.Or(isn(c.newv('_wait')), c.eq(c.newv('_wait'), c.oldv('_wait'))))),
        ('class-inv', lambda c: z3.And(conn_waiter_inv(Flip(c)),
                                       registry_ok(c.newv('ghost_done'), c.new('_global_request_waiters')))),
    ]


def _bind_region_locals(ex, st):
    # a local of _process_userauth_failure computed before the region (the name-list just parsed)
    st.env.setdefault('auth_methods', ex.fresh(st, parse_type('seq[bytes]'), 'auth_methods'))


def woken_by_its_own_event(phase):
    """from the protocol, not from the code: which protocol event ends which waiting phase of connect()/listen():
    'kex' - the first key exchange completes (send_newkeys); 'auth' - authentication succeeds (server:
    send_userauth_success, client: USERAUTH_SUCCESS); 'auth_methods' - the server's answer to the 'none' probe
    arrives (USERAUTH_FAILURE with the method list, or USERAUTH_SUCCESS of the probe itself)"""
    def clause(c):
        mine = c.eq(c.oldv('_wait'), VStr(phase))
        w = c.oldv('_waiter')
        return z3.And(
            z3.Implies(mine, when_set(w, lambda f: z3.Implies(
                z3.Not(cancelled_fn(f.z)), z3.And(done_in(c.newv('ghost_done'), f.z), isn(c.newv('_wait')))))),
            z3.Implies(z3.Not(mine), z3.And(z3.BoolVal(len(c.events('resolve')) == 0),
                                            c.eq(c.newv('_wait'), c.oldv('_wait')))))
    return ('connect-waiter-of-this-phase-woken-by-this-event', clause)


_PKT_PARAMS = {'_pkttype': 'int', '_pktid': 'int', 'packet': 'any'}
for _fn, _n, _params, _phase in [
        ('send_newkeys', 0, {'k': 'bytes', 'h': 'bytes'}, 'kex'), ('send_userauth_success', 0, {}, 'auth'),
        ('_process_userauth_failure', 0, _PKT_PARAMS, 'auth_methods'),
        ('_process_userauth_success', 0, _PKT_PARAMS, 'auth_methods'),
        ('_process_userauth_success', 1, _PKT_PARAMS, 'auth')]:
    Spec(PROP, 'connection', 'SSHConnection.' + _fn, self_class='SSHConnection', params=_params,
         classes={'SSHConnection': WAITER_SITE_FIELDS}, stubs=dict(FUT_STUBS), region=waiter_site(_n),
         setup=_bind_region_locals,
         cases=[(f'waiter-site-{_n}', {})],
         requires=lambda c: z3.And(conn_waiter_inv(c),
                                   registry_ok(c.oldv('ghost_done'), c.old('_global_request_waiters'))),
         ensures=waiter_site_post() + [woken_by_its_own_event(_phase)], raises={})


# ---- frames: the engine havocs exactly `modifies` when a Spec is used through contract_stub and does not check
# that list itself, so every Spec used as a callee contract gets the obligation "no other declared field changes"
def frame_clause(spec):
    def frame(c):
        decl = spec.classes[spec.self_class]
        conj = []
        for f in sorted(decl):
            if f in (spec.modifies or ()):
                continue
            conj.append(same_value(c, c.oldv(f), c.newv(f)))
        return z3.And(*conj) if conj else z3.BoolVal(True)
    return ('frame', frame)


def same_value(c, a, b):
    da, db = c.ex.deref(c.old_state, a), c.ex.deref(c.new_state, b)
    if isinstance(da, VMap) and isinstance(db, VMap):
        return z3.And(da.dom == db.dom, da.val == db.val)
    if isinstance(da, VDict) and isinstance(db, VDict):       # concrete-key tables (dict literals, setup tables)
        if list(da.items) != list(db.items):
            return z3.BoolVal(False)
        return z3.And(*[same_value(c, da.items[k], db.items[k]) for k in da.items], z3.BoolVal(True))
    return c.ex.veq(c.new_state, a, b)


for _sp in [close_send, discard_recv, flush_send, flush_recv, chan_close, chan_abort, chan_cleanup, force_close,
            global_response, should_block, conn_cleanup, sftp_cleanup, sftp_base_cleanup, sftp_send_request,
            sftp_send_packet] + list(cancel_timer_specs.values()) + UNBLOCK_DRAIN_SPECS:
    if _sp.modifies is not None:
        _sp.always.append(frame_clause(_sp))


# ------------------------------------------------------------------------------------------------
# Queue of *received* global requests (_global_request_queue): every queued request is eventually serviced.
#   Q  whenever the queue is non-empty its head - and only its head - has been started (handler called or the
#      immediate failure reported): started - completed == (1 if queue else 0), completed = appended - len(queue).
#      So when a request completes and the queue is non-empty the next one is started, whatever want_reply was.
#   R  one reply per request that asked for one: replies sent + replies still owed by queued requests
#      == number of queued-so-far requests with want_reply.
#   FIFO: requests complete from the front only (the queue after a step is a suffix of the queue before), so the
#      replies go out in arrival order.
# _report_global_response and _service_next_global_request are mutually recursive: each is verified against the
# other's contract (partial correctness; the recursion depth is bounded by the queue length because every
# _report_global_response pops one entry: clause `fifo` is strict).
GQE = 'tuple[opt[opaque:Handler],opaque:Pkt,bool]'     # (handler, packet, want_reply)
GQ_T = 'seq[' + GQE + ']'
GQ_FIELDS = {
    '_global_request_queue': GQ_T,
    'ghost_gq_appended': 'int',       # requests ever queued
    'ghost_gq_started': 'int',        # requests whose servicing has started
    'ghost_gq_replies': 'int',        # REQUEST_SUCCESS / REQUEST_FAILURE packets sent
    'ghost_gq_wanted': 'int',         # requests ever queued with want_reply
}
GQ_CLASSES = dict({'SSHConnection': GQ_FIELDS}, **PACKET_CLASSES)
GQ_MOD = ['_global_request_queue', 'ghost_gq_started', 'ghost_gq_replies']
gq_wanted = z3.Function('gq_wanted', sort_of(GQ_T), IntS)     # how many entries ask for a reply (recursive; instances)


def gq_want(elem):
    return from_z3(elem, GQE).items[2].z


def gq_cons_instance(q):
    """definition of gq_wanted at q = [h] ++ t (and at the empty list)"""
    n = z3.Length(q)
    return z3.And(gq_wanted(z3.Empty(q.sort())) == 0,
                  z3.Implies(n > 0, gq_wanted(q) == b2i(gq_want(q[0])) + gq_wanted(z3.Extract(q, z3.IntVal(1), n - 1))))


def gq_setup(ex, st):
    st.assume(gq_cons_instance(ex.get_field(st, ex.self_ref, '_global_request_queue').z))


def gq_completed(g):
    return g('ghost_gq_appended') - z3.Length(g('_global_request_queue'))


def gq_Q(c, new=False):
    g = c.new if new else c.old
    return z3.And(g('ghost_gq_started') - gq_completed(g) == b2i(z3.Length(g('_global_request_queue')) > 0),
                  gq_completed(g) >= 0)


def gq_R(c, new=False):
    g = c.new if new else c.old
    return g('ghost_gq_replies') + gq_wanted(g('_global_request_queue')) == g('ghost_gq_wanted')


def gq_head(c, started):
    """queue non-empty and its head has (started=1) / has not yet (started=0) been started"""
    return z3.And(z3.Length(c.old('_global_request_queue')) > 0,
                  c.old('ghost_gq_started') - gq_completed(c.old) == started, gq_completed(c.old) >= 0)


def gq_suffix(c, strict):
    q0, q1 = c.old('_global_request_queue'), c.new('_global_request_queue')
    off = z3.Length(q0) - z3.Length(q1)
    k = z3.Int(fresh_name('k'))
    return z3.And(off >= (1 if strict else 0),
                  z3.ForAll([k], z3.Implies(z3.And(0 <= k, k < z3.Length(q1)), q1[k] == q0[k + off])))


def gq_reply_stub(cx):
    t = concrete_int(cx.args[0])
    if t in (81, 82):       # MSG_REQUEST_SUCCESS / MSG_REQUEST_FAILURE
        return [Out(sets={'ghost_gq_replies': bump(cx, 'ghost_gq_replies')}, event=('reply', (cx.args[0],)))]
    return [Out(event=('packet', tuple(cx.args)))]


gq_reply_stub.modifies = ('ghost_gq_replies',)


def gq_start_then_report(cx, result, event):
    """servicing of the head request starts (ghost) and it is completed at once by _report_global_response(result),
    taken by its contract"""
    from pyvc.engine import CallCtx
    started = bump(cx, 'ghost_gq_started')
    s2 = cx.st.fork()
    s2.set_field(cx.ex.self_ref, 'ghost_gq_started', started)
    cx2 = CallCtx(cx.ex, s2, 'self._report_global_response', cx.ex.self_ref, [result], {}, cx.node)
    outs = contract_stub(lambda: gq_report)(cx2)
    for o in outs:
        o.sets.setdefault('ghost_gq_started', started)
        o.event = event
    for lab, z in cx2.requires:
        cx.require('report:' + lab, z)
    return outs


def gq_handler_stub(cx):
    """handler(packet): servicing of the head request starts.  The handler either finishes later (a task calls
    _report_global_response when it is done) or reports synchronously before it returns."""
    ev = ('handler', tuple(cx.args))
    return [Out(sets={'ghost_gq_started': bump(cx, 'ghost_gq_started')}, event=ev)] + \
        gq_start_then_report(cx, cx.fresh('any', 'result'), ev)


def gq_immediate_failure_stub(cx):
    """_service_next_global_request -> self._report_global_response(False) for a request nobody handles: reporting
    the failure IS the servicing of that request"""
    return gq_start_then_report(cx, cx.args[0], ('immediate_failure', tuple(cx.args)))


gq_immediate_failure_stub.modifies = tuple(GQ_MOD)
gq_immediate_failure_stub.spec_getter = lambda: gq_report
gq_handler_stub.modifies = tuple(GQ_MOD)


def gq_append_stub(cx):
    """self._global_request_queue.append((handler, packet, want_reply)): list.append with the packet object
    abstracted to a token; ghost bookkeeping of what has been queued"""
    h, _p, w = cx.args[0].items
    q = cx.selff('_global_request_queue')
    tok = cx.fresh('opaque:Pkt', 'pkt')
    x = to_z3(VTuple([h, tok, w]), GQE)
    q2 = z3.Concat(q.z, z3.Unit(x))
    return [Out(sets={'_global_request_queue': VSeq(q2, GQE),
                      'ghost_gq_appended': bump(cx, 'ghost_gq_appended'),
                      'ghost_gq_wanted': VInt(cx.selff('ghost_gq_wanted').z + b2i(w.z))},
                # definition of gq_wanted at q ++ [x]
                assume=[gq_wanted(q2) == gq_wanted(q.z) + b2i(w.z)], event=('queued', (w,)))]


gq_append_stub.modifies = ('_global_request_queue', 'ghost_gq_appended', 'ghost_gq_wanted')


def gq_direct_reply(c):
    """on the path itself (not counting what the next request's servicing does): exactly one reply iff the
    completed request asked for one, SUCCESS iff the result is true"""
    n = len(c.events('reply'))
    head = c.old('_global_request_queue')[0]
    conj = [z3.BoolVal(n <= 1), z3.BoolVal(n == 1) == gq_want(head)]
    for e in c.events('reply'):
        conj.append((e[1][0].z == 81) == c.truthy(c.argv('result'), c.old_state))
    return z3.And(*conj)


gq_report = Spec(
    PROP, 'connection', 'SSHConnection._report_global_response', self_class='SSHConnection',
    params=dict(result='any'), classes=GQ_CLASSES, falsy_sorts={'Any'}, setup=gq_setup,
    stubs={'self.send_packet': gq_reply_stub,
           'self._service_next_global_request': contract_stub(lambda: gq_service)},
    requires=lambda c: z3.And(gq_head(c, 1), gq_R(c)),
    modifies=GQ_MOD,
    ensures=[('next-queued-request-is-started-whatever-want-reply-was', lambda c: gq_Q(c, new=True)),
             ('one-reply-per-request-that-asked', lambda c: gq_R(c, new=True)),
             ('this-request-answered-iff-it-asked', gq_direct_reply),
             ('fifo', lambda c: gq_suffix(c, strict=True))],
    raises={})

gq_service = Spec(
    PROP, 'connection', 'SSHConnection._service_next_global_request', self_class='SSHConnection',
    classes=GQ_CLASSES, falsy_sorts={'Any'}, setup=gq_setup,
    stubs={'callable': lambda cx: VBool(z3.Not(isn(cx.args[0]))), 'handler': gq_handler_stub,
           'self._report_global_response': gq_immediate_failure_stub},
    requires=lambda c: z3.And(gq_head(c, 0), gq_R(c)),
    modifies=GQ_MOD,
    ensures=[('head-started-or-completed-and-successor-started', lambda c: gq_Q(c, new=True)),
             ('one-reply-per-request-that-asked', lambda c: gq_R(c, new=True)),
             ('fifo', lambda c: gq_suffix(c, strict=False))],
    raises={})

gq_process = Spec(
    PROP, 'connection', 'SSHConnection._process_global_request', self_class='SSHConnection',
    params=dict(_pkttype='int', _pktid='int', packet='obj:SSHPacket'), classes=GQ_CLASSES,
    inline=dict(PACKET_INLINE), truthy=PACKET_TRUTHY, falsy_sorts={'Any'}, setup=gq_setup,
    stubs={'map_handler_name': ret('str', 'hname'), 'getattr': ret('opt[opaque:Handler]', 'handler'),
           'self._global_request_queue.append': gq_append_stub,
           'self._service_next_global_request': contract_stub(lambda: gq_service)},
    requires=lambda c: z3.And(gq_Q(c), gq_R(c), packet_wf(c, c.argv('packet'))),
    modifies=GQ_MOD + ['ghost_gq_appended', 'ghost_gq_wanted'],
    ensures=[('request-queued-exactly-once', lambda c: z3.And(delta(c, 'ghost_gq_appended') == 1,
                                                              z3.BoolVal(len(c.events('queued')) == 1))),
             ('head-of-a-non-empty-queue-is-in-service', lambda c: gq_Q(c, new=True)),
             ('one-reply-per-request-that-asked', lambda c: gq_R(c, new=True))],
    raises={'ProtocolError': lambda c: z3.BoolVal(len(c.events('queued')) == 0),
            'PacketDecodeError': lambda c: z3.BoolVal(len(c.events('queued')) == 0)})

ASSUMPTIONS.append(
    'received-global-request queue: handlers (handler(packet)) either report synchronously through '
    '_report_global_response (used by its contract) or later from a task; gq_wanted is uninterpreted with '
    'definitional instances only (empty, cons at entry, snoc at append); the packet stored in a queue entry is '
    'abstracted to a token; the mutual recursion _report_global_response <-> _service_next_global_request is '
    'verified for partial correctness (depth bounded by the queue length: every report pops one entry)')


# ------------------------------------------------------------------------------------------------
# SSHProcess (process.py) overrides _should_block_drain ("a redirected stream blocks drain() while its reader is
# attached") and connection_lost.  The stream-level contracts above speak about the base class only; here the same
# property - after connection loss no drain waiter stays blocked - is stated for the override, with the base-class
# methods re-verified under dynamic dispatch (self._should_block_drain is SSHProcess's).
RDR = 'opaque:PipeEnd'
PROC_FIELDS = dict(STREAM_FIELDS, _readers='dict[opt[int],' + RDR + ']', _writers='dict[opt[int],' + RDR + ']')
PROC_CLASSES = {'SSHStreamSession': PROC_FIELDS, 'SSHProcess': PROC_FIELDS}
PROC_SHAPES = [s for s in STREAM_SHAPES if s[0] in ('client', 'server')]      # processes are sessions


def reader_attached(c, key, new=False):
    """`key in self._readers` (key: python None / 1, or a z3 term of the key sort)"""
    st = c.new_state if new else c.old_state
    r = c.ex.deref(st, c.ex.get_field(st, c.self_ref, '_readers'))
    if isinstance(r, VDict):
        if isinstance(key, z3.ExprRef):
            return z3.BoolVal(False) if not r.items else z3.Or(
                [key == to_z3(wrap_key(k), 'opt[int]') for k in r.items])
        return z3.BoolVal(key in r.items)
    kz = key if isinstance(key, z3.ExprRef) else to_z3(wrap_key(key), r.kt)
    return z3.Select(r.dom, kz)


def wrap_key(k):
    return VNone if k is None else VInt(k)


def proc_blocked(c, key, new=False):
    return z3.Or(reader_attached(c, key, new), blocked(c, new))


def base_should_block_stub(cx):
    """super()._should_block_drain(datatype): SSHStreamSession's, by its contract (spec should_block)"""
    return VBool(z3.And(cx.selff('_write_paused').z, z3.Not(cx.selff('_connection_lost').z)))


base_should_block_stub.modifies = ()
base_should_block_stub.spec_getter = lambda: should_block

proc_should_block = Spec(
    PROP, 'process', 'SSHProcess._should_block_drain', self_class='SSHProcess',
    params=dict(datatype='opt[int]'), classes=PROC_CLASSES, returns='bool', modifies=[],
    stubs={'super()._should_block_drain': base_should_block_stub},
    ensures=[('blocks-iff-reader-attached-or-paused-and-connected', lambda c: c.result == proc_blocked(
        c, to_z3(c.argv('datatype'), 'opt[int]')))],
    raises={})

PROC_UNBLOCK_DRAIN, PROC_STREAM_LOST = [], {}
for _label, _rk, _wk in PROC_SHAPES:
    for _dt in _wk:
        PROC_UNBLOCK_DRAIN.append(Spec(
            PROP, 'stream', 'SSHStreamSession._unblock_drain', self_class='SSHStreamSession',
            params=dict(datatype='opt[int]'), classes=PROC_CLASSES,
            stubs=dict(FUT_STUBS, **{'self._should_block_drain': contract_stub(lambda: proc_should_block)}),
            setup=stream_setup(_rk, _wk), cases=[(f'process,{_label},datatype={_dt}', {'arg:datatype': _dt})],
            loops={1: LoopSpec(
                header='for waiter in self._drain_waiters[datatype]',
                invariant=lambda c: z3.And(
                    forall_idx(c.extra['iter'].z, lambda f, k: done_in(c.newv('ghost_done'), f), hi=c.extra['i']),
                    done_only_grows(c)),
                modifies=['ghost_done'])},
            ensures=[('unblocked-means-every-drain-waiter-of-this-datatype-is-done', lambda c: z3.Implies(
                z3.Not(proc_blocked(c, key_arg(c))),
                forall_idx(table(c, '_drain_waiters')[key_arg(c)].z, lambda f, k: done_in(c.newv('ghost_done'), f)))),
                ('nothing-undone', done_only_grows),
                ('tables-kept', lambda c: tables_unchanged(c, '_read_waiters', '_drain_waiters'))],
            modifies=['ghost_done'], raises={}))


def drain_waiters_done_unless_reader(c):
    """what the base class achieves under SSHProcess's _should_block_drain: the waiters of every datatype whose
    reader is not attached are released"""
    d = c.newv('ghost_done')
    return z3.And(*[z3.Implies(z3.Not(reader_attached(c, k)), forall_idx(ws.z, lambda f, j: done_in(d, f)))
                    for k, ws in table(c, '_drain_waiters').items()])


for _label, _rk, _wk in PROC_SHAPES:
    PROC_STREAM_LOST[_label] = Spec(
        PROP, 'stream', 'SSHStreamSession.connection_lost', self_class='SSHStreamSession',
        params=dict(exc='opt[' + ITEM + ']'), classes=PROC_CLASSES,
        stubs=dict(FUT_STUBS, **{'self._unblock_drain': contract_stub(lambda: PROC_UNBLOCK_DRAIN[0])}),
        inline={'self._unblock_read': STREAM_INLINE['self._unblock_read'],
                'self.eof_received': STREAM_INLINE['self.eof_received']},
        setup=stream_setup(_rk, _wk), cases=[(f'process,{_label}', {})],
        requires=eof_inv,
        modifies=['_connection_lost', '_exception', '_eof_received', '_recv_buf', 'ghost_done'],
        ensures=[('every-read-waiter-done', all_read_waiters_done),
                 ('drain-waiters-without-a-reader-done', drain_waiters_done_unless_reader),
                 ('eof-latched', lambda c: c.new('_eof_received')),
                 ('connection-loss-latched', lambda c: c.new('_connection_lost')),
                 ('nothing-undone', done_only_grows),
                 ('tables-kept', lambda c: tables_unchanged(c, '_read_waiters', '_drain_waiters')),
                 ('eof-inv', lambda c: eof_inv(Flip(c)))],
        raises={})


def no_datatype_blocks_any_more(c):
    k = z3.Const(fresh_name('dt'), sort_of('opt[int]'))
    return z3.ForAll([k], z3.Not(proc_blocked(c, k, new=True)))


for _label, _rk, _wk in PROC_SHAPES:
    Spec(PROP, 'process', 'SSHProcess.connection_lost', self_class='SSHProcess',
         params=dict(exc='opt[' + ITEM + ']'), classes=PROC_CLASSES,
         stubs={'super().connection_lost': contract_stub(lambda _l=_label: PROC_STREAM_LOST[_l]),
                'self._readers.values': values_stub, 'self._writers.values': values_stub,
                'list': list_of_values_stub, 'reader.close': noop('reader_closed'),
                'writer.close': noop('writer_closed'),
                # not called by the pinned code; by contract if a repair releases the waiters explicitly
                'self._unblock_drain': contract_stub(lambda: PROC_UNBLOCK_DRAIN[0])},
         loops={1: LoopSpec(header='for reader in list(self._readers.values())', invariant=lambda c: z3.BoolVal(True)),
                2: LoopSpec(header='for writer in list(self._writers.values())', invariant=lambda c: z3.BoolVal(True))},
         setup=stream_setup(_rk, _wk), cases=[(_label, {})],
         requires=eof_inv,
         ensures=[
             # the property, for the process classes: after connection loss no waiter stays blocked
             ('every-read-waiter-done', all_read_waiters_done),
             ('every-drain-waiter-done', all_drain_waiters_done),
             ('drain-never-blocks-again', no_datatype_blocks_any_more),
             ('eof-latched', lambda c: c.new('_eof_received'))],
         raises={})

ASSUMPTIONS.append(
    'process.py: SSHProcess.connection_lost / _should_block_drain are under contract with the base-class '
    '_unblock_drain and connection_lost re-verified under dynamic dispatch; SSHProcess.eof_received (writes EOF '
    'to redirected writers, then super().eof_received()) is taken as the base method; reader.close()/'
    'writer.close() are effect-free for the session at that moment (the own connection_lost of the pipe arrives '
    'later, when the reader is no longer registered)')


# ------------------------------------------------------------------------------------------------
# SFTP receive loop: however the session ends (EOF, a decoding error, the connection's error - WHATEVER exception
# the connection was closed with, SSHConnection.internal_error passes on any exception type), the handler's
# _cleanup must run, because it is the only thing that fails the outstanding requests.
def sftp_recv_packet_stub(cx):
    """await self.recv_packet(): a packet, or what the reader raises: IncompleteReadError (an EOFError) on EOF, or the
    exception the channel/connection was closed with - any exception class"""
    p = cx.fresh('opaque:SFTPPacket', 'packet')
    return [Out(ret=p, event=('recv', ()))] + [Out(exc=VExc(e)) for e in (
        'EOFError', 'OSError', 'Error', 'PacketDecodeError', 'Exception', 'CancelledError')]


sftp_recv_packet_stub.modifies = ()


def sftp_dispatch_stub(cx):
    """await self._process_packet(...) by the client handler's contract (Spec sftp_process_packet): the answered
    request is resolved; a response nobody waits for runs the cleanup (every request failed, reader/writer gone)"""
    k = z3.Int(fresh_name('k'))
    outs = [Out(event=('dispatched', tuple(cx.args)))]
    for o in sftp_cleanup_call(cx):
        o.event = ('dispatched+cleanup', tuple(cx.args))
        outs.append(o)
    return outs


sftp_dispatch_stub.modifies = tuple(sftp_cleanup.modifies)
sftp_dispatch_stub.spec_getter = lambda: sftp_process_packet


def sftp_ends(c, new=False):
    gv = c.newv if new else c.oldv
    return z3.Implies(z3.Not(isn(gv('_reader'))), z3.Not(isn(gv('_writer'))))


def sftp_cleaned_up_once(c):
    return delta(c, 'ghost_base_cleanups') == 1


sftp_recv_packets = Spec(
    PROP, 'sftp', 'SFTPHandler.recv_packets', self_class='SFTPClientHandler', classes=SFTP_CLASSES,
    stubs={'self.recv_packet': sftp_recv_packet_stub, 'self._process_packet': sftp_dispatch_stub,
           'self._cleanup': sftp_cleanup_call, 'self.log_received_packet': noop('log'),
           'packet.get_byte': may_raise(ret('int', 'pkttype'), 'PacketDecodeError'),
           'packet.get_uint32': may_raise(ret('int', 'pktid'), 'PacketDecodeError'),
           'SFTPBadMessage': ret('opt[opaque:Exc]', 'bad_message'), 'str': ret('str', 'text')},
    loops={1: LoopSpec(header='self._reader', invariant=lambda c: z3.And(
        sftp_registry_inv(c, new=True), sftp_ends(c, new=True),
        delta(c, 'ghost_base_cleanups') == b2i(isn(c.newv('_reader'))),
        z3.Implies(isn(c.newv('_reader')), empty_table(c, '_requests'))))},
    local_types={'packet': 'opaque:SFTPPacket', 'pkttype': 'int', 'pktid': 'int'},
    requires=lambda c: z3.And(sftp_registry_inv(c), z3.Not(isn(c.oldv('_reader'))), sftp_ends(c)),
    ensures=[('session-ends-with-exactly-one-cleanup', sftp_cleaned_up_once),
             ('every-outstanding-request-resolved', lambda c: empty_table(c, '_requests'))],
    raises={'CancelledError': True,
            # whatever else ends the loop: not before the cleanup has failed the outstanding requests
            'Exception': sftp_cleaned_up_once})


# ------------------------------------------------------------------------------------------------
# The functions that must REACH the completing ones (audit C09-r2, findings 4 and 6): the peer's EOF is handed to
# the flush; resuming / starting to read runs the flush with reading un-paused; late data is dropped once the local
# side is closing; data is accepted only while the receive side is open (no data_received after eof_received).
RECV_MOD = sorted(set(flush_recv.modifies))
flush_recv_call = contract_stub(lambda: flush_recv)


def recv_exit_clauses():
    return [('close-stays-pending-only-while-data-is-buffered', close_pending_has_data),
            ('eof-stays-pending-only-behind-undelivered-data', eof_pending_has_reason),
            ('one-cleanup-per-close', hs_step),
            ('class-inv', lambda c: z3.And(hs_inv(c, new=True), chan_eof_inv(c, new=True)))]


def recv_requires(c):
    return z3.And(hs_inv(c), decoder_inv(c), chan_eof_inv(c),
                  # class invariant of the receive side between two atomic steps (proved at every exit of the
                  # functions in this section and of _flush_recv_buf / _process_close)
                  close_pending_has_data(Flip(c)), eof_pending_has_reason(Flip(c)))


process_eof = Spec(
    PROP, 'channel', 'SSHChannel._process_eof', self_class='SSHChannel',
    params=dict(_pkttype='int', _pktid='int', packet='obj:SSHPacket'),
    classes=dict(C9_CHAN_CLASSES, **PACKET_CLASSES), inline=dict(PACKET_INLINE), truthy=PACKET_TRUTHY,
    falsy_sorts={'Any'}, lemmas=starting_is_truthy,
    stubs={'self._flush_recv_buf': flush_recv_call},
    requires=lambda c: z3.And(recv_requires(c), packet_wf(c, c.argv('packet'))),
    modifies=RECV_MOD,
    ensures=recv_exit_clauses() + [
        ('eof-noted', lambda c: c.old('_recv_state') == z3.StringVal('open')),
        ('receive-side-past-open', lambda c: c.new('_recv_state') != z3.StringVal('open')),
        # the session hears EOF exactly once, as soon as nothing is left to deliver
        ('eof-told-exactly-once-when-reached', lambda c: delta(c, 'ghost_eof_told') == b2i(z3.And(
            c.new('_recv_state') != z3.StringVal('eof_pending'), attached(c, '_session'))))],
    raises={'ProtocolError': True, 'PacketDecodeError': True, 'Exception': True})

resume_reading = Spec(
    PROP, 'channel', 'SSHChannel.resume_reading', self_class='SSHChannel', classes=C9_CHAN_CLASSES,
    falsy_sorts={'Any'}, lemmas=starting_is_truthy,
    stubs={'self._flush_recv_buf': flush_recv_call},
    requires=recv_requires, modifies=RECV_MOD,
    ensures=recv_exit_clauses(),
    raises={'ProtocolError': True, 'Exception': True})

start_reading = Spec(
    PROP, 'channel', 'SSHChannel._start_reading', self_class='SSHChannel', classes=C9_CHAN_CLASSES,
    falsy_sorts={'Any'}, lemmas=starting_is_truthy,
    stubs={'self._flush_recv_buf': flush_recv_call},
    requires=recv_requires, modifies=RECV_MOD,
    ensures=recv_exit_clauses(),
    raises={'ProtocolError': True, 'Exception': True})


def accept_untouched(c):
    return z3.And(c.new('_recv_buf') == c.old('_recv_buf'), z3.BoolVal(len(c.events('deliver')) == 0))


accept_data = Spec(
    PROP, 'channel', 'SSHChannel._accept_data', self_class='SSHChannel',
    params=dict(data='bytes', datatype='opt[int]'), classes=C9_CHAN_CLASSES, falsy_sorts={'Any'},
    lemmas=starting_is_truthy,
    stubs={'self._deliver_data': reentrant(ordered_deliver_stub)},
    requires=lambda c: z3.And(recv_requires(c), c.old('_recv_state') == z3.StringVal('open')),
    modifies=sorted({'_recv_buf', '_recv_window', '_recv_paused'} | set(CLOSE_MODIFIES)),
    ensures=[
        # docstring: "Data sent after the channel has been closed by the session is dropped" - otherwise late data
        # re-fills a channel nobody reads any more and the peer's CLOSE waits behind it for ever
        ('late-data-dropped-once-the-local-side-is-closing', lambda c: z3.Implies(
            one_of(c.old('_send_state'), ['close_pending', 'closed']), accept_untouched(c))),
        ('buffered-only-while-paused', lambda c: z3.Or(
            c.new('_recv_buf') == c.old('_recv_buf'), z3.Length(c.new('_recv_buf')) == 0,
            c.truthy(c.oldv('_recv_paused'), c.old_state)))] + recv_exit_clauses(),
    raises={'ProtocolError': True, 'Exception': True})


def accept_only_while_open_stub(cx):
    """self._accept_data(...) at its call sites in the packet handlers: RFC 4254 5.3 - no data after EOF/CLOSE"""
    cx.require('data-accepted-only-while-the-receive-side-is-open',
               cx.selff('_recv_state').z == z3.StringVal('open'))
    return [Out(event=('accept', tuple(cx.args))), Out(exc=VExc('ProtocolError')), Out(exc=VExc('Exception'))]


accept_only_while_open_stub.modifies = ()
accept_only_while_open_stub.spec_getter = lambda: accept_data

process_data_order = Spec(
    PROP, 'channel', 'SSHChannel._process_data', self_class='SSHChannel',
    params=dict(_pkttype='int', _pktid='int', packet='obj:SSHPacket'),
    classes=dict(C9_CHAN_CLASSES, **PACKET_CLASSES), inline=dict(PACKET_INLINE), truthy=PACKET_TRUTHY,
    stubs={'self._accept_data': accept_only_while_open_stub},
    requires=lambda c: packet_wf(c, c.argv('packet')),
    ensures=[('data-handed-on-exactly-once', lambda c: z3.BoolVal(len(c.events('accept')) == 1))],
    raises={'ProtocolError': True, 'PacketDecodeError': True, 'Exception': True})

def only_stderr(setz):
    d = z3.Int(fresh_name('d'))
    return z3.ForAll([d], z3.Implies(z3.Select(setz, d), d == 1))


process_extended_data_order = Spec(
    PROP, 'channel', 'SSHChannel._process_extended_data', self_class='SSHChannel',
    params=dict(_pkttype='int', _pktid='int', packet='obj:SSHPacket'),
    classes=dict(C9_CHAN_CLASSES, SSHChannel=dict(C9_CHAN_FIELDS, _read_datatypes='set[int]'), **PACKET_CLASSES),
    inline=dict(PACKET_INLINE), truthy=PACKET_TRUTHY,
    stubs={'self._accept_data': accept_only_while_open_stub},
    # read datatypes are {} or {EXTENDED_DATA_STDERR} for every channel class (same precondition as in C08; the
    # debug-log lookup _data_type_names[datatype] knows no other)
    requires=lambda c: z3.And(packet_wf(c, c.argv('packet')), only_stderr(c.old('_read_datatypes'))),
    ensures=[('data-handed-on-exactly-once', lambda c: z3.BoolVal(len(c.events('accept')) == 1))],
    raises={'ProtocolError': True, 'PacketDecodeError': True, 'Exception': True})


# ------------------------------------------------------------------------------------------------
# Queue of received CHANNEL requests (_request_queue): the channel-level twin of the global-request queue above
# (audit finding 7).  Q: whenever the queue is non-empty its head - and only its head - has been started; so when a
# request completes and the queue is non-empty the next one is started, whatever the request, its result or
# want_reply were.  A reply goes out iff the request asked for one and our side is not closing, SUCCESS iff the
# result is true; requests complete from the front only.
CQE = 'tuple[str,opaque:Pkt,bool]'        # (request, packet, want_reply)
CQ_T = 'seq[' + CQE + ']'
CQ_FIELDS = {'_request_queue': CQ_T, '_send_state': 'str', '_recv_state': 'str', '_session': 'opt[obj:Session]',
             'ghost_cq_appended': 'int', 'ghost_cq_started': 'int'}
CQ_CLASSES = dict({'SSHChannel': CQ_FIELDS, 'Session': {}, 'Handler': {}}, **PACKET_CLASSES)
CQ_MOD = ['_request_queue', 'ghost_cq_started']


def cq_completed(g):
    return g('ghost_cq_appended') - z3.Length(g('_request_queue'))


def cq_Q(c, new=False):
    g = c.new if new else c.old
    return z3.And(g('ghost_cq_started') - cq_completed(g) == b2i(z3.Length(g('_request_queue')) > 0),
                  cq_completed(g) >= 0)


def cq_head(c, started):
    return z3.And(z3.Length(c.old('_request_queue')) > 0,
                  c.old('ghost_cq_started') - cq_completed(c.old) == started, cq_completed(c.old) >= 0)


def cq_suffix(c, strict):
    q0, q1 = c.old('_request_queue'), c.new('_request_queue')
    off = z3.Length(q0) - z3.Length(q1)
    k = z3.Int(fresh_name('k'))
    return z3.And(off >= (1 if strict else 0),
                  z3.ForAll([k], z3.Implies(z3.And(0 <= k, k < z3.Length(q1)), q1[k] == q0[k + off])))


def cq_handler_stub(cx):
    """handler(packet): servicing of the head request starts; the handler answers True/False, or None when it will
    call _report_response itself later (from a task)"""
    return [Out(ret=cx.fresh('opt[bool]', 'result'), sets={'ghost_cq_started': bump(cx, 'ghost_cq_started')},
                event=('handler', tuple(cx.args)))]


cq_handler_stub.modifies = ('ghost_cq_started',)


def cq_report_call(cx):
    """self._report_response(result) inside _service_next_request, by the contract of _report_response; for a
    request nobody handles, reporting the failure IS its servicing (started is bumped here)"""
    from pyvc.engine import CallCtx
    handled = any(e[0] == 'handler' for e in cx.st.events)
    s2 = cx.st.fork()
    started = cx.selff('ghost_cq_started') if handled else bump(cx, 'ghost_cq_started')
    s2.set_field(cx.ex.self_ref, 'ghost_cq_started', started)
    cx2 = CallCtx(cx.ex, s2, cx.key, cx.ex.self_ref, list(cx.args), {}, cx.node)
    outs = contract_stub(lambda: cq_report)(cx2)
    for o in outs:
        o.sets.setdefault('ghost_cq_started', started)
        o.event = ('report', tuple(cx.args))
    for lab, z in cx2.requires:
        cx.require('report:' + lab, z)
    return outs


cq_report_call.modifies = tuple(CQ_MOD)
cq_report_call.spec_getter = lambda: cq_report


def cq_reply_stub(cx):
    t = concrete_int(cx.args[0])
    return [Out(event=('reply' if t in (99, 100) else 'packet', (cx.args[0],)))]     # CHANNEL_SUCCESS / _FAILURE


cq_reply_stub.modifies = ()


def cq_direct_reply(c):
    n = len(c.events('reply'))
    head = from_z3(c.old('_request_queue')[0], CQE).items
    due = z3.And(head[2].z, z3.Not(one_of(c.old('_send_state'), ['close_pending', 'closed'])))
    conj = [z3.BoolVal(n <= 1), z3.BoolVal(n == 1) == due]
    for e in c.events('reply'):
        conj.append((e[1][0].z == 99) == c.argv('result').z)
    return z3.And(*conj)


cq_report = Spec(
    PROP, 'channel', 'SSHChannel._report_response', self_class='SSHChannel',
    params=dict(result='bool'), classes=CQ_CLASSES,
    inline={'self.is_closing': ('channel', 'SSHChannel.is_closing')},
    stubs={'self.send_packet': cq_reply_stub,
           'self._session.session_started': may_raise(noop('session_started'), 'Exception'),
           'self.resume_reading': may_raise(noop('resume_reading'), 'ProtocolError', 'Exception'),
           'self._service_next_request': contract_stub(lambda: cq_service)},
    requires=lambda c: cq_head(c, 1),
    modifies=CQ_MOD,
    ensures=[('next-queued-request-is-started-whatever-this-one-was', lambda c: cq_Q(c, new=True)),
             ('this-request-answered-iff-it-asked-and-we-are-not-closing', cq_direct_reply),
             ('fifo', lambda c: cq_suffix(c, strict=True))],
    # the session start callback / the first flush may fail: that ends the connection (the caller is the packet
    # dispatcher or a task reaped by the connection); the session is gone only after a cleanup
    raises={'ProtocolError': True, 'AssertionError': lambda c: isn(c.oldv('_session')), 'Exception': True})

cq_service = Spec(
    PROP, 'channel', 'SSHChannel._service_next_request', self_class='SSHChannel', classes=CQ_CLASSES,
    stubs={'map_handler_name': ret('str', 'hname'), 'getattr': ret('opt[obj:Handler]', 'handler'),
           'handler': cq_handler_stub, 'self._report_response': cq_report_call},
    requires=lambda c: cq_head(c, 0),
    modifies=CQ_MOD,
    ensures=[('head-started-or-completed-and-successor-started', lambda c: cq_Q(c, new=True)),
             ('fifo', lambda c: cq_suffix(c, strict=False))],
    raises={'ProtocolError': True, 'AssertionError': lambda c: isn(c.oldv('_session')), 'Exception': True})


def cq_append_stub(cx):
    """self._request_queue.append((request, packet, want_reply)): list.append, the packet abstracted to a token"""
    r, _p, w = cx.args[0].items
    q = cx.selff('_request_queue')
    x = to_z3(VTuple([r, cx.fresh('opaque:Pkt', 'pkt'), w]), CQE)
    return [Out(sets={'_request_queue': VSeq(z3.Concat(q.z, z3.Unit(x)), CQE),
                      'ghost_cq_appended': bump(cx, 'ghost_cq_appended')}, event=('queued', (w,)))]


cq_append_stub.modifies = ('_request_queue', 'ghost_cq_appended')

cq_process = Spec(
    PROP, 'channel', 'SSHChannel._process_request', self_class='SSHChannel',
    params=dict(_pkttype='int', _pktid='int', packet='obj:SSHPacket'), classes=CQ_CLASSES,
    inline=dict(PACKET_INLINE), truthy=PACKET_TRUTHY,
    stubs={'self._request_queue.append': cq_append_stub,
           'self._service_next_request': contract_stub(lambda: cq_service)},
    requires=lambda c: z3.And(cq_Q(c), packet_wf(c, c.argv('packet'))),
    modifies=CQ_MOD + ['ghost_cq_appended'],
    ensures=[('request-queued-exactly-once', lambda c: z3.And(delta(c, 'ghost_cq_appended') == 1,
                                                              z3.BoolVal(len(c.events('queued')) == 1))),
             ('head-of-a-non-empty-queue-is-in-service', lambda c: cq_Q(c, new=True))],
    raises={'ProtocolError': True, 'PacketDecodeError': True,
            'AssertionError': lambda c: isn(c.oldv('_session')), 'Exception': True})


# ------------------------------------------------------------------------------------------------
# Close entry points and open/creation paths (audit finding 10): each must reach _force_close / the channel close.
conn_abort = Spec(
    PROP, 'connection', 'SSHConnection.abort', self_class='SSHConnection', classes=C9_CONN_CLASSES,
    stubs={'self._force_close': force_close_call}, modifies=force_close.modifies,
    ensures=[('force-close-on-every-path', lambda c: z3.BoolVal(len(c.events('force_close')) == 1)),
             ('one-cleanup-iff-still-open', lambda c: delta(c, 'ghost_cleanup_sched') == b2i(attached(c, '_transport'))),
             ('transport-cleared', lambda c: isn(c.newv('_transport')))],
    raises={})


def recv_handler_stub(cx):
    """self._recv_handler(): one step of the input state machine: consumed something (True) / needs more (False),
    or fails with a protocol-level DisconnectError or with any other exception"""
    sets = {'_inpbuf': cx.fresh('bytes', 'inpbuf')}
    return [Out(ret=cx.fresh('bool', 'more'), sets=sets),
            Out(exc=VExc('DisconnectError'), sets=sets, event=('handler_failed', ())),
            Out(exc=VExc('Exception'), sets=sets, event=('handler_failed', ()))]


recv_handler_stub.modifies = ('_inpbuf',)

recv_data = Spec(
    PROP, 'connection', 'SSHConnection._recv_data', self_class='SSHConnection', classes=C9_CONN_CLASSES,
    stubs={'self._reset_keepalive_timer': noop('reset_keepalive'), 'self._recv_handler': recv_handler_stub,
           'self._send_disconnect': noop('send_disconnect'), 'self._force_close': force_close_call,
           # internal_error() reports and ends in _force_close itself (not under contract here)
           'self.internal_error': noop('internal_error')},
    loops={1: LoopSpec(header='self._inpbuf and self._recv_handler()', invariant=lambda c: z3.And(
        delta(c, 'ghost_cleanup_sched') == 0, c.eq(c.newv('_transport'), c.oldv('_transport'))))},
    ensures=[('an-input-error-always-closes-the-connection', lambda c: z3.BoolVal(
        len(c.events('handler_failed')) == len(c.events('force_close')) + len(c.events('internal_error')))),
        ('peer-is-told-before-we-close', lambda c: z3.BoolVal(
            [e[0] for e in c.events() if e[0] in ('send_disconnect', 'force_close')]
            in ([], ['send_disconnect', 'force_close'])))],
    raises={})

for _label, _rk, _wk in STREAM_SHAPES:
    Spec(PROP, 'stream', 'SSHStreamSession.resume_writing', self_class='SSHStreamSession',
         classes=STREAM_CLASSES, stubs={'self._unblock_drain': unblock_drain_contract},
         setup=stream_setup(_rk, _wk), cases=[(_label, {})],
         ensures=[('writing-resumed', lambda c: z3.Not(c.new('_write_paused'))),
                  # back-pressure is over: whoever waits in drain() is let go
                  ('every-drain-waiter-done', all_drain_waiters_done)],
         raises={})


# ---- _finish_open_request: a refused incoming open schedules the channel's cleanup ----------------------
def await_session_stub(cx):
    """await <the session factory's coroutine>: a session, or the application's refusal (ChannelOpenError), or
    anything else"""
    return [Out(ret=cx.fresh('obj:Session', 'session')), Out(exc=VExc('ChannelOpenError')), Out(exc=VExc('Exception'))]


await_session_stub.modifies = ()


def wrap_session_stub(cx):
    return VTuple([cx.ex.self_ref, cx.args[0]])


finish_open = Spec(
    PROP, 'channel', 'SSHChannel._finish_open_request', self_class='SSHChannel',
    params=dict(result='obj:Session'), classes=C9_CHAN_CLASSES,
    stubs={'inspect.isawaitable': ret('bool', 'awaitable'), 'await result': await_session_stub,
           'self._wrap_session': wrap_session_stub,
           'self._conn.send_channel_open_confirmation': noop('open_confirmation'),
           'self._conn.send_channel_open_failure': noop('open_failure'),
           'self._session.connection_made': may_raise(noop('connection_made'), 'ChannelOpenError', 'Exception'),
           'self._loop.call_soon': call_soon_stub},
    requires=lambda c: z3.And(chan_registry_inv(c), z3.Not(isn(c.oldv('_send_chan')))),
    ensures=[
        ('opened-or-refused-with-cleanup', lambda c: z3.Or(
            z3.And(z3.BoolVal(len(c.events('open_confirmation')) == 1 and len(c.events('open_failure')) == 0),
                   c.new('_send_state') == z3.StringVal('open'), c.new('_recv_state') == z3.StringVal('open'),
                   delta(c, 'ghost_cleanup_sched') == 0),
            # refused (by the application, or because the connection went away meanwhile): the channel is cleaned
            # up exactly once - it is still registered, and wait_closed() waits for that
            z3.And(delta(c, 'ghost_cleanup_sched') == 1,
                   z3.BoolVal(len(c.events('open_failure')) == 1) == attached(c, '_conn'))))],
    raises={'Exception': True})


# ---- SSHClientChannel.create, final step: a refused shell/exec/subsystem request closes the channel -------
def create_tail(fn):
    body = fn.body
    for i, st_ in enumerate(body):
        if isinstance(st_, _ast9.If) and isinstance(st_.test, _ast9.Name) and st_.test.id == 'command':
            return body[i:]
    raise Unsupported('SSHClientChannel.create: `if command:` not found')


def _bind_create_locals(ex, st):
    st.env.setdefault('result', VNone)


create_session_tail = Spec(
    PROP, 'channel', 'SSHClientChannel.create', self_class='SSHChannel', region=create_tail,
    params=dict(session_factory='any', command='opt[str]', subsystem='opt[str]', env='any', request_pty='bool',
                term_type='opt[str]', term_size='any', term_modes='any', x11_forwarding='any',
                x11_display='opt[str]', x11_auth_path='opt[str]', x11_single_connection='bool',
                agent_forwarding='bool'),
    classes=C9_CHAN_CLASSES, falsy_sorts={'Any'},
    stubs={'self._make_request': ret('opt[bool]', 'request_result'), 'String': ret('bytes', 'string'),
           'self.close': noop('close'), 'self._session.session_started': noop('session_started'),
           'self._start_reading': ret('any', 'coro'), 'self._conn.create_task': noop('create_task')},
    requires=lambda c: z3.And(z3.Not(isn(c.oldv('_session'))), z3.Not(isn(c.oldv('_conn')))),
    ensures=[('session-started-and-reading-started', lambda c: z3.BoolVal(
        len(c.events('session_started')) == 1 and len(c.events('create_task')) == 1 and len(c.events('close')) == 0))],
    raises={'ChannelOpenError': lambda c: z3.BoolVal(len(c.events('close')) == 1 and
                                                     len(c.events('session_started')) == 0)})
create_session_tail.no_replay = True       # a region: the native harness would run create() from its first line

ASSUMPTIONS.extend([
    'receive side (audit C09-r2): close_pending_has_data / eof_pending_has_reason / chan_eof_inv / hs_inv are the '
    'class invariant of the receive side between atomic steps: required by resume_reading, _start_reading, '
    '_accept_data, _process_eof and proved at every exit (raise paths included) of _flush_recv_buf and at the exits '
    'of those four and of _process_close; `_recv_paused` is of unknown dynamic type (bool or the string '
    '"starting"): only the definitional fact "a value equal to \'starting\' is truthy" is assumed',
    'ghost_final_told is a ghost variable local to one run of a _cleanup (False at entry by a setup hook); the order '
    'clause "nothing after the final notification" is a pre-at-call obligation at every resolve / channel close / '
    'listener close / auth cancel / error handler call, so it also holds inside loop bodies',
    'channel request queue: handlers answer True/False, or None when they call _report_response later; '
    'session_started() / resume_reading() inside _report_response may raise (that ends the connection); the '
    'packet stored in a queue entry is a token',
    'SFTP receive loop: recv_packet() may raise any exception class (the connection error is passed on as it is); '
    '_process_packet is taken by the client handler contract (resolved, or cleanup on an unknown id)',
    '_recv_data: internal_error() is counted as closing the connection (it ends in _force_close; not under '
    'contract); _finish_open_request: the session factory coroutine may return a session, refuse with '
    'ChannelOpenError or raise anything',
])
