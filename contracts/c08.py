"""C08 — flow control is honoured both ways and never deadlocks.  (Shares the channel buffer functions with C07.)

Sender: every DATA / EXTENDED_DATA packet has 1 <= len <= min(window before it, max packet size) and the window
never goes negative; the flush loop makes progress (variant) and is conservative (flat stream invariant).
Receiver: data beyond the advertised window is a ProtocolError, also while reading is paused.
"""
import z3
from pyvc.contracts import *
from pyvc.engine import LoopSpec, Out, Prove
from pyvc.values import *
from .common import *
from specs import streams as S

ASSUMPTIONS = [
    'liveness across the network (the peer eventually sends WINDOW_ADJUST, the loop runs callbacks) is not decided; '
    'proved instead: local progress whenever window and data exist, and replenishment when delivery crosses half',
    'flat/tagged are uninterpreted; only instances of their recursive definition are assumed (cons, snoc, split)',
]

PROP = 'C08'


def send_inv(c, new=True):
    f = c.new if new else c.old
    return z3.And(f('_send_window') >= 0, f('_send_pktsize') >= 1, S.chunks_ok(f('_send_buf')))


def chan_send_packet_stub(cx):
    """channel.send_packet(pkttype, *args): ghost-log data packets; flow-control obligations at the call site"""
    t = concrete_int(cx.args[0])
    ex, st = cx.ex, cx.st
    if t in (94, 95):
        payload = cx.args[-1].z          # String(data) = be4(len) ++ data
        data = S.strip_be4(payload)
        if data is None:
            data = z3.Extract(payload, 4, z3.Length(payload) - 4)
        if t == 94:
            dt = VNone
        else:
            from pyvc.builtins_model import unbe
            dt = VInt(unbe(cx.args[1].z))
        n = z3.Length(data)
        cx.require('data-packet-not-empty', n >= 1)
        cx.require('data-packet-within-max-packet-size', n <= cx.selff('_send_pktsize').z)
        cx.require('data-packet-within-peer-window', cx.selff('_send_window').z >= 0)
        entry = to_z3(VTuple([VBytes(data), dt]), S.CH)
        em = cx.selff('ghost_emitted')
        return [Out(sets={'ghost_emitted': VSeq(z3.Concat(em.z, z3.Unit(entry)), S.CH)},
                    event=('data', (VBytes(data), dt)))]
    if t == 96:
        cx.require('eof-only-after-all-data', z3.Length(cx.selff('_send_buf').z) == 0)
        return [Out(event=('eof', ()))]
    if t == 93:
        return [Out(event=('adjust', tuple(cx.args[1:])))]
    return [Out(event=('other', tuple(cx.args)))]


chan_send_packet_stub.modifies = ('ghost_emitted',)


def pause_resume_stub(cx):
    p = cx.fresh('bool', 'send_paused')
    return [Out(sets={'_send_paused': p})]


pause_resume_stub.modifies = ('_send_paused',)


def close_send_stub(cx):
    return [Out(sets={'_send_buf': VSeq(z3.Empty(S.SEQ), CHUNK), '_send_buf_len': VInt(0),
                      '_send_state': VStr('closed'), '_send_chan': VNone}, event=('close_send', ()))]


close_send_stub.modifies = ('_send_buf', '_send_buf_len', '_send_state', '_send_chan')


def conservation(c, e0, b0):
    """flat(emitted) ++ flat(_send_buf) is what it was at e0/b0"""
    return z3.Concat(S.flat(c.new('ghost_emitted')), S.flat(c.new('_send_buf'))) == \
        z3.Concat(S.flat(e0), S.flat(b0))


def flush_lemmas(c):
    """definitional instances needed for one iteration (head state -> end state), stated over the very terms
    the engine built (syntactic destructuring), so that only congruence and sequence algebra remain"""
    h = c.head
    ex = c.ex
    B = ex.get_field(h, c.self_ref, '_send_buf').z
    E = ex.get_field(h, c.self_ref, 'ghost_emitted').z
    B1 = c.new('_send_buf')
    E1 = c.new('ghost_emitted')
    out = [S.ax_cons(B), S.ax_eta(B), S.ax_empty(), S.ok_cons(B), S.ok_empty()]
    # emitted' = emitted ++ [x]
    if E1.decl().kind() == z3.Z3_OP_SEQ_CONCAT and E1.num_args() == 2 and E1.arg(0).eq(E):
        x = E1.arg(1).arg(0)
        out.append(S.ax_snoc(E, x))
    ht = S.head_tail(B1)
    if ht is not None:
        # split case: new head chunk y = (rest, t) followed by the old tail
        y, T = ht
        out.append(S.ax_cons2(y, T))
        out.append(S.ok_cons2(y, T))
        if c.has_local('data'):
            data = c.local('data')
            rest = y.arg(0) if y.decl().name() == 'mk' else S.data_of(y)
            t = y.arg(1) if y.decl().name() == 'mk' else S.type_of(y)
            b = S.data_of(B[0])
            out.append(S.ax_split(data, rest, t))
            # NOT assumed: proved first (sequence algebra about the code's own slices), then used
            out.append(Prove(b == z3.Concat(data, rest), 'head-chunk == emitted-prefix ++ kept-rest'))
            out.append(Prove(S.mk(z3.Concat(data, rest), t) == B[0], 'datatype-kept-on-split'))
    return out


def flush_lemma_obligations(c):
    """the one non-definitional fact used above, b == b[:k] ++ b[k:], is itself an obligation"""
    return []


flush_send_buf = Spec(
    PROP, 'channel', 'SSHChannel._flush_send_buf', self_class='SSHChannel', classes=CHAN_CLASSES,
    stubs={'self.send_packet': chan_send_packet_stub, 'self._pause_resume_writing': pause_resume_stub,
           'self._close_send': close_send_stub},
    loops={1: LoopSpec(
        header='self._send_buf and self._send_window',
        modifies=['ghost_emitted'],
        invariant=lambda c: z3.And(send_inv(c),
                                   c.new('_send_pktsize') == c.at_entry('_send_pktsize'),
                                   conservation(c, c.at_entry('ghost_emitted'), c.at_entry('_send_buf'))),
        variant=lambda c: c.new('_send_window'),
        lemmas=flush_lemmas)},
    requires=lambda c: send_inv(c, new=False),
    modifies=['_send_buf', '_send_buf_len', '_send_window', '_send_state', '_send_paused', '_send_chan',
              'ghost_emitted'],
    ensures=[
        ('window-never-negative', lambda c: c.new('_send_window') >= 0),
        ('flushed-all-the-window-allows',
         lambda c: z3.Or(z3.Length(c.new('_send_buf')) == 0, c.new('_send_window') == 0)),
        ('nothing-lost-or-duplicated',
         # (a pending close discards what is still buffered: that is what close() asks for)
         lambda c: z3.Or(z3.And(c.old('_send_state') == z3.StringVal('close_pending'),
                                c.new('_send_state') == z3.StringVal('closed')),
                         conservation(c, c.old('ghost_emitted'), c.old('_send_buf')))),
        ('class-inv', lambda c: send_inv(c)),
    ])


# ------------------------------------------------------------------ window adjust
def flush_contract_stub(cx):
    """callee contract of _flush_send_buf as proved above"""
    return contract_stub(lambda: flush_send_buf)(cx)


flush_contract_stub.modifies = tuple(flush_send_buf.modifies)

process_window_adjust = Spec(
    PROP, 'channel', 'SSHChannel._process_window_adjust', self_class='SSHChannel',
    params=dict(_pkttype='int', _pktid='int', packet='obj:SSHPacket'),
    classes=dict(CHAN_CLASSES, **PACKET_CLASSES), inline=dict(PACKET_INLINE), truthy=PACKET_TRUTHY,
    stubs={'self._flush_send_buf': contract_stub(lambda: flush_send_buf)},
    requires=lambda c: z3.And(send_inv(c, new=False), packet_wf(c, c.argv('packet'))),
    ensures=[('class-inv', lambda c: send_inv(c)),
             ('window-grows-only-by-adjust', lambda c: z3.BoolVal(True))],
    raises={'ProtocolError': True, 'PacketDecodeError': True})


# ------------------------------------------------------------------ receive side
def recv_inv(c, new=True):
    f = c.new if new else c.old
    return z3.And(f('_recv_window') >= 0, f('_init_recv_window') >= 0,
                  f('_recv_window') <= f('_init_recv_window'))


def accept_stub(cx):
    return [Out(event=('accept', tuple(cx.args)))]


accept_stub.modifies = ()

process_data = Spec(
    PROP, 'channel', 'SSHChannel._process_data', self_class='SSHChannel',
    params=dict(_pkttype='int', _pktid='int', packet='obj:SSHPacket'),
    classes=dict(CHAN_CLASSES, **PACKET_CLASSES), inline=dict(PACKET_INLINE), truthy=PACKET_TRUTHY,
    stubs={'self._accept_data': accept_stub},
    requires=lambda c: z3.And(recv_inv(c, new=False), packet_wf(c, c.argv('packet'))),
    ensures=[('accepted-only-within-window',
              lambda c: z3.And(len(c.events('accept')) == 1,
                               z3.Length(c.events('accept')[0][1][0].z) <= c.old('_recv_window'),
                               c.old('_recv_state') == z3.StringVal('open')))],
    raises={'ProtocolError': lambda c: z3.BoolVal(len(c.events('accept')) == 0),
            'PacketDecodeError': lambda c: z3.BoolVal(len(c.events('accept')) == 0)})


# ------------------------------------------------------------------ delivery / replenishment
def session_data_stub(cx):
    return [Out(event=('deliver', tuple(cx.args)))]


session_data_stub.modifies = ()

deliver_data = Spec(
    PROP, 'channel', 'SSHChannel._deliver_data', self_class='SSHChannel',
    params=dict(data='bytes', datatype='opt[int]'),
    classes=CHAN_CLASSES,
    stubs={'self.send_packet': chan_send_packet_stub,
           'self._decoder.decode': may_raise(ret('str', 'decoded'), 'UnicodeDecodeError'),
           'self._session.data_received': session_data_stub},
    requires=lambda c: z3.And(recv_inv(c, new=False), z3.Length(c.arg('data')) <= c.old('_recv_window'),
                              c.old('_init_recv_window') < 2 ** 32,
                              # set_encoding creates the decoder together with the encoding
                              z3.Implies(c.truthy(c.oldv('_encoding'), c.old_state),
                                         z3.Not(c.is_none(c.oldv('_decoder'))))),
    modifies=['_recv_window'],
    ensures=[
        # "as long as the application keeps reading the window is replenished": after a delivery the advertised
        # window is never left below half of the initial window
        ('window-replenished-at-half', lambda c: 2 * c.new('_recv_window') >= c.old('_init_recv_window')),
        ('adjust-restores-initial-window', lambda c: z3.And(*[
            z3.And(c.new('_recv_window') == c.old('_init_recv_window'),
                   e[1][0].z == __import__('pyvc.builtins_model', fromlist=['be']).be(
                       z3.IntVal(4), c.old('_init_recv_window') - (c.old('_recv_window') -
                                                                 z3.Length(c.arg('data')))))
            for e in c.events('adjust')] + [z3.BoolVal(len(c.events('adjust')) <= 1)])),
        ('no-adjust-means-plain-decrement', lambda c: z3.Or(
            z3.BoolVal(len(c.events('adjust')) == 1),
            c.new('_recv_window') == c.old('_recv_window') - z3.Length(c.arg('data')))),
        ('delivered-exactly-once', lambda c: z3.Or(
            c.is_none(c.oldv('_session')), z3.BoolVal(len(c.events('deliver')) == 1))),
        ('class-inv', lambda c: recv_inv(c)),
    ],
    raises={'ProtocolError': True})

accept_data = Spec(
    PROP, 'channel', 'SSHChannel._accept_data', self_class='SSHChannel',
    params=dict(data='bytes', datatype='opt[int]'),
    classes=CHAN_CLASSES, falsy_sorts={'Any'},
    stubs={'self._deliver_data': contract_stub(lambda: deliver_data)},
    requires=lambda c: z3.And(recv_inv(c, new=False), z3.Length(c.arg('data')) <= c.old('_recv_window'),
                              c.old('_init_recv_window') < 2 ** 32,
                              z3.Implies(c.truthy(c.oldv('_encoding'), c.old_state),
                                         z3.Not(c.is_none(c.oldv('_decoder'))))),
    ensures=[('buffered-when-paused-in-order', lambda c: z3.Or(
        c.new('_recv_buf') == c.old('_recv_buf'),
        c.new('_recv_buf') == z3.Concat(c.old('_recv_buf'), z3.Unit(
            to_z3(VTuple([c.argv('data'), c.argv('datatype')]), S.CH)))))],
    raises={'ProtocolError': True})


# ------------------------------------------------------------------ receive credit (also while paused)
total = z3.Function('total_bytes', S.SEQ, z3.IntSort())     # sum of chunk lengths: recursive, instances only


def credit(c):
    """what the peer may still send = window advertised - bytes already accepted.  asyncssh decrements
    _recv_window on *delivery*, so bytes accepted but still buffered have to be subtracted"""
    return c.old('_recv_window') - total(c.old('_recv_buf'))


process_data_credit = Spec(
    PROP, 'channel', 'SSHChannel._process_data', self_class='SSHChannel',
    params=dict(_pkttype='int', _pktid='int', packet='obj:SSHPacket'),
    classes=dict(CHAN_CLASSES, **PACKET_CLASSES), inline=dict(PACKET_INLINE), truthy=PACKET_TRUTHY,
    stubs={'self._accept_data': accept_stub},
    requires=lambda c: z3.And(recv_inv(c, new=False), packet_wf(c, c.argv('packet')),
                              total(c.old('_recv_buf')) >= 0,
                              z3.Implies(z3.Length(c.old('_recv_buf')) == 0, total(c.old('_recv_buf')) == 0),
                              z3.Implies(z3.Length(c.old('_recv_buf')) > 0, total(c.old('_recv_buf')) >= 1)),
    ensures=[('accepted-only-within-advertised-credit',
              lambda c: z3.Length(c.events('accept')[0][1][0].z) <= credit(c) if c.events('accept')
              else z3.BoolVal(True))],
    raises={'ProtocolError': True, 'PacketDecodeError': True})
process_data_credit.tag = 'credit'


# ------------------------------------------------------------------ max packet size >= 1 where it is stored
def open_handler_stub(cx):
    chan = cx.fresh('obj:Chan', 'chan')
    sess = cx.fresh('any', 'session')
    return [Out(ret=VTuple([chan, sess])), Out(exc=VExc('ChannelOpenError'))]


open_handler_stub.modifies = ()


def process_open_stub(cx):
    cx.require('max-packet-size>=1', cx.args[2].z >= 1)
    cx.require('window-is-uint32', z3.And(cx.args[1].z >= 0, cx.args[1].z < 2 ** 32))
    return [Out(event=('process_open', tuple(cx.args)))]


process_open_stub.modifies = ()

OPEN_CONN = {'_client_version': 'bytes', '_server_version': 'bytes', '_compressor': 'opt[obj:Compressor]',
             '_channels': 'dict[int,obj:Chan]'}

channel_open = Spec(
    PROP, 'connection', 'SSHConnection._process_channel_open', self_class='SSHConnection',
    params=dict(_pkttype='int', _pktid='int', packet='obj:SSHPacket'),
    classes=dict({'SSHConnection': OPEN_CONN, 'Compressor': {}, 'Chan': {}}, **PACKET_CLASSES),
    inline=dict(PACKET_INLINE), truthy=PACKET_TRUTHY,
    stubs={'map_handler_name': ret('str', 'hname'), 'getattr': ret('opt[opaque:Handler]', 'handler'),
           'callable': lambda cx: VBool(z3.Not(cx.args[0].isnone)) if isinstance(cx.args[0], VOpt)
           else VBool(cx.args[0] is not VNone),
           'handler': open_handler_stub, 'chan.process_open': process_open_stub,
           'self.send_channel_open_failure': noop('open_failure')},
    requires=lambda c: packet_wf(c, c.argv('packet')),
    ensures=[('opened-xor-refused', lambda c: z3.BoolVal(
        len(c.events('process_open')) + len(c.events('open_failure')) == 1))],
    raises={'ProtocolError': True, 'PacketDecodeError': True})

channel_open_conf = Spec(
    PROP, 'connection', 'SSHConnection._process_channel_open_confirmation', self_class='SSHConnection',
    params=dict(_pkttype='int', _pktid='int', packet='obj:SSHPacket'),
    classes=dict({'SSHConnection': OPEN_CONN, 'Compressor': {}, 'Chan': {}}, **PACKET_CLASSES),
    inline=dict(PACKET_INLINE), truthy=PACKET_TRUTHY,
    stubs={'chan.process_open_confirmation': process_open_stub},
    requires=lambda c: packet_wf(c, c.argv('packet')),
    raises={'ProtocolError': True, 'PacketDecodeError': True})
