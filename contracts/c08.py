"""C08 — flow control is honoured both ways and never deadlocks.  (Shares the channel buffer functions with C07.)

Sender: every DATA / EXTENDED_DATA packet has 1 <= len <= min(window before it, max packet size) and the window
never goes negative; the flush loop makes progress (variant) and is conservative (flat stream invariant).
Receiver: data beyond the advertised window is a ProtocolError, also while reading is paused.
"""
import z3
from pyvc.contracts import *
from pyvc.engine import LoopSpec, Out, Prove
from pyvc.values import *
from .common import *
from specs import streams as S

ASSUMPTIONS = [
    'liveness across the network (the peer eventually sends WINDOW_ADJUST, the loop runs callbacks) is not decided; '
    'proved instead: local progress whenever window and data exist, and replenishment when delivery crosses half',
    'flat/tagged/total_bytes are uninterpreted; only instances of their recursive definition are assumed (empty, '
    'cons, snoc, split), plus total_bytes(s) >= 0, which is proved by induction over the list (base and step are '
    'solver-checked in extra_checks; the induction principle for finite lists is the trusted step)',
    'send_inv (_send_window >= 0, _send_pktsize >= 1, chunks_ok(_send_buf)) - writers of the three fields: '
    'process_open / process_open_confirmation (under contract here: they store exactly the values handed over, and '
    'their call sites in connection.py must hand over the initial-window / maximum-packet-size fields of the packet), '
    '_flush_send_buf and _process_window_adjust (under contract here), write() (appends a non-empty chunk: under '
    'contract in C07), _close_send / _discard (reset the buffer to []), __init__ (stores window 0 and packet size 0: '
    'send_inv does not hold before the open handshake; _flush_send_buf is reachable before that only through '
    'write(), which refuses unless _send_state == "open", a state entered only by process_open_confirmation / '
    '_finish_open_request after the limits were stored)',
    'INV-CREDIT (bytes buffered while reading is paused fit into the advertised window) is assumed by _accept_data and '
    '_flush_recv_buf and preserved by them; it is ESTABLISHED by the window test of _process_data / '
    '_process_extended_data, which is the obligation accepted-only-within-advertised-credit = known finding F4.  On '
    'the pinned tree the proofs about the paused path (window never negative when a paused buffer is flushed, the '
    'precondition len(data) <= _recv_window of every _deliver_data call in _flush_recv_buf) are therefore conditional '
    'on F4 being repaired: natively, paused + window 1000 + DATA 400 + DATA 900 + resume drives the window to -300. '
    'Other writers of _recv_buf / _recv_window: _discard_recv (clears the buffer), __init__ (empty buffer, window = '
    'initial window), SSHTunTapChannel._accept_data (strips 4 bytes, then the verified method)',
    'session callbacks: data_received may pause reading (arbitrary new _recv_paused) but does not re-enter the channel '
    'otherwise; _pause_resume_writing calls session.pause_writing / resume_writing, application code that is assumed '
    'not to call write() re-entrantly (the stub changes _send_paused only); write_eof() from _flush_recv_buf touches '
    'the send side only',
    'back-pressure: 0 <= _send_low_water <= _send_high_water is established by set_write_buffer_limits (only writer of '
    'the marks, under contract here; __init__ calls it); _send_buf_len == total_bytes(_send_buf) is required and '
    'preserved by _flush_send_buf / _process_window_adjust; the other writers of the pair are write() (appends one '
    'chunk and adds its length: under contract in C07, the equation is not re-proved there) and _close_send / '
    '_discard (empty list, 0).  That an application stops writing after pause_writing() is the application\'s side of '
    'the protocol; proved here is the channel\'s side: resume_writing() is called as soon as the buffered amount is at '
    'or below the low-water mark (empty buffer included), at every point that changes the amount downwards '
    '(_flush_send_buf, hence _process_window_adjust) or changes the marks (set_write_buffer_limits)',
    'channel.send_packet is abstracted at the emission site (ghost log): that it silently returns when _send_chan is '
    'None and may propagate errors of the connection is C07 (SSHChannel.send_packet contract), not restated here',
    'the readable extended data types of every channel class are a subset of {EXTENDED_DATA_STDERR} (class constants, '
    'channel.py 91, 1125) - needed only for the debug-log lookup _data_type_names[datatype] in _process_extended_data',
    'the stream-layer pause at one window of buffered data (stream.py) is covered by C19, not here',
]

PROP = 'C08'

# sum of the chunk lengths of a chunk list: total recursive function, the solver sees it uninterpreted plus the
# unfolding instances the contracts ask for (empty / cons / snoc) and `total >= 0`, which is proved by induction
# over the list in extra_checks (base and step are solver-checked there)
total = z3.Function('total_bytes', S.SEQ, z3.IntSort())


def total_empty():
    return total(z3.Empty(S.SEQ)) == 0


def total_snoc(s, x):
    return total(z3.Concat(s, z3.Unit(x))) == total(s) + z3.Length(S.data_of(x))


def total_cons(s):
    return z3.Implies(z3.Length(s) > 0, total(s) == z3.Length(S.data_of(s[0])) + total(S.tail(s)))


def total_nonneg(s):
    return total(s) >= 0


def emitted_bytes(c):
    """bytes of DATA / EXTENDED_DATA put on the wire by this activation (ghost log of the emission site)"""
    return total(c.new('ghost_emitted')) - total(c.old('ghost_emitted'))


def send_inv(c, new=True):
    f = c.new if new else c.old
    return z3.And(f('_send_window') >= 0, f('_send_pktsize') >= 1, S.chunks_ok(f('_send_buf')))


def chan_send_packet_stub(cx):
    """channel.send_packet(pkttype, *args): ghost-log data packets; flow-control obligations at the call site"""
    t = concrete_int(cx.args[0])
    ex, st = cx.ex, cx.st
    if t in (94, 95):
        payload = cx.args[-1].z          # String(data) = be4(len) ++ data
        data = S.strip_be4(payload)
        if data is None:
            data = z3.Extract(payload, 4, z3.Length(payload) - 4)
        if t == 94:
            dt = VNone
        else:
            from pyvc.builtins_model import unbe
            dt = VInt(unbe(cx.args[1].z))
        n = z3.Length(data)
        cx.require('data-packet-not-empty', n >= 1)
        cx.require('data-packet-within-max-packet-size', n <= cx.selff('_send_pktsize').z)
        cx.require('data-packet-within-peer-window', cx.selff('_send_window').z >= 0)
        entry = to_z3(VTuple([VBytes(data), dt]), S.CH)
        em = cx.selff('ghost_emitted')
        return [Out(sets={'ghost_emitted': VSeq(z3.Concat(em.z, z3.Unit(entry)), S.CH)},
                    event=('data', (VBytes(data), dt)))]
    if t == 96:
        cx.require('eof-only-after-all-data', z3.Length(cx.selff('_send_buf').z) == 0)
        return [Out(event=('eof', ()))]
    if t == 93:
        return [Out(event=('adjust', tuple(cx.args[1:])))]
    return [Out(event=('other', tuple(cx.args)))]


chan_send_packet_stub.modifies = ('ghost_emitted',)


def pause_resume_stub(cx):
    """(abstract view kept for the sidecars that only need the frame: C07 / C09)"""
    p = cx.fresh('bool', 'send_paused')
    return [Out(sets={'_send_paused': p})]


pause_resume_stub.modifies = ('_send_paused',)


# ------------------------------------------------------------------ writer side back-pressure (no writer deadlock)
# "never deadlocks ... every written byte is eventually delivered": an application that honours pause_writing() stops
# writing until resume_writing() is called, so the channel must call it as soon as the buffered amount is at or below
# the low-water mark (documented: "resumed when the write buffer size equals or drops below the low-water mark") -
# in particular an empty buffer never leaves the writer paused, whatever marks were configured (0 <= low <= high).
def water_inv(c, new=False):
    f = c.new if new else c.old
    return z3.And(0 <= f('_send_low_water'), f('_send_low_water') <= f('_send_high_water'))


def acct_inv(c, new=False):
    """the byte counter the water marks are compared with is the number of bytes in the send buffer"""
    f = c.new if new else c.old
    return f('_send_buf_len') == total(f('_send_buf'))


def hysteresis(c):
    n, lo, hi = c.old('_send_buf_len'), c.old('_send_low_water'), c.old('_send_high_water')
    return c.new('_send_paused') == z3.If(n <= lo, z3.BoolVal(False), z3.If(n > hi, z3.BoolVal(True),
                                                                            c.old('_send_paused')))


def session_told(c):
    """the session hears about every change of the flag, and only about changes"""
    r, p = len(c.calls('resume_writing')), len(c.calls('pause_writing'))
    went_off = z3.And(c.old('_send_paused'), z3.Not(c.new('_send_paused')))
    went_on = z3.And(z3.Not(c.old('_send_paused')), c.new('_send_paused'))
    if c.raised is not None:
        return z3.BoolVal(r == 0 and p == 0)
    return z3.And(z3.BoolVal(r + p <= 1), went_off == z3.BoolVal(r == 1), went_on == z3.BoolVal(p == 1))


pause_resume_writing = Spec(
    PROP, 'channel', 'SSHChannel._pause_resume_writing', self_class='SSHChannel', classes=CHAN_CLASSES,
    stubs={'self._session.resume_writing': noop('resume_writing'), 'self._session.pause_writing': noop('pause_writing')},
    requires=lambda c: water_inv(c),
    modifies=['_send_paused'],
    ensures=[('resumed-at-or-below-low-water,paused-above-high-water,unchanged-in-between', hysteresis),
             ('at-or-below-low-water-the-writer-is-never-left-paused',
              lambda c: z3.Implies(c.old('_send_buf_len') <= c.old('_send_low_water'), z3.Not(c.new('_send_paused'))))],
    always=[('session-is-told-exactly-about-changes', session_told)],
    # `assert self._session is not None`: a change is due on a channel that was already cleaned up
    raises={'AssertionError': lambda c: c.is_none(c.oldv('_session'))})


def limits_post(c):
    return z3.And(water_inv(c, new=True), z3.BoolVal(len(c.calls('_pause_resume_writing')) == 1))


set_write_buffer_limits = Spec(
    PROP, 'channel', 'SSHChannel.set_write_buffer_limits', self_class='SSHChannel', classes=CHAN_CLASSES,
    params=dict(high='opt[int]', low='opt[int]'),
    stubs={'self._pause_resume_writing': contract_stub(lambda: pause_resume_writing)},
    modifies=['_send_high_water', '_send_low_water', '_send_paused'],
    ensures=[('marks-ordered(0<=low<=high);flag-re-evaluated-against-the-new-marks', limits_post),
             ('at-or-below-low-water-the-writer-is-never-left-paused',
              lambda c: z3.Implies(c.new('_send_buf_len') <= c.new('_send_low_water'), z3.Not(c.new('_send_paused'))))],
    raises={'ValueError': lambda c: z3.And(c.new('_send_high_water') == c.old('_send_high_water'),
                                           c.new('_send_low_water') == c.old('_send_low_water'),
                                           c.new('_send_paused') == c.old('_send_paused')),
            'AssertionError': lambda c: c.is_none(c.oldv('_session'))})


def close_send_stub(cx):
    return [Out(sets={'_send_buf': VSeq(z3.Empty(S.SEQ), CHUNK), '_send_buf_len': VInt(0),
                      '_send_state': VStr('closed'), '_send_chan': VNone}, event=('close_send', ()))]


close_send_stub.modifies = ('_send_buf', '_send_buf_len', '_send_state', '_send_chan')


def conservation(c, e0, b0):
    """flat(emitted) ++ flat(_send_buf) is what it was at e0/b0"""
    return z3.Concat(S.flat(c.new('ghost_emitted')), S.flat(c.new('_send_buf'))) == \
        z3.Concat(S.flat(e0), S.flat(b0))


def flush_lemmas(c):
    """definitional instances needed for one iteration (head state -> end state), stated over the very terms
    the engine built (syntactic destructuring), so that only congruence and sequence algebra remain"""
    h = c.head
    ex = c.ex
    B = ex.get_field(h, c.self_ref, '_send_buf').z
    E = ex.get_field(h, c.self_ref, 'ghost_emitted').z
    B1 = c.new('_send_buf')
    E1 = c.new('ghost_emitted')
    out = [S.ax_cons(B), S.ax_eta(B), S.ax_empty(), S.ok_cons(B), S.ok_empty(), total_cons(B), total_empty()]
    # emitted' = emitted ++ [x]
    if E1.decl().kind() == z3.Z3_OP_SEQ_CONCAT and E1.num_args() == 2 and E1.arg(0).eq(E):
        x = E1.arg(1).arg(0)
        out.append(S.ax_snoc(E, x))
        out.append(total_snoc(E, x))
    ht = S.head_tail(B1)
    if ht is not None:
        # split case: new head chunk y = (rest, t) followed by the old tail
        y, T = ht
        out.append(S.ax_cons2(y, T))
        out.append(S.ok_cons2(y, T))
        out.append(total(z3.Concat(z3.Unit(y), T)) == z3.Length(S.data_of(y)) + total(T))     # cons, constructor form
        if c.has_local('data'):
            data = c.local('data')
            rest = y.arg(0) if y.decl().name() == 'mk' else S.data_of(y)
            t = y.arg(1) if y.decl().name() == 'mk' else S.type_of(y)
            b = S.data_of(B[0])
            out.append(S.ax_split(data, rest, t))
            # NOT assumed: proved first (sequence algebra about the code's own slices), then used
            out.append(Prove(b == z3.Concat(data, rest), 'head-chunk == emitted-prefix ++ kept-rest'))
            out.append(Prove(S.mk(z3.Concat(data, rest), t) == B[0], 'datatype-kept-on-split'))
    return out


def flush_lemma_obligations(c):
    """the one non-definitional fact used above, b == b[:k] ++ b[k:], is itself an obligation"""
    return []


flush_send_buf = Spec(
    PROP, 'channel', 'SSHChannel._flush_send_buf', self_class='SSHChannel', classes=CHAN_CLASSES,
    stubs={'self.send_packet': chan_send_packet_stub,
           'self._pause_resume_writing': contract_stub(lambda: pause_resume_writing),
           'self._close_send': close_send_stub},
    loops={1: LoopSpec(
        header='self._send_buf and self._send_window',
        modifies=['ghost_emitted'],
        invariant=lambda c: z3.And(send_inv(c), acct_inv(c, new=True),
                                   c.new('_send_pktsize') == c.at_entry('_send_pktsize'),
                                   # the window is charged exactly for what went out
                                   c.new('_send_window') + total(c.new('ghost_emitted')) ==
                                   c.at_entry('_send_window') + total(c.at_entry('ghost_emitted')),
                                   conservation(c, c.at_entry('ghost_emitted'), c.at_entry('_send_buf'))),
        variant=lambda c: c.new('_send_window'),
        lemmas=flush_lemmas)},
    requires=lambda c: z3.And(send_inv(c, new=False), water_inv(c), acct_inv(c)),
    modifies=['_send_buf', '_send_buf_len', '_send_window', '_send_state', '_send_paused', '_send_chan',
              'ghost_emitted'],
    lemmas=lambda c: [total_empty()],
    ensures=[
        # back-pressure: the flag is re-evaluated once, after the window was used up, against what is still buffered
        ('writer-resumed-at-or-below-low-water', lambda c: z3.Implies(
            c.new('_send_buf_len') <= c.new('_send_low_water'), z3.Not(c.new('_send_paused')))),
        ('empty-buffer-never-leaves-the-writer-paused', lambda c: z3.Implies(
            z3.Length(c.new('_send_buf')) == 0, z3.Not(c.new('_send_paused')))),
        ('buffered-byte-count-is-exact', lambda c: acct_inv(c, new=True)),
        ('pause-or-resume-decided-once-per-flush', lambda c: z3.BoolVal(len(c.calls('_pause_resume_writing')) == 1)),
        ('window-never-negative', lambda c: c.new('_send_window') >= 0),
        ('window-charged-exactly-for-the-bytes-emitted',
         lambda c: c.new('_send_window') == c.old('_send_window') - emitted_bytes(c)),
        ('max-packet-size-untouched', lambda c: c.new('_send_pktsize') == c.old('_send_pktsize')),
        ('flushed-all-the-window-allows',
         lambda c: z3.Or(z3.Length(c.new('_send_buf')) == 0, c.new('_send_window') == 0)),
        ('nothing-lost-or-duplicated',
         # (a pending close discards what is still buffered: that is what close() asks for)
         lambda c: z3.Or(z3.And(c.old('_send_state') == z3.StringVal('close_pending'),
                                c.new('_send_state') == z3.StringVal('closed')),
                         conservation(c, c.old('ghost_emitted'), c.old('_send_buf')))),
        ('class-inv', lambda c: send_inv(c)),
    ],
    raises={'AssertionError': lambda c: c.is_none(c.oldv('_session'))})


# ------------------------------------------------------------------ window adjust
def flush_contract_stub(cx):
    """callee contract of _flush_send_buf as proved above"""
    return contract_stub(lambda: flush_send_buf)(cx)


flush_contract_stub.modifies = tuple(flush_send_buf.modifies)

def wire_uint32(c, off=0):
    """the uint32 field `off` bytes behind the read position the packet had when the handler was entered"""
    from pyvc.builtins_model import unbe
    p = c.old_state.rec(c.argv('packet')).fields
    return unbe(z3.Extract(p['_packet'].z, p['_idx'].z + off, 4))


def adjust_then_flush_stub(cx):
    """_flush_send_buf called from _process_window_adjust: at that moment the window is the old window plus the
    `bytes to add` field of THIS packet (RFC 4254 5.2), nothing else; then the verified flush contract applies"""
    ex = cx.ex
    c0 = Ctx(ex, ex.entry_state, cx.st, ex.self_ref, args=dict(ex.entry_state.env))
    cx.require('window-grows-exactly-by-the-adjust-field-of-the-packet',
               z3.And(cx.selff('_send_window').z == c0.old('_send_window') + wire_uint32(c0),
                      cx.selff('_send_pktsize').z == c0.old('_send_pktsize')))
    return contract_stub(lambda: flush_send_buf)(cx)


adjust_then_flush_stub.modifies = tuple(flush_send_buf.modifies)
adjust_then_flush_stub.spec_getter = lambda: flush_send_buf


def window_adjust_post(c):
    """RFC 4254 5.2: after the adjust the sender may send `bytes to add` more than before: what the window is now
    plus what this activation already put on the wire is the old window plus the field of the packet"""
    return z3.And(c.new('_send_window') + emitted_bytes(c) == c.old('_send_window') + wire_uint32(c),
                  c.new('_send_pktsize') == c.old('_send_pktsize'),
                  z3.BoolVal(len(c.calls('_flush_send_buf')) == 1))


def adjust_state_ok(c):
    """RFC 4254 5.2 / 5.3: window adjustments concern data WE send; the peer may grant window for as long as it reads,
    i.e. also after it has sent EOF (its own sending direction closed, ours not) - refusing them then would leave our
    buffered data unsendable for ever.  Only a channel the peer has closed (or not yet opened) takes no adjustments."""
    st = c.old('_recv_state')
    return z3.Or(st == z3.StringVal('open'), st == z3.StringVal('eof_pending'), st == z3.StringVal('eof'))


def window_adjust_refused(c):
    """a refused adjust grants nothing"""
    return z3.And(c.new('_send_window') == c.old('_send_window'), z3.BoolVal(not c.calls('_flush_send_buf')))


process_window_adjust = Spec(
    PROP, 'channel', 'SSHChannel._process_window_adjust', self_class='SSHChannel',
    params=dict(_pkttype='int', _pktid='int', packet='obj:SSHPacket'),
    classes=dict(CHAN_CLASSES, **PACKET_CLASSES), inline=dict(PACKET_INLINE), truthy=PACKET_TRUTHY,
    stubs={'self._flush_send_buf': adjust_then_flush_stub},
    requires=lambda c: z3.And(send_inv(c, new=False), water_inv(c), acct_inv(c), packet_wf(c, c.argv('packet'))),
    ensures=[('class-inv', lambda c: send_inv(c)),
             ('window-grows-only-by-adjust', window_adjust_post),
             ('adjust-accepted-only-while-the-peer-still-reads(open,eof_pending,eof)', adjust_state_ok),
             # new window may let buffered data out: the writer is resumed if that drained the buffer far enough
             ('writer-resumed-at-or-below-low-water', lambda c: z3.Implies(
                 c.new('_send_buf_len') <= c.new('_send_low_water'), z3.Not(c.new('_send_paused'))))],
    # ProtocolError only for a channel state that takes no adjustments: a peer that sent EOF but keeps reading is served
    raises={'ProtocolError': lambda c: z3.And(window_adjust_refused(c), z3.Not(adjust_state_ok(c))),
            'PacketDecodeError': window_adjust_refused,
            'AssertionError': lambda c: c.is_none(c.oldv('_session'))})


# ------------------------------------------------------------------ receive side
def recv_inv(c, new=True):
    f = c.new if new else c.old
    return z3.And(f('_recv_window') >= 0, f('_init_recv_window') >= 0,
                  f('_recv_window') <= f('_init_recv_window'))


def credit_inv(c, new=True):
    """INV-CREDIT: what was accepted but is still buffered (reading paused) fits into the window that is currently
    advertised - asyncssh charges _recv_window on *delivery*, so this is what keeps the window from going negative
    when the buffer is flushed.  Assumed by _accept_data / _flush_recv_buf, preserved by them; ESTABLISHED by the
    window test of _process_data / _process_extended_data, which is exactly obligation
    `accepted-only-within-advertised-credit` (known finding F4 on the pinned tree)."""
    f = c.new if new else c.old
    return z3.And(total(f('_recv_buf')) >= 0, total(f('_recv_buf')) <= f('_recv_window'))


def decoder_inv(c):
    """set_encoding creates the decoder together with the encoding (only writer of both fields)"""
    return z3.Implies(c.truthy(c.oldv('_encoding'), c.old_state), z3.Not(c.is_none(c.oldv('_decoder'))))


def accept_stub(cx):
    return [Out(event=('accept', tuple(cx.args)))]


accept_stub.modifies = ()
EXT_FIELDS = dict(CHAN_FIELDS, _read_datatypes='dict[int,bool]')       # a set of ints: only membership is used
EXT_CLASSES = dict(CHAN_CLASSES, SSHChannel=EXT_FIELDS, **PACKET_CLASSES)


def only_stderr(c):
    """the readable extended data types of every channel class are a subset of {EXTENDED_DATA_STDERR} (class constants,
    channel.py 91, 1125); needed only for the debug-log lookup _data_type_names[datatype]"""
    k = z3.Int(fresh_name('k'))
    return z3.ForAll([k], z3.Implies(z3.Select(c.oldv('_read_datatypes').dom, k), k == 1))


def wire_string(c, off=0):
    """the `string` field `off` bytes behind the read position the packet had on entry"""
    from pyvc.builtins_model import unbe
    p = c.old_state.rec(c.argv('packet')).fields
    P, i0 = p['_packet'].z, p['_idx'].z + off
    return z3.Extract(P, i0 + 4, unbe(z3.Extract(P, i0, 4)))


def accepted(c, with_type):
    """exactly one chunk is accepted: the data string of THIS packet, unaltered (with its type code), only while the
    channel is open for receiving, and only if it fits into the advertised window (RFC 4254 5.2)"""
    ev = c.events('accept')
    if len(ev) != 1:
        return z3.BoolVal(False)
    a = ev[0][1]
    data = wire_string(c, 4 if with_type else 0)
    conj = [a[0].z == data, z3.Length(a[0].z) <= c.old('_recv_window'),
            c.old('_recv_state') == z3.StringVal('open'), c.new('_recv_window') == c.old('_recv_window')]
    if with_type:
        dt = wire_uint32(c)
        rd = c.oldv('_read_datatypes')
        conj += [z3.BoolVal(len(a) == 2), a[1].z == dt if len(a) == 2 and hasattr(a[1], 'z') else z3.BoolVal(False),
                 z3.Select(rd.dom, dt)]
    else:
        conj.append(z3.BoolVal(len(a) == 1))
    return z3.And(conj)


def refused(c):
    return z3.And(z3.BoolVal(len(c.events('accept')) == 0), c.new('_recv_window') == c.old('_recv_window'),
                  c.new('_recv_buf') == c.old('_recv_buf'))


process_data = Spec(
    PROP, 'channel', 'SSHChannel._process_data', self_class='SSHChannel',
    params=dict(_pkttype='int', _pktid='int', packet='obj:SSHPacket'),
    classes=dict(CHAN_CLASSES, **PACKET_CLASSES), inline=dict(PACKET_INLINE), truthy=PACKET_TRUTHY,
    stubs={'self._accept_data': accept_stub},
    requires=lambda c: z3.And(recv_inv(c, new=False), packet_wf(c, c.argv('packet'))),
    ensures=[('accepted-only-within-window', lambda c: accepted(c, False))],
    raises={'ProtocolError': refused, 'PacketDecodeError': refused})

process_extended_data = Spec(
    PROP, 'channel', 'SSHChannel._process_extended_data', self_class='SSHChannel',
    params=dict(_pkttype='int', _pktid='int', packet='obj:SSHPacket'),
    classes=EXT_CLASSES, inline=dict(PACKET_INLINE), truthy=PACKET_TRUTHY,
    stubs={'self._accept_data': accept_stub},
    requires=lambda c: z3.And(recv_inv(c, new=False), packet_wf(c, c.argv('packet')), only_stderr(c)),
    ensures=[('accepted-only-within-window-and-only-a-readable-data-type', lambda c: accepted(c, True))],
    raises={'ProtocolError': refused, 'PacketDecodeError': refused})


# ------------------------------------------------------------------ delivery / replenishment
def session_data_stub(cx):
    """session.data_received: application code; it may pause reading (pause_reading() only sets the flag)"""
    me = cx.ex.self_ref
    decl = cx.ex.spec.classes[cx.st.rec(me).cls]['_recv_paused']
    return [Out(osets=[(me, '_recv_paused', cx.fresh(decl, 'paused_by_app'))], event=('deliver', tuple(cx.args)))]


session_data_stub.modifies = ('_recv_paused',)

deliver_data = Spec(
    PROP, 'channel', 'SSHChannel._deliver_data', self_class='SSHChannel',
    params=dict(data='bytes', datatype='opt[int]'),
    classes=CHAN_CLASSES,
    stubs={'self.send_packet': chan_send_packet_stub,
           'self._decoder.decode': may_raise(ret('str', 'decoded'), 'UnicodeDecodeError'),
           'self._session.data_received': session_data_stub},
    requires=lambda c: z3.And(recv_inv(c, new=False), z3.Length(c.arg('data')) <= c.old('_recv_window'),
                              c.old('_init_recv_window') < 2 ** 32, decoder_inv(c)),
    modifies=['_recv_window', '_recv_paused'],
    ensures=[
        # "as long as the application keeps reading the window is replenished": after a delivery the advertised
        # window is never left below half of the initial window
        ('window-replenished-at-half', lambda c: 2 * c.new('_recv_window') >= c.old('_init_recv_window')),
        ('adjust-restores-initial-window', lambda c: z3.And(*[
            z3.And(c.new('_recv_window') == c.old('_init_recv_window'),
                   e[1][0].z == __import__('pyvc.builtins_model', fromlist=['be']).be(
                       z3.IntVal(4), c.old('_init_recv_window') - (c.old('_recv_window') -
                                                                 z3.Length(c.arg('data')))))
            for e in c.events('adjust')] + [z3.BoolVal(len(c.events('adjust')) <= 1)])),
        ('no-adjust-means-plain-decrement', lambda c: z3.Or(
            z3.BoolVal(len(c.events('adjust')) == 1),
            c.new('_recv_window') == c.old('_recv_window') - z3.Length(c.arg('data')))),
        # the same two clauses without reference to the event log (this is what callers may rely on)
        ('window-charged-for-the-delivery-or-restored', lambda c: z3.Or(
            c.new('_recv_window') == c.old('_recv_window') - z3.Length(c.arg('data')),
            c.new('_recv_window') == c.old('_init_recv_window'))),
        ('delivered-exactly-once', lambda c: z3.Or(
            c.is_none(c.oldv('_session')), z3.BoolVal(len(c.events('deliver')) == 1))),
        ('class-inv', lambda c: recv_inv(c)),
    ],
    raises={'ProtocolError': True})


def accept_lemmas(c):
    x = to_z3(VTuple([c.argv('data'), c.argv('datatype')]), S.CH)
    return [total_snoc(c.old('_recv_buf'), x)]


def accept_post(c):
    """a chunk that is accepted is buffered at the END of the receive buffer (reading paused) XOR handed to
    _deliver_data exactly once, unaltered (reading not paused) - never dropped, never both.  The only chunks that
    vanish are empty ones and those arriving after the application closed the channel (documented behaviour)."""
    x = to_z3(VTuple([c.argv('data'), c.argv('datatype')]), S.CH)
    b0, b1 = c.old('_recv_buf'), c.new('_recv_buf')
    dl = c.calls('_deliver_data')
    closed = z3.Or(c.old('_send_state') == z3.StringVal('close_pending'), c.old('_send_state') == z3.StringVal('closed'))
    dropped = z3.Or(z3.Length(c.arg('data')) == 0, closed)
    paused = c.truthy(c.oldv('_recv_paused'), c.old_state)
    n = len(dl)
    handed = z3.BoolVal(False)
    if n == 1:
        a = dl[0]['args']
        handed = z3.And(a[0].z == c.arg('data'), c.eq(a[1], c.argv('datatype')))
    return z3.And(
        z3.Implies(dropped, z3.And(b1 == b0, z3.BoolVal(n == 0))),
        z3.Implies(z3.And(z3.Not(dropped), paused), z3.And(b1 == z3.Concat(b0, z3.Unit(x)), z3.BoolVal(n == 0))),
        z3.Implies(z3.And(z3.Not(dropped), z3.Not(paused)), z3.And(b1 == b0, handed)))


accept_data = Spec(
    PROP, 'channel', 'SSHChannel._accept_data', self_class='SSHChannel',
    params=dict(data='bytes', datatype='opt[int]'),
    classes=CHAN_CLASSES, falsy_sorts={'Any'},
    stubs={'self._deliver_data': contract_stub(lambda: deliver_data)},
    # len(data) <= credit: what _process_data / _process_extended_data have to guarantee (see credit_inv)
    requires=lambda c: z3.And(recv_inv(c, new=False), credit_inv(c, new=False),
                              z3.Length(c.arg('data')) <= c.old('_recv_window') - total(c.old('_recv_buf')),
                              c.old('_init_recv_window') < 2 ** 32, decoder_inv(c)),
    lemmas=accept_lemmas,
    ensures=[('buffered-when-paused-in-order', accept_post),
             ('class-inv', lambda c: recv_inv(c)),
             ('buffered-bytes-stay-within-the-advertised-window', lambda c: credit_inv(c))],
    raises={'ProtocolError': True})


# ------------------------------------------------------------------ the paused path: resume_reading -> _flush_recv_buf
FLUSH_FIELDS = dict(CHAN_FIELDS, _recv_paused='pyobj', _loop='opaque:Loop')
FLUSH_CLASSES = dict(CHAN_CLASSES, SSHChannel=FLUSH_FIELDS)


def flush_recv_lemmas(c):
    """unfolding of total_bytes / the list at the loop-head buffer B: B == [B[0]] ++ B[1:]"""
    B = c.ex.get_field(c.head, c.self_ref, '_recv_buf').z
    return [S.ax_eta(B), total_cons(B), total_nonneg(S.tail(B)), total_empty()]


def send_side_untouched_stub(cx):
    """write_eof() (automatic EOF echo): send side only"""
    return [Out(event=('write_eof', ()))]


send_side_untouched_stub.modifies = ()

flush_recv_buf = Spec(
    PROP, 'channel', 'SSHChannel._flush_recv_buf', self_class='SSHChannel',
    params=dict(exc='opt[opaque:Exc]'), classes=FLUSH_CLASSES,
    stubs={'self._deliver_data': contract_stub(lambda: deliver_data),
           'self._decoder.decode': may_raise(ret('str', 'decoded'), 'UnicodeDecodeError'),
           'self._session.eof_received': ret('bool', 'keep_open'), 'self.write_eof': send_side_untouched_stub,
           'self._loop.call_soon': noop('call_soon')},
    loops={1: LoopSpec(
        header='self._recv_buf and (not self._recv_paused)',
        modifies=['_recv_buf', '_recv_window', '_recv_paused'],
        invariant=lambda c: z3.And(recv_inv(c), credit_inv(c),
                                   c.new('_init_recv_window') == c.at_entry('_init_recv_window')),
        variant=lambda c: z3.Length(c.new('_recv_buf')),
        lemmas=flush_recv_lemmas)},
    # every _deliver_data call of the loop carries the obligation len(chunk) <= _recv_window (pre-at-call)
    requires=lambda c: z3.And(recv_inv(c, new=False), credit_inv(c, new=False),
                              c.old('_init_recv_window') < 2 ** 32, decoder_inv(c)),
    ensures=[('class-inv(window-never-negative-after-a-paused-buffer-is-flushed)', lambda c: recv_inv(c)),
             ('buffered-bytes-stay-within-the-advertised-window', lambda c: credit_inv(c))],
    raises={'ProtocolError': True,
            # `assert self._session is not None`: only on a channel that was already cleaned up
            'AssertionError': lambda c: c.is_none(c.oldv('_session'))})


# ------------------------------------------------------------------ receive credit (also while paused)
def credit(c):
    """what the peer may still send = window advertised - bytes already accepted.  asyncssh decrements
    _recv_window on *delivery*, so bytes accepted but still buffered have to be subtracted"""
    return c.old('_recv_window') - total(c.old('_recv_buf'))


def credit_requires(c):
    return z3.And(recv_inv(c, new=False), packet_wf(c, c.argv('packet')),
                  total(c.old('_recv_buf')) >= 0,
                  z3.Implies(z3.Length(c.old('_recv_buf')) == 0, total(c.old('_recv_buf')) == 0),
                  z3.Implies(z3.Length(c.old('_recv_buf')) > 0, total(c.old('_recv_buf')) >= 1))


def within_credit(c):
    """this is the precondition of _accept_data (len(data) <= window - buffered), i.e. what establishes INV-CREDIT"""
    return z3.Length(c.events('accept')[0][1][0].z) <= credit(c) if c.events('accept') else z3.BoolVal(True)


process_data_credit = Spec(
    PROP, 'channel', 'SSHChannel._process_data', self_class='SSHChannel',
    params=dict(_pkttype='int', _pktid='int', packet='obj:SSHPacket'),
    classes=dict(CHAN_CLASSES, **PACKET_CLASSES), inline=dict(PACKET_INLINE), truthy=PACKET_TRUTHY,
    stubs={'self._accept_data': accept_stub},
    requires=credit_requires,
    ensures=[('accepted-only-within-advertised-credit', within_credit)],
    raises={'ProtocolError': True, 'PacketDecodeError': True})
process_data_credit.tag = 'credit'

process_extended_data_credit = Spec(
    PROP, 'channel', 'SSHChannel._process_extended_data', self_class='SSHChannel',
    params=dict(_pkttype='int', _pktid='int', packet='obj:SSHPacket'),
    classes=EXT_CLASSES, inline=dict(PACKET_INLINE), truthy=PACKET_TRUTHY,
    stubs={'self._accept_data': accept_stub},
    requires=lambda c: z3.And(credit_requires(c), only_stderr(c)),
    ensures=[('accepted-only-within-advertised-credit', within_credit)],
    raises={'ProtocolError': True, 'PacketDecodeError': True})
process_extended_data_credit.tag = 'credit'


# ------------------------------------------------------------------ the peer's limits where they are taken from the wire
# RFC 4254 5.1: CHANNEL_OPEN = string type, uint32 sender channel, uint32 initial window size, uint32 maximum packet
# size;  CHANNEL_OPEN_CONFIRMATION = uint32 recipient, uint32 sender, uint32 initial window, uint32 maximum packet.
# What is stored in _send_window / _send_pktsize must BE those two fields of this packet (the maximum packet size
# minus the documented dropbear work-around), and it must satisfy the class invariant the flush loop relies on.
OPEN_CHAN_FIELDS = dict(CHAN_FIELDS, _open_waiter='opt[obj:Waiter]')
OPEN_CHAN_CLASSES = dict(CHAN_CLASSES, SSHChannel=OPEN_CHAN_FIELDS, Chan=OPEN_CHAN_FIELDS, Waiter={}, Task={})


def peer_limits_pre(c):
    return z3.And(c.arg('send_pktsize') >= 1, c.arg('send_window') >= 0, c.arg('send_window') < 2 ** 32,
                  c.arg('send_chan') >= 0, c.arg('send_chan') < 2 ** 32)


def limits_inv_established(c):
    """the window / packet-size part of send_inv is established here; the buffer part is only preserved"""
    return z3.And(z3.Implies(S.chunks_ok(c.old('_send_buf')), send_inv(c)), c.new('_send_buf') == c.old('_send_buf'))


def peer_limits_stored(c):
    ch = c.newv('_send_chan')
    chan_ok = z3.BoolVal(False) if ch is VNone else \
        (z3.And(z3.Not(ch.isnone), ch.val.z == c.arg('send_chan')) if isinstance(ch, VOpt) else ch.z == c.arg('send_chan'))
    return z3.And(c.new('_send_window') == c.arg('send_window'), c.new('_send_pktsize') == c.arg('send_pktsize'),
                  chan_ok)


def peer_limits_untouched(c):
    return z3.And(c.new('_send_window') == c.old('_send_window'), c.new('_send_pktsize') == c.old('_send_pktsize'),
                  c.eq(c.oldv('_send_chan'), c.newv('_send_chan')))


process_open = Spec(
    PROP, 'channel', 'SSHChannel.process_open', self_class='SSHChannel',
    params=dict(send_chan='int', send_window='int', send_pktsize='int', session='any'), classes=OPEN_CHAN_CLASSES,
    stubs={'self._finish_open_request': ret('opaque:Coroutine', 'finish_open'),
           'self._conn.create_task': ret('obj:Task', 'task')},
    requires=peer_limits_pre,
    modifies=['_send_chan', '_send_window', '_send_pktsize'],
    ensures=[('stored-limits-are-the-ones-handed-over', peer_limits_stored),
             ('class-inv(window,max-packet-size)-established', limits_inv_established)],
    raises={'AssertionError': lambda c: c.is_none(c.oldv('_conn'))})

process_open_confirmation = Spec(
    PROP, 'channel', 'SSHChannel.process_open_confirmation', self_class='SSHChannel',
    params=dict(send_chan='int', send_window='int', send_pktsize='int', packet='obj:SSHPacket'),
    classes=dict(OPEN_CHAN_CLASSES, **PACKET_CLASSES),
    stubs={'self._open_waiter.cancelled': ret('bool', 'cancelled'), 'self._open_waiter.set_result': noop('waiter_set')},
    requires=peer_limits_pre,
    modifies=['_send_chan', '_send_window', '_send_pktsize', '_send_state', '_recv_state', '_open_waiter'],
    ensures=[('stored-limits-are-the-ones-handed-over', peer_limits_stored),
             ('class-inv(window,max-packet-size)-established', limits_inv_established),
             ('accepted-only-while-the-channel-is-being-opened', lambda c: z3.Not(c.is_none(c.oldv('_open_waiter'))))],
    # an unsolicited confirmation changes nothing
    raises={'ProtocolError': lambda c: z3.And(c.is_none(c.oldv('_open_waiter')), peer_limits_untouched(c))})


def open_handler_stub(cx):
    chan = cx.fresh('obj:Chan', 'chan')
    sess = cx.fresh('any', 'session')
    return [Out(ret=VTuple([chan, sess])), Out(exc=VExc('ChannelOpenError'))]


open_handler_stub.modifies = ()


def wire_limits(cx, skip_string):
    """(sender channel, initial window, maximum packet size) as they stand in the packet this handler was entered
    with: three consecutive uint32 behind the channel type string (OPEN) / the recipient channel (CONFIRMATION)"""
    from pyvc.builtins_model import unbe
    ex = cx.ex
    p = ex.entry_state.rec(ex.entry_state.env['packet']).fields
    P, i0 = p['_packet'].z, p['_idx'].z
    base = i0 + 4 + (unbe(z3.Extract(P, i0, 4)) if skip_string else 0)
    return tuple(unbe(z3.Extract(P, base + 4 * k, 4)) for k in range(3))


def _workaround(cx, version_field):
    """the documented dropbear work-around (connection.py): one less than advertised when the peer's version string
    contains b'dropbear' and compression is on"""
    e = cx.ex.entry_state
    comp = cx.ex.get_field(e, cx.ex.self_ref, '_compressor')
    ver = cx.ex.get_field(e, cx.ex.self_ref, version_field).z
    has_comp = z3.BoolVal(comp is not VNone) if not isinstance(comp, VOpt) else z3.Not(comp.isnone)
    return z3.If(z3.And(z3.Contains(ver, bytes_const(b'dropbear')), has_comp), 1, 0)


def tied_to_wire(callee, skip_string, version_field, event):
    def stub(cx):
        chan_no, window, pktsize = wire_limits(cx, skip_string)
        cx.require('sender-channel-is-the-field-of-the-packet', cx.args[0].z == chan_no)
        cx.require('window-is-the-initial-window-field-of-the-packet', cx.args[1].z == window)
        cx.require('max-packet-size-is-the-field-of-the-packet(minus-dropbear-work-around)',
                   cx.args[2].z == pktsize - _workaround(cx, version_field))
        cx.require('max-packet-size>=1', cx.args[2].z >= 1)
        cx.require('window-is-uint32', z3.And(cx.args[1].z >= 0, cx.args[1].z < 2 ** 32))
        outs = contract_stub(callee)(cx)
        outs[0].event = (event, tuple(cx.args))
        return outs
    stub.modifies = ()
    stub.spec_getter = callee
    return stub


OPEN_CONN = {'_client_version': 'bytes', '_server_version': 'bytes', '_compressor': 'opt[obj:Compressor]',
             '_channels': 'dict[int,obj:Chan]'}
OPEN_CONN_CLASSES = dict({'SSHConnection': OPEN_CONN, 'Compressor': {}, 'Chan': OPEN_CHAN_FIELDS, 'Waiter': {},
                          'Session': {}, 'Decoder': {}, 'Conn': {}}, **PACKET_CLASSES)

channel_open = Spec(
    PROP, 'connection', 'SSHConnection._process_channel_open', self_class='SSHConnection',
    params=dict(_pkttype='int', _pktid='int', packet='obj:SSHPacket'),
    classes=OPEN_CONN_CLASSES,
    inline=dict(PACKET_INLINE), truthy=PACKET_TRUTHY,
    stubs={'map_handler_name': ret('str', 'hname'), 'getattr': ret('opt[opaque:Handler]', 'handler'),
           'callable': lambda cx: VBool(z3.Not(cx.args[0].isnone)) if isinstance(cx.args[0], VOpt)
           else VBool(cx.args[0] is not VNone),
           'handler': open_handler_stub,
           'chan.process_open': tied_to_wire(lambda: process_open, True, '_client_version', 'process_open'),
           'self.send_channel_open_failure': noop('open_failure')},
    requires=lambda c: packet_wf(c, c.argv('packet')),
    ensures=[('opened-xor-refused', lambda c: z3.BoolVal(
        len(c.events('process_open')) + len(c.events('open_failure')) == 1))],
    raises={'ProtocolError': True, 'PacketDecodeError': True,
            # `assert self._conn is not None` inside process_open: a channel object that was already cleaned up
            'AssertionError': True})

channel_open_conf = Spec(
    PROP, 'connection', 'SSHConnection._process_channel_open_confirmation', self_class='SSHConnection',
    params=dict(_pkttype='int', _pktid='int', packet='obj:SSHPacket'),
    classes=OPEN_CONN_CLASSES,
    inline=dict(PACKET_INLINE), truthy=PACKET_TRUTHY,
    stubs={'chan.process_open_confirmation': tied_to_wire(lambda: process_open_confirmation, False,
                                                          '_server_version', 'process_open_confirmation')},
    requires=lambda c: packet_wf(c, c.argv('packet')),
    raises={'ProtocolError': True, 'PacketDecodeError': True})


# ------------------------------------------------------------------ induction lemma for total_bytes
def extra_checks(tier, seed):
    """total_bytes(s) >= 0 for every finite chunk list, by induction on the list: base total([]) = 0 >= 0; step: if
    total(t) >= 0 then total([x] ++ t) = len(x.data) + total(t) >= 0.  Both are checked by the solver from the
    defining equations only (total_bytes itself stays uninterpreted)."""
    t = z3.Const('lemma_t', S.SEQ)
    x = z3.Const('lemma_x', S.CHS)
    sol = z3.Solver()
    sol.set('timeout', 20000)
    cons = z3.Concat(z3.Unit(x), t)
    sol.add(total_empty(), total(cons) == z3.Length(S.data_of(x)) + total(t))      # definition
    sol.add(z3.Not(z3.And(total(z3.Empty(S.SEQ)) >= 0, z3.Implies(total(t) >= 0, total(cons) >= 0))))
    res = sol.check()
    return {'lemmas': [{'name': 'C08.lemma#total_bytes-is-non-negative(induction: base and step)',
                        'verdict': 'proved' if res == z3.unsat else ('refuted' if res == z3.sat else 'unknown'),
                        'reason': str(res), 'backend': 'z3', 'replayed': True}], 'bounded': []}
