"""C06 — out-of-phase and injected messages never take effect.  Sidecar contracts.

The dispatch part of SSHConnection._recv_packet is verified against the phase table in
specs/phases.py for ALL message types and flag valuations (symbolic pkttype 0..255).
"""
import z3
from pyvc.contracts import *
from pyvc.engine import LoopSpec, Out, Record
from pyvc.values import *
from pyvc.builtins_model import unbe
from .common import *
from specs.phases import allowed_dispatch, H_CONN, H_KEX, H_AUTH, H_CHAN

ASSUMPTIONS = [
    'gate: handler objects (kex, auth, channel) are abstract: process_packet returns an arbitrary value or raises '
    'PacketDecodeError / ProtocolError; the role / phase checks of the connection-level handlers the gate lets through '
    'are the contracts of contracts/c06_handlers.py (same property id); the role checks of the kex method handlers '
    '(kex_dh.py / kex_rsa.py `Unexpected kex ... msg`) and of the auth method handlers (auth.py) are NOT under '
    'contract here',
    'decrypt_packet / decompress are assumed contracts (return Optional[bytes])',
]

KINDS = {'SSHConnection': H_CONN, 'Kex': H_KEX, 'Auth': H_AUTH, 'Channel': H_CHAN}


def process_packet_stub(cx):
    r = cx.fresh('any', 'handler_result')
    ev = ('process_packet', (cx.recv,) + tuple(cx.args))
    return [Out(ret=r, event=ev), Out(exc=VExc('PacketDecodeError'), event=ev),
            Out(exc=VExc('ProtocolError'), event=ev)]


process_packet_stub.modifies = ()


def opt_set(c, name, old=True):
    v = c.oldv(name) if old else c.newv(name)
    return z3.Not(v.isnone)


# supporting class invariants A1 / A2: assumed here, proved on the writers of _auth / _auth_complete /
# _recv_encryption in contracts/c06_handlers.py (the list of writers covered and not covered is in ASSUMPTIONS)
def A1A2(c, old=True):
    g = c.oldv if old else c.newv
    enc = z3.Not(g('_recv_encryption').isnone)
    return z3.And(z3.Implies(z3.Not(g('_auth').isnone), enc),
                  z3.Implies(g('_auth_complete').z, enc))


def recv_packet_requires(c):
    return z3.And(c.old('_pktlen') >= 0, c.old('_recv_macsize') >= 0, c.old('_recv_blocksize') >= 8,
                  c.old('_recv_seq') >= 0, c.old('_recv_seq') < 2 ** 32,
                  z3.Length(c.old('_packet')) == c.old('_recv_blocksize'),
                  A1A2(c))


def phase_flags(c):
    return dict(kex_active=opt_set(c, '_kex'), enc=opt_set(c, '_recv_encryption'),
                auth_active=opt_set(c, '_auth'), auth_complete=c.old('_auth_complete'),
                strict=c.old('_strict_kex'))


def gate_sound(c):
    """every handler invocation is one the phase table allows, and goes to the right object"""
    st = c.new_state
    conj = []
    fl = phase_flags(c)
    for _n, (h, pkttype, seq, packet) in c.events('process_packet'):
        cls = st.rec(h).cls
        kind = KINDS[cls]
        t = pkttype.z
        ok = [allowed_dispatch(t, z3.IntVal(kind), **fl)]
        if cls == 'Kex':
            ok.append(z3.BoolVal(h.addr == c.oldv('_kex').val.addr))
            ok.append(z3.Not(c.old('_ignore_first_kex')))
        elif cls == 'Auth':
            ok.append(z3.BoolVal(h.addr == c.oldv('_auth').val.addr))
        elif cls == 'Channel':
            # the channel is the one registered under the recipient number carried in the packet
            payload = st.rec(packet).fields['_packet'].z
            keyz = None
            for (mid, kz, addr) in st.heap.get('__mapobj_keys__', ()):
                if addr == h.addr:
                    keyz = kz
            ok.append(z3.BoolVal(keyz is not None))
            if keyz is not None:
                ok.append(keyz == unbe(z3.Extract(payload, 1, 4)))
        else:
            ok.append(z3.BoolVal(h.addr == c.self_ref.addr))
        # sequence number handed to the handler is the receive counter of this packet
        ok.append(seq.z == c.old('_recv_seq'))
        conj.append(z3.And(ok))
    return z3.And(conj) if conj else z3.BoolVal(True)


def at_most_one_handler(c):
    return z3.BoolVal(len(c.events('process_packet')) <= 1)


def normal_means_finished(c):
    """a True return means exactly one handler saw the packet (or the ignored-first-kex rule applied) and
    _finish_recv_packet(pkttype, seq) ran exactly once"""
    fin = c.calls('_finish_recv_packet')
    n = len(c.events('process_packet'))
    r = c.result_v
    is_true = z3.And(r.z) if isinstance(r, VBool) else z3.BoolVal(False)
    return z3.Implies(is_true, z3.And(
        z3.BoolVal(len(fin) == 1),
        z3.Or(z3.BoolVal(n == 1), z3.And(z3.BoolVal(n == 0), c.old('_ignore_first_kex'), opt_set(c, '_kex')))))


def unimplemented_only_when_unhandled(c):
    """UNIMPLEMENTED is sent only after a handler returned a false value, never under strict kex before keys,
    and it is the only thing sent"""
    sends = c.calls('send_packet')
    if not sends:
        return z3.BoolVal(True)
    evs = c.events('process_packet')
    conj = [z3.BoolVal(len(sends) == 1), z3.BoolVal(len(evs) == 1)]
    a = sends[0]['args']
    conj.append(a[0].z == 3)
    # RFC 4253 11.4: the reply carries the sequence number of the rejected packet
    from pyvc.builtins_model import be
    conj.append(z3.BoolVal(len(a) == 2))
    if len(a) == 2:
        conj.append(a[1].z == be(z3.IntVal(4), c.old('_recv_seq')))
    conj.append(z3.Not(z3.And(c.old('_strict_kex'), z3.Not(opt_set(c, '_recv_encryption')))))
    return z3.And(conj)


def skip_is_fatal(c):
    """No handler invoked and no exception => only the 'ignored first kex packet' rule"""
    if c.raised is not None:
        return z3.BoolVal(True)
    if len(c.events('process_packet')) == 0:
        r = c.result_v
        returned_false = isinstance(r, VBool) and z3.is_false(z3.simplify(r.z))
        if returned_false:
            # incomplete packet: nothing consumed, nothing dispatched
            return z3.And(c.new('_inpbuf') == c.old('_inpbuf'))
        return z3.And(c.old('_ignore_first_kex'), opt_set(c, '_kex'), z3.Not(c.new('_ignore_first_kex')))
    return z3.BoolVal(True)


def handler_records(c):
    return [x for x in c.new_state.calls if x['key'].endswith('process_packet')]


def strict_unknown_is_fatal(c):
    """strict kex before keys: a message no handler knows must not be answered with UNIMPLEMENTED"""
    strict_pre = z3.And(c.old('_strict_kex'), z3.Not(opt_set(c, '_recv_encryption')))
    recs = [x for x in handler_records(c) if x['exc'] is None]
    if c.raised is None and len(recs) == 1:
        hres = recs[0]['ret']
        falsy = z3.Not(c.truthy(hres))
        notaw = z3.Not(z3.Function('isawaitable_Any', opaque_sort('Any'), BoolS)(hres.z))
        return z3.Implies(z3.And(strict_pre, falsy, notaw), z3.BoolVal(False))
    return z3.BoolVal(True)


def handler_error_is_fatal(c):
    """a handler that rejects the message (truncated / trailing bytes: PacketDecodeError, or ProtocolError) ends the
    activation with an exception - the message is never counted as handled - and nothing is sent in reply"""
    failed = [x for x in handler_records(c) if x['exc'] is not None]
    if not failed:
        return z3.BoolVal(True)
    return z3.BoolVal(c.raised == 'ProtocolError' and not c.calls('send_packet') and
                      not c.calls('_finish_recv_packet'))


def rolled_async(c):
    """sequence rollover before keys, detected while running as a task done-callback"""
    return z3.And(c.old('_recv_seq') == 0xffffffff, z3.Not(opt_set(c, '_recv_encryption')),
                  opt_set(c, '_transport'), c.arg('is_async'))


finish_recv_packet = Spec(
    'C06', 'connection', 'SSHConnection._finish_recv_packet', self_class='SSHConnection',
    params=dict(pkttype='int', seq='int', _task='none', is_async='bool'),
    classes=CONN_CLASSES, stubs={'self._recv_data': noop('recv_data'), 'self._send_disconnect': noop('disconnect'),
                                 'self._force_close': noop('force_close')},
    requires=lambda c: z3.And(c.arg('seq') >= 0, c.arg('seq') < 2 ** 32, c.arg('pkttype') >= 0,
                              c.arg('pkttype') <= 255, c.old('_recv_seq') == c.arg('seq')),
    modifies=['_auth_final', '_recv_seq', '_recv_handler'],
    ensures=[
        ('seq-advance-or-strict-reset', lambda c: z3.Implies(
            z3.And(opt_set(c, '_transport'), z3.Not(rolled_async(c))),
            c.new('_recv_seq') == z3.If(z3.And(c.arg('pkttype') == 21, c.old('_strict_kex')), 0,
                                        (c.arg('seq') + 1) % 2 ** 32))),
        ('seq-kept-when-closed', lambda c: z3.Implies(z3.Not(opt_set(c, '_transport')),
                                                      c.new('_recv_seq') == c.old('_recv_seq'))),
        ('handler-rearmed', lambda c: z3.Implies(z3.Not(rolled_async(c)), c.eq(
            c.newv('_recv_handler'), VTag('method:SSHConnection._recv_pkthdr')))),
        ('auth-final', lambda c: c.new('_auth_final') == z3.Or(c.old('_auth_final'), c.arg('pkttype') > 79)),
        ('async-rollover-closes-the-connection', lambda c: z3.Implies(
            rolled_async(c), z3.BoolVal(len(c.events('force_close')) == 1 and len(c.events('disconnect')) == 1))),
    ],
    # the rollover error is raised to the caller only on the synchronous path; as a task callback the function
    # disconnects and closes itself (nothing would catch the exception there)
    raises={'ProtocolError': lambda c: z3.And(c.old('_recv_seq') == 0xffffffff,
                                              z3.Not(opt_set(c, '_recv_encryption')),
                                              opt_set(c, '_transport'), z3.Not(c.arg('is_async')))},
    always=[('seq-range', lambda c: z3.And(c.new('_recv_seq') >= 0, c.new('_recv_seq') < 2 ** 32))])

recv_packet = Spec(
    'C06', 'connection', 'SSHConnection._recv_packet', self_class='SSHConnection',
    classes=dict(CONN_CLASSES, **PACKET_CLASSES),
    inline=dict(PACKET_INLINE), truthy=PACKET_TRUTHY,
    stubs={
        'self._recv_encryption.decrypt_packet': ret('opt[bytes]', 'decrypted'),
        'self._decompressor.decompress': ret('opt[bytes]', 'decompressed'),
        '*.log_received_packet': noop(),
        '*.process_packet': process_packet_stub,
        'self.create_task': ret('obj:Task', 'task'),
        'task.add_done_callback': noop(),
        'functools.partial': lambda cx: VTag('partial'),
        'self.send_packet': noop('send_packet'),
        'self._finish_recv_packet': contract_stub(lambda: finish_recv_packet),
    },
    requires=recv_packet_requires,
    ensures=[('normal-means-finished', normal_means_finished)],
    always=[('gate-sound', gate_sound),
            ('at-most-one-handler', at_most_one_handler),
            ('unimplemented-only-when-unhandled', unimplemented_only_when_unhandled),
            ('skip-is-fatal', skip_is_fatal),
            ('strict-unknown-is-fatal', strict_unknown_is_fatal),
            ('malformed-message-is-fatal', handler_error_is_fatal)],
    raises={'MACError': True, 'CompressionError': True, 'ProtocolError': True,
            # empty payload (padding only): escapes to _recv_data, which turns it into internal_error()
            'PacketDecodeError': lambda c: z3.BoolVal(len(c.events('process_packet')) == 0)},
    returns='bool')


# handler-side role / phase checks (service request/accept, ext info, kexinit strict-kex rule, newkeys, userauth
# success/failure/banner) live in a separate module written against the same phase table
try:
    from .c06_handlers import *      # noqa: F401,F403
except ImportError:                  # pragma: no cover
    pass
