"""C15 - keys survive every export/import path and interoperate.  Sidecar contracts (FORMAT layer).

Key material lives in PyCA objects; what is verified here is the byte/token layer around it:

* packet.py: every encoder emits the RFC 4251 section 5 encoding and the matching SSHPacket getter, given
  pre ++ enc(v) ++ rest, returns v and leaves rest (byte, boolean, uint16/32/64, string); MPInt: bounded stand-in
* rsa/dsa/ecdsa/eddsa encode_ssh_* / decode_ssh_*: documented field order, decode(encode(params)) == params
* SSHKey.export_private_key: RFC 7468 label / encryption agreement (PKCS#8, PKCS#1 + RFC 1421 headers), OpenSSH
  PROTOCOL.key container layout, padding 1,2,3.. to the cipher block size, KDF options written == KDF options used
* SSHKey.export_public_key: OpenSSH one-line, RFC 4716 (Comment: "<c>" header), PKCS#1 / SubjectPublicKeyInfo labels
* _decode_openssh_private (plain and encrypted), decode_ssh_public_key: acceptance exactly of the grammar
  (nkeys, check words, padding, trailing bytes), wrong passphrase -> KeyEncryptionError, comment returned verbatim
* _parse_rfc4716, _parse_pem, _match_next on the text the exporters write (structured symbolic input): the comment
  loses exactly one pair of quotes, headers/body survive, the first line selects the matching decoder
* import dispatch layer: _decode_public / _decode_private / _decode_certificate (decoder by sniffed format, parsed
  comment attached to the key, one-line algorithm token == algorithm in the blob else KeyImportError, `end` passed on),
  _decode_pem_private (label x Proc-Type x passphrase decision table, DEK-Info split + unhex), _decode_pem_public,
  _decode_der_private/_public, _decode_pkcs1_*, _decode_pkcs8_* (on the PrivateKeyInfo / SPKI tuple the exporter
  writes: version 0|1, handler by OID, parameters-or-OMIT and key octets forwarded, RSA flag), _decode_openssh_public,
  list readers (keys_of spec function: every block once, in order), import_private_key / import_public_key (only the
  documented exceptions escape), _parse_openssh (comment = rest of line, verbatim), certificates export/sniffing
* exporters: the argument of der_encode is the RFC 5208 PrivateKeyInfo / RFC 5280 SPKI / the algorithm's own PKCS#1
  structure; RSA PKCS#1/PKCS#8 and EC SEC1/PKCS#8 structures field by field; str passphrases (UTF-8) on both sides
* packet.MPInt / get_mpint proved relative to spec functions pow2 / bitlen / sbe / sunbe (shortest form included)
* pbe._pbkdf_p12 block update I_j = (I_j + B + 1) mod 2^v (RFC 7292 B.2), as a region contract
* bounded stand-ins on the real source text (extra_checks): wrap_base64/match_base64, MPInt, DER codec round trip,
  text-level export -> _match_next -> import round trip with awkward comments

Engine support used: pyvc/bstruct.py (exact structural evaluation of bytes operations on concatenation terms),
LoopSpec(unroll=N) on while loops (exhaustive: the N+1st iteration must be infeasible), 'prop:Class.attr' inlines.
"""
import z3
from pyvc.contracts import *
from pyvc.engine import LoopSpec, Out, Prove
from pyvc.values import *
from pyvc.builtins_model import be, unbe, iota
from .common import PACKET_CLASSES, PACKET_INLINE, PACKET_TRUTHY

ASSUMPTIONS = [
    'PyCA parameter extraction/construction, bcrypt KDF, PBES1/PBES2 (pbe.py), the SSH ciphers and the base64 codec '
    'are assumed contracts (stubs returning arbitrary bytes); der_encode of the key structure is an assumed '
    'contract inside export_*_key (the DER codec itself is covered by a bounded round-trip stand-in only)',
    'cipher block sizes are {1, 8, 16} (read from the registered cipher table, checked as data)',
    'bytes(range(lo, hi)) is the spec function iota(lo, hi) (elementwise definition instantiated at each use)',
    'text parsers (_parse_rfc4716, _parse_pem, _match_next) are verified on input FAMILIES: the exact text the '
    'exporters write, with comment / names / base64 body symbolic; stated format limits: an RFC 4716 comment has no '
    'newline, base64 lines contain no blank, colon or backslash (RFC 4648 alphabet), a PEM DEK-Info cipher name / '
    'hex IV contain no blank or colon.  Arbitrary (hostile) text is not covered by these contracts',
    'the OpenSSH private container reader is verified on the PROTOCOL.key grammar with every field symbolic (truncated '
    'containers only reach PacketDecodeError -> KeyImportError, which is not separately stated)',
    'per-algorithm handlers (decode_ssh_private/public as called from the container reader) consume exactly the '
    'blob their encoder wrote or raise PacketDecodeError; proved for rsa/dsa/ecdsa/eddsa below at token level, '
    'assumed for sk-* keys',
    'wrap_base64 / match_base64 stay a bounded stand-in on the real source text (NOT counted as proof): match_base64 '
    'is a regular-expression search and the payload is binascii base64 - library code outside the engine; MPInt / '
    'get_mpint ARE proved (monotonicity of 2**k is supplied as lemma instances: a mathematical fact about pow2); the '
    'bounded MPInt run remains as a cross-check of the spec functions against CPython',
    'export_private_key: 0 <= rounds < 2**32 is a stated precondition (the bcrypt KDF options store rounds as uint32; '
    'other values raise OverflowError from UInt32)',
    '_match_next returns an offset 0 <= end <= len(data) and list readers get 1 <= end (callee contract assumed from '
    'der_decode_partial / match_base64, whose results are stubs in the _match_next families)',
    'registered handlers have ASCII pem_name constants; Ed25519/Ed448 public values are non-empty (32 / 57 bytes)',
]


class VSpec(Spec):
    """one of several contracts for the same function (different input families): distinct obligation names"""
    def __init__(self, variant, *a, **k):
        self.variant = variant
        super().__init__(*a, **k)

    @property
    def name(self):
        return f'{self.prop}.{self.module}.{self.qualname}[{self.variant}]'


NOTES = [
    'observation outside the claim (coordinator decision): export_public_key / export_certificate (rfc4716) write '
    'the Comment header on one line whatever its length, RFC 4716 3.3 limits header lines to 72 bytes (continuation '
    'with a backslash). OpenSSH / asyncssh read such files identically, so the interoperability claim holds; '
    'repro: notes/findings/c15_rfc4716_comment_line_over_72.py',
    'observation, fixed in /repo (bf20790): RSAKey.decode_ssh_private divided by zero for p or q == 1 '
    '(notes/findings/c15_obs_rsa_p1_zerodivision.py); the contract states PacketDecodeError iff p < 2 or q < 2',
    'observation (seeder, not under contract): an EC private key PEM without the optional [1] publicKey field imports '
    'with an empty public point - crypto/ec.py ECDSAPrivateKey.construct stores b\'\' instead of deriving the point '
    '(ecdsa.decode_pkcs1_private / decode_pkcs8_private pass public_key = b\'\')',
    '_pbkdf1 is stated for keys of at most two digests (all registered PKCS#1 ciphers); beyond that the recursion '
    'prepends every earlier digest (D3 = H(D2 || D1 || pass || salt)), which is not EVP_BytesToKey - unreachable today',
    'helper-level behaviour, not a property clause: _decode_openssh_private / _decode_pkcs1_* decode file supplied names '
    'as ASCII in error messages (UnicodeDecodeError, a ValueError); import_private_key / import_public_key (under '
    'contract) map every ValueError to KeyImportError',
]


def B(b):
    return bytes_const(b)


def sstr(x):
    """RFC 4251 string: uint32 length ++ bytes (term shape identical to the engine's String model)"""
    return z3.Concat(be(z3.IntVal(4), z3.Length(x)), x)


# ====================================================================== packet.py: RFC 4251 section 5 codecs
# Encoders: the emitted bytes are the RFC 4251 encoding (spec function be(width, v): big-endian, fixed width).
def _enc_spec(name, width):
    return Spec(
        'C15', 'packet', name, params={'value': 'int'},
        ensures=[('rfc4251-fixed-width-big-endian',
                  lambda c: z3.And(c.result == be(z3.IntVal(width), c.arg('value')), z3.Length(c.result) == width))],
        raises={'OverflowError': lambda c: z3.Or(c.arg('value') < 0, c.arg('value') >= 256 ** width)},
        always=[('in-range-never-raises',
                 lambda c: z3.Implies(z3.And(c.arg('value') >= 0, c.arg('value') < 256 ** width),
                                      z3.BoolVal(c.raised is None)))],
        returns='bytes')


enc_uint32 = _enc_spec('UInt32', 4)
enc_uint64 = _enc_spec('UInt64', 8)
enc_uint16 = _enc_spec('UInt16', 2)

enc_byte = Spec(
    'C15', 'packet', 'Byte', params={'value': 'int'},
    ensures=[('one-octet', lambda c: c.result == z3.Unit(c.arg('value')))],
    raises={'ValueError': lambda c: z3.Or(c.arg('value') < 0, c.arg('value') > 255)},
    always=[('in-range-never-raises', lambda c: z3.Implies(z3.And(c.arg('value') >= 0, c.arg('value') <= 255),
                                                            z3.BoolVal(c.raised is None)))],
    returns='bytes')

enc_boolean = Spec(
    'C15', 'packet', 'Boolean', params={'value': 'bool'}, inline={'Byte': ('packet', 'Byte')},
    ensures=[('rfc4251-boolean-0-or-1', lambda c: c.result == z3.Unit(z3.If(c.arg('value'), z3.IntVal(1), z3.IntVal(0))))],
    raises={}, returns='bytes')

enc_string = Spec(
    'C15', 'packet', 'String', params={'value': 'bytes'},
    ensures=[('rfc4251-string-length-prefix', lambda c: c.result == sstr(c.arg('value')))],
    raises={}, returns='bytes')

# Decoders: on  pre ++ enc(v) ++ rest  with the read position after `pre`, the getter returns v and leaves `rest`.
PKT = dict(PACKET_CLASSES['SSHPacket'], ghost_pre='bytes', ghost_rest='bytes', ghost_v='int', ghost_s='bytes')


def _pkt_layout(c, enc):
    return z3.And(c.old('_packet') == z3.Concat(c.old('ghost_pre'), enc, c.old('ghost_rest')),
                  c.old('_idx') == z3.Length(c.old('ghost_pre')), c.old('_len') == z3.Length(c.old('_packet')))


def _leaves_rest(c, consumed):
    return z3.And(c.new('_idx') == c.old('_idx') + consumed, c.new('_packet') == c.old('_packet'),
                  c.new('_len') == c.old('_len'),
                  z3.Extract(c.new('_packet'), c.new('_idx'), c.new('_len') - c.new('_idx')) == c.old('ghost_rest'))


def _be_def(width, v):
    """definitional instances of the big-endian spec functions for this value"""
    t = be(z3.IntVal(width), v)
    return z3.And(v >= 0, v < 256 ** width, z3.Length(t) == width, unbe(t) == v)


def _dec_uint(name, width):
    return Spec(
        'C15', 'packet', 'SSHPacket.' + name, self_class='SSHPacket', classes={'SSHPacket': PKT},
        inline=dict(PACKET_INLINE),
        requires=lambda c: z3.And(_be_def(width, c.old('ghost_v')),
                                  _pkt_layout(c, be(z3.IntVal(width), c.old('ghost_v')))),
        ensures=[('decodes-what-the-encoder-wrote', lambda c: c.result == c.old('ghost_v')),
                 ('leaves-the-rest', lambda c: _leaves_rest(c, width))],
        raises={}, returns='int')


dec_uint32 = _dec_uint('get_uint32', 4)
dec_uint64 = _dec_uint('get_uint64', 8)
dec_uint16 = _dec_uint('get_uint16', 2)

dec_byte = Spec(
    'C15', 'packet', 'SSHPacket.get_byte', self_class='SSHPacket', classes={'SSHPacket': PKT},
    inline=dict(PACKET_INLINE),
    requires=lambda c: z3.And(c.old('ghost_v') >= 0, c.old('ghost_v') <= 255, _pkt_layout(c, z3.Unit(c.old('ghost_v')))),
    ensures=[('decodes-what-the-encoder-wrote', lambda c: c.result == c.old('ghost_v')),
             ('leaves-the-rest', lambda c: _leaves_rest(c, 1))],
    raises={}, returns='int')

dec_boolean = Spec(
    'C15', 'packet', 'SSHPacket.get_boolean', self_class='SSHPacket', classes={'SSHPacket': PKT},
    inline=dict(PACKET_INLINE),
    requires=lambda c: z3.And(c.old('ghost_v') >= 0, c.old('ghost_v') <= 255, _pkt_layout(c, z3.Unit(c.old('ghost_v')))),
    # RFC 4251: 0 is FALSE, every non-zero octet is TRUE (so Boolean(b) round-trips)
    ensures=[('nonzero-is-true', lambda c: c.result == (c.old('ghost_v') != 0)),
             ('leaves-the-rest', lambda c: _leaves_rest(c, 1))],
    raises={}, returns='bool')

dec_string = Spec(
    'C15', 'packet', 'SSHPacket.get_string', self_class='SSHPacket', classes={'SSHPacket': PKT},
    inline=dict(PACKET_INLINE),
    requires=lambda c: z3.And(_be_def(4, z3.Length(c.old('ghost_s'))), _pkt_layout(c, sstr(c.old('ghost_s')))),
    ensures=[('decodes-what-the-encoder-wrote', lambda c: c.result == c.old('ghost_s')),
             ('leaves-the-rest', lambda c: _leaves_rest(c, 4 + z3.Length(c.old('ghost_s'))))],
    raises={}, returns='bytes')

# a truncated field is rejected and nothing is consumed
dec_string_short = Spec(
    'C15', 'packet', 'SSHPacket.get_bytes', self_class='SSHPacket', classes={'SSHPacket': PKT},
    params={'size': 'int'},
    requires=lambda c: z3.And(c.old('_idx') >= 0, c.old('_idx') <= c.old('_len'),
                              c.old('_len') == z3.Length(c.old('_packet')), c.arg('size') >= 0),
    ensures=[('exact-slice', lambda c: z3.And(
        c.result == z3.Extract(c.old('_packet'), c.old('_idx'), c.arg('size')),
        z3.Length(c.result) == c.arg('size'), c.new('_idx') == c.old('_idx') + c.arg('size')))],
    raises={'PacketDecodeError': lambda c: z3.And(c.old('_idx') + c.arg('size') > c.old('_len'),
                                                  c.new('_idx') == c.old('_idx'))},
    always=[('complete-field-never-rejected', lambda c: z3.Implies(
        c.old('_idx') + c.arg('size') <= c.old('_len'), z3.BoolVal(c.raised is None)))],
    returns='bytes')


# ====================================================================== SSHKey.export_private_key
MAGIC = b'openssh-key-v1\0'
bcrypt_ok = z3.Function('bcrypt_kdf_available', IntS, BoolS)      # environment fact (import bcrypt succeeded)
EXPORT_GLOBALS = {
    'OMIT': VTag('class:OMIT'),                        # module-level sentinel object (resolved by name natively)
    '_bcrypt_available': VBool(bcrypt_ok(z3.IntVal(0))),
    'bcrypt': VTag('module:bcrypt'),
}
KEY_FIELDS = {'_comment': 'opt[bytes]', 'pem_name': 'bytes', 'pkcs8_oid': 'any', 'algorithm': 'bytes'}


def encode_pkcs8_stub(cx):
    """(alg_params | OMIT, key bytes): both shapes occur (RSA has NULL parameters, Ed25519 omits them)"""
    return [Out(ret=VTuple([VTag('class:OMIT'), cx.fresh('bytes', 'pkcs8_data')])),
            Out(ret=VTuple([VNone, cx.fresh('bytes', 'pkcs8_data')])),      # parameters NULL (rsaEncryption, RFC 3279 2.3.1)
            Out(ret=VTuple([cx.fresh('any', 'alg_params'), cx.fresh('bytes', 'pkcs8_data')]))]


encode_pkcs8_stub.modifies = ()
CIPHER_BLOCK_SIZES = (1, 8, 16)


def enc_params_stub(cx):
    """(key_size, iv_size, block_size, mac_keysize, mac_hashsize, etm); KeyError for an unknown cipher name.
    block_size ranges over the registered cipher table (checked as data in extra_checks)."""
    outs = []
    for b in CIPHER_BLOCK_SIZES:
        ks, ivs = cx.fresh('int', 'key_size'), cx.fresh('int', 'iv_size')
        outs.append(Out(ret=VTuple([ks, ivs, VInt(b), cx.fresh('int', 'mk'), cx.fresh('int', 'mh'),
                                    cx.fresh('bool', 'etm')]),
                        assume=[ks.z >= 1, ivs.z >= 0]))
    outs.append(Out(exc=VExc('KeyError')))
    return outs


enc_params_stub.modifies = ()


def _P(c):
    return z3.Not(c.argv('passphrase').isnone)


utf8_of = z3.Function('encode_utf8', StrS, BytesS)     # the engine's model of str.encode('utf-8')


def _pp_raw(c):
    """the passphrase exactly as given (bytes or str)"""
    return c.argv('passphrase').val.z


def _pp_bytes(c):
    """the byte string a KDF must be fed: the passphrase itself, or its UTF-8 encoding when a str was given
    (documented: `passphrase` is bytes or str; the same encoding on export and import)"""
    v = c.argv('passphrase').val
    return utf8_of(v.z) if isinstance(v, VStr) else v.z


def _fmt(c, *names):
    return z3.Or([c.arg('format_name') == z3.StringVal(n) for n in names])


def _one(calls):
    return z3.BoolVal(len(calls) == 1)


def _none(calls):
    return z3.BoolVal(len(calls) == 0)


def _alg_identifier_ok(c, got, codec_ret):
    """AlgorithmIdentifier ::= SEQUENCE { algorithm OID, parameters ANY OPTIONAL } (RFC 5280 4.1.1.2): the key
    type's OID followed by the parameters the per-algorithm codec returned - omitted only when it returned OMIT"""
    params = codec_ret.items[0]
    want = [c.oldv('pkcs8_oid')] + ([] if isinstance(params, VTag) and params.tag == 'class:OMIT' else [params])
    if not isinstance(got, VTuple) or len(got.items) != len(want):
        return z3.BoolVal(False)
    return z3.And([c.eq(a, b) for a, b in zip(got.items, want)])


def _private_key_info_ok(c, arg):
    """RFC 5208 section 5 / RFC 5958: PrivateKeyInfo ::= SEQUENCE { version 0, AlgorithmIdentifier, OCTET STRING }"""
    p8 = c.calls('encode_pkcs8_private')
    if len(p8) != 1 or not isinstance(arg, VTuple) or len(arg.items) != 3:
        return z3.BoolVal(False)
    ver = arg.items[0]
    return z3.And(z3.BoolVal(isinstance(ver, VInt)) if not isinstance(ver, VInt) else ver.z == 0,
                  _alg_identifier_ok(c, arg.items[1], p8[0]['ret']), c.eq(arg.items[2], p8[0]['ret'].items[1]))


def pkcs8_post(c):
    """RFC 7468 sections 10/11 (RFC 5958, RFC 5208): an unencrypted PrivateKeyInfo is labelled PRIVATE KEY, an
    EncryptedPrivateKeyInfo is labelled ENCRYPTED PRIVATE KEY; the key is encrypted iff a passphrase was given
    (any passphrase, including the empty one)."""
    encs, wraps, ders = c.calls('pkcs8_encrypt'), c.calls('wrap_base64'), c.calls('der_encode')
    P = _P(c)
    if len(ders) != 1:
        return z3.Not(_fmt(c, 'pkcs8-der', 'pkcs8-pem'))
    der = ders[0]['ret'].z
    conj = [z3.Implies(P, _one(encs)), z3.Implies(z3.Not(P), _none(encs)),
            _private_key_info_ok(c, ders[0]['args'][0])]
    payload = der
    if encs:
        a = encs[0]['args']
        payload = encs[0]['ret'].z
        conj += [a[0].z == der, a[4].z == _pp_raw(c), a[1].z == c.arg('cipher_name'),
                 a[2].z == c.arg('hash_name'), a[3].z == c.arg('pbe_version')]
    pem = [_one(wraps)]
    if wraps:
        w = wraps[0]
        pem += [w['args'][0].z == payload, c.result == w['ret'].z,
                z3.Implies(P, w['args'][1].z == B(b'ENCRYPTED PRIVATE KEY')),
                z3.Implies(z3.Not(P), w['args'][1].z == B(b'PRIVATE KEY')),
                z3.BoolVal(len(w['args']) == 2), w['kwargs']['wrap'].z == 64 if 'wrap' in w['kwargs'] else False]
    conj.append(z3.Implies(_fmt(c, 'pkcs8-pem'), z3.And(pem)))
    conj.append(z3.Implies(_fmt(c, 'pkcs8-der'), z3.And(_none(wraps), c.result == payload)))
    return z3.Implies(_fmt(c, 'pkcs8-der', 'pkcs8-pem'), z3.And(conj))


def pkcs1_post(c):
    """RFC 1421 / OpenSSL traditional format: '<ALG> PRIVATE KEY'; encrypted iff passphrase given, and then (only
    then) the Proc-Type / DEK-Info headers announce it with the cipher name and IV actually used"""
    encs, wraps, ders, hexs = c.calls('pkcs1_encrypt'), c.calls('wrap_base64'), c.calls('der_encode'), \
        c.calls('binascii.b2a_hex')
    P = _P(c)
    if len(ders) != 1:
        return z3.Not(_fmt(c, 'pkcs1-der', 'pkcs1-pem'))
    der = ders[0]['ret'].z
    p1 = c.calls('encode_pkcs1_private')
    conj = [z3.Implies(P, _one(encs)), z3.Implies(z3.Not(P), _none(encs)),
            # what is DER-encoded is the algorithm's own PKCS#1 / SEC1 structure (RFC 8017 A.1.2, RFC 5915)
            c.eq(ders[0]['args'][0], p1[0]['ret']) if len(p1) == 1 else z3.BoolVal(False)]
    payload, headers = der, z3.Empty(BytesS)
    if encs and len(hexs) == 1:
        a, r = encs[0]['args'], encs[0]['ret']
        alg, iv, payload = r.items[0].z, r.items[1].z, r.items[2].z
        conj += [a[0].z == der, a[1].z == c.arg('cipher_name'), a[2].z == _pp_raw(c),
                 hexs[0]['args'][0].z == iv]
        upper = z3.Function('upper_b', BytesS, BytesS)
        headers = z3.Concat(B(b'Proc-Type: 4,ENCRYPTED\nDEK-Info: '), alg, B(b','), upper(hexs[0]['ret'].z), B(b'\n\n'))
    elif encs:
        conj.append(z3.BoolVal(False))
    pem = [_one(wraps)]
    if wraps:
        w = wraps[0]
        pem += [w['args'][0].z == payload, c.result == w['ret'].z, z3.BoolVal(len(w['args']) == 3),
                w['args'][1].z == z3.Concat(c.old('pem_name'), B(b' PRIVATE KEY'))]
        if len(w['args']) == 3:
            pem.append(w['args'][2].z == headers)
        pem.append(w['kwargs']['wrap'].z == 64 if 'wrap' in w['kwargs'] else False)
    conj.append(z3.Implies(_fmt(c, 'pkcs1-pem'), z3.And(pem)))
    conj.append(z3.Implies(_fmt(c, 'pkcs1-der'), z3.And(_none(wraps), z3.Not(P), c.result == der)))
    return z3.Implies(_fmt(c, 'pkcs1-der', 'pkcs1-pem'), z3.And(conj))


def _comment_term(c):
    cv = c.oldv('_comment')
    return cv, z3.Or(cv.isnone, z3.Length(cv.val.z) == 0)


def openssh_post(c, want_cases=False):
    """PROTOCOL.key: AUTH_MAGIC, string ciphername, string kdfname, string kdfoptions, uint32 1, string publickey,
    string (encrypted) private section, [tag];  private section = checkint, checkint, privatekey, string comment,
    padding 1,2,3,.. up to a multiple of the cipher block size (8 when unencrypted)."""
    fmt_open = _fmt(c, 'openssh')
    wraps, rnd = c.calls('wrap_base64'), c.calls('os.urandom')
    privs, pubs = c.calls('encode_ssh_private'), c.calls('encode_ssh_public')
    encs, kdfs, params, gets = c.calls('cipher.encrypt_packet'), c.calls('bcrypt.kdf'), \
        c.calls('get_encryption_params'), c.calls('get_encryption')
    if len(wraps) != 1 or not rnd or len(privs) != 1 or len(pubs) != 1:
        return z3.Not(fmt_open)
    P = _P(c)
    w = wraps[0]
    container = w['args'][0].z
    alg_name = c.old('algorithm')
    priv = z3.Concat(sstr(alg_name), privs[0]['ret'].z)
    pub = z3.Concat(sstr(alg_name), pubs[0]['ret'].z)
    check = rnd[0]['ret'].z
    cv, no_comment = _comment_term(c)
    conj = [w['args'][1].z == B(b'OPENSSH PRIVATE KEY'), z3.BoolVal(len(w['args']) == 2 and not w['kwargs']),
            c.result == w['ret'].z, z3.Length(check) == 4]
    if encs:
        if len(kdfs) != 1 or len(params) != 1 or len(gets) != 1 or len(rnd) != 2:
            return z3.Not(fmt_open)
        sect = encs[0]['args'][2].z
        block = max(concrete_int(params[0]['ret'].items[2]), 8)
        salt = rnd[1]['ret'].z
        ks, ivs = params[0]['ret'].items[0].z, params[0]['ret'].items[1].z
        algb = params[0]['args'][0].z
        key = kdfs[0]['ret'].z
        ka, ga = kdfs[0]['args'], gets[0]['args']
        conj += [P, z3.Length(salt) == 16, encs[0]['args'][0].z == 0, encs[0]['args'][1].z == z3.Empty(BytesS),
                 # the KDF parameters written to the file are the ones used to derive the key
                 ka[0].z == _pp_bytes(c), ka[1].z == salt, ka[2].z == ks + ivs,
                 ka[3].z == c.arg('rounds'),
                 ga[0].z == algb, ga[1].z == z3.Extract(key, 0, ks), z3.Concat(ga[1].z, ga[2].z) == key,
                 container == z3.Concat(B(MAGIC), sstr(algb), sstr(B(b'bcrypt')),
                                        sstr(z3.Concat(sstr(salt), be(z3.IntVal(4), c.arg('rounds')))),
                                        be(z3.IntVal(4), z3.IntVal(1)), sstr(pub),
                                        sstr(encs[0]['ret'].items[0].z), encs[0]['ret'].items[1].z)]
    else:
        block = 8
        # witness for the private section: everything between the public key and the end of the container
        head = z3.Concat(B(MAGIC), sstr(B(b'none')), sstr(B(b'none')), sstr(z3.Empty(BytesS)),
                         be(z3.IntVal(4), z3.IntVal(1)), sstr(pub))
        conj += [z3.Not(P)]
        # container == head ++ string(sect) for the sect that satisfies the layout below (existential witness:
        # the bytes after the 4-byte length that follows `head`)
        sect = z3.Extract(container, z3.Length(head) + 4, z3.Length(container) - z3.Length(head) - 4)
        conj += [container == z3.Concat(head, sstr(sect))]
    for cond, plain, npad in _pad_cases(c, sect, check, priv):
        conj.append(z3.Implies(cond, z3.And(sect == z3.Concat(plain, iota(z3.IntVal(1), npad + 1)),
                                            npad >= 0, npad < block, z3.Length(sect) % block == 0)))
    if want_cases:
        return _pad_cases(c, sect, check, priv)
    return z3.Implies(fmt_open, z3.And(conj))


def _pad_cases(c, sect, check, priv):
    cv, no_comment = _comment_term(c)
    out = []
    for cm, cond in ((z3.Empty(BytesS), no_comment), (cv.val.z, z3.Not(no_comment))):
        plain = z3.Concat(check, check, priv, sstr(cm))
        out.append((cond, plain, z3.Length(sect) - z3.Length(plain)))
    return out


def export_lemmas(c):
    """definitional instances of iota (= bytes(range(lo, hi))): length, for the padding terms the contract names"""
    if c.raised is not None:
        return []
    cases = openssh_post(c, want_cases=True)
    if not isinstance(cases, list):
        return []
    return [z3.Length(iota(z3.IntVal(1), npad + 1)) == z3.If(npad + 1 > 1, npad, 0) for _c, _p, npad in cases]


def export_raises_export_error(c):
    P = _P(c)
    known = _fmt(c, 'pkcs1-der', 'pkcs1-pem', 'pkcs8-der', 'pkcs8-pem', 'openssh')
    return z3.Or(z3.And(_fmt(c, 'pkcs1-der'), P), z3.Not(known),
                 z3.And(_fmt(c, 'openssh'), P, z3.Not(bcrypt_ok(z3.IntVal(0)))))


def _export_private_spec(variant, pp_type): return (VSpec if variant else lambda v, *a, **k: Spec(*a, **k))(
    variant, 'C15', 'public_key', 'SSHKey.export_private_key', self_class='SSHKey',
    params=dict(format_name='str', passphrase=pp_type, cipher_name='str', hash_name='str', pbe_version='int',
                rounds='int', ignore_few_rounds='bool'),
    classes={'SSHKey': KEY_FIELDS, 'Cipher': {}},
    globals=EXPORT_GLOBALS,
    inline={'prop:SSHKey.private_data': ('public_key', 'SSHKey.private_data'),
            'prop:SSHKey.public_data': ('public_key', 'SSHKey.public_data')},
    stubs={
        'self.encode_pkcs1_private': ret('any', 'pkcs1_params'),
        'self.encode_pkcs8_private': encode_pkcs8_stub,
        'self.encode_ssh_private': ret('bytes', 'ssh_private'),
        'self.encode_ssh_public': ret('bytes', 'ssh_public'),
        'der_encode': ret('bytes', 'der'),
        'pkcs1_encrypt': may_raise(ret('tuple[bytes,bytes,bytes]', 'pkcs1_enc'), 'KeyEncryptionError'),
        'pkcs8_encrypt': may_raise(ret('bytes', 'pkcs8_enc'), 'KeyEncryptionError'),
        'binascii.b2a_hex': ret('bytes', 'hex'),
        'wrap_base64': ret('bytes', 'armoured'),
        'get_encryption_params': enc_params_stub,
        'bcrypt.kdf': may_raise(ret('bytes', 'kdf_key'), 'ValueError'),
        'get_encryption': ret('obj:Cipher', 'cipher'),
        'cipher.encrypt_packet': ret('tuple[bytes,bytes]', 'sealed'),
    },
    requires=lambda c: z3.And(c.arg('rounds') >= 0, c.arg('rounds') < 2 ** 32),
    ensures=[('pkcs8-label-and-encryption-agree', pkcs8_post),
             ('pkcs1-label-headers-and-encryption-agree', pkcs1_post),
             ('openssh-container-layout-and-padding', openssh_post),
             ('known-format', lambda c: _fmt(c, 'pkcs1-der', 'pkcs1-pem', 'pkcs8-der', 'pkcs8-pem', 'openssh'))],
    raises={'KeyExportError': export_raises_export_error,
            'KeyEncryptionError': lambda c: _P(c),
            'ValueError': lambda c: z3.BoolVal(len(c.calls('bcrypt.kdf')) == 1)},
    lemmas=export_lemmas, returns='bytes')


export_private_key = _export_private_spec(None, 'opt[bytes]')
export_private_key_str = _export_private_spec('str-passphrase', 'opt[str]')


# ====================================================================== _decode_openssh_private (PROTOCOL.key reader)
# The reader is run on the PROTOCOL.key grammar with every field symbolic (ghost components); the export layout
# proved above is an instance (nkeys = 1, equal check words, padding 1..n), so acceptance of it is the round trip.
def _def_be(st, w, v):
    from pyvc.builtins_model import add_def
    t = be(z3.IntVal(w), v)
    st.assume(z3.And(v >= 0, v < 256 ** w, z3.Length(t) == w, unbe(t) == v))
    # digit expansion: used only when a concrete model is needed for the native replay
    add_def(st, t == z3.Concat(*[z3.Unit((v / (256 ** (w - 1 - i))) % 256) for i in range(w)]))
    return t


def _gstr(st, x, n=None):
    """string field: uint32 length ++ bytes, with the definitional instances of be/unbe for the length"""
    from pyvc import bstruct
    n = bstruct.norm_len(z3.Length(x)) if n is None else n
    return z3.Concat(_def_be(st, 4, n), x)


def _fresh_b(name):
    return z3.Const(fresh_name(name), BytesS)


def openssh_private_setup(encrypted):
    def setup(ex, st):
        g = {}
        for n in ('kdf', 'kdf_data', 'pubkey', 'alg', 'blob', 'comment', 'pad', 'mac', 'cipher'):
            g[n] = _fresh_b('g_' + n)
        for n in ('nkeys', 'check1', 'check2'):
            g[n] = z3.Int(fresh_name('g_' + n))
        sect = z3.Concat(_def_be(st, 4, g['check1']), _def_be(st, 4, g['check2']), _gstr(st, g['alg']), g['blob'],
                         _gstr(st, g['comment']), g['pad'])
        g['sect'] = sect
        if encrypted:
            g['stored'] = _fresh_b('g_ciphertext')
            cipher = g['cipher']
            st.assume(cipher != B(b'none'))
        else:
            g['stored'] = sect
            cipher = g['cipher'] = B(b'none')
        data = z3.Concat(B(MAGIC), _gstr(st, cipher), _gstr(st, g['kdf']), _gstr(st, g['kdf_data']),
                         _def_be(st, 4, g['nkeys']), _gstr(st, g['pubkey']), _gstr(st, g['stored']), g['mac'])
        g['data'] = data
        st.env['data'] = VBytes(data)
        st.inputs['data'] = st.env['data']
        st.heap['__c15__'] = g
        # the handler stub moves the read position of a packet object created inside the function: the native
        # harness cannot script that, so these paths are not straight-line replayable
        st.heap['__cut__'] = True
    return setup


def G(c, name):
    return c.old_state.heap['__c15__'][name]


def decode_ssh_private_stub(cx):
    """assumed contract of the per-algorithm codec (DESIGN C15 (b)): decode_ssh_private(packet) consumes exactly the
    bytes encode_ssh_private wrote (ghost `blob`) and returns the parameter tuple, or rejects with PacketDecodeError"""
    pkt = cx.args[0]
    g = cx.st.heap['__c15__']
    idx = cx.ex.get_field(cx.st, pkt, '_idx')
    from pyvc import bstruct
    new_idx = VInt(bstruct.norm_len(idx.z + z3.Length(g['blob'])))
    return [Out(ret=VTuple([cx.fresh('any', 'key_param0'), cx.fresh('any', 'key_param1')]),
                osets=[(pkt, '_idx', new_idx)]),
            Out(exc=VExc('PacketDecodeError'))]


decode_ssh_private_stub.modifies = ()


def _pad_ok(c):
    pad = G(c, 'pad')
    return z3.And(z3.Length(pad) < 256, pad == iota(z3.IntVal(1), z3.Length(pad) + 1))


def _imp_calls(c):
    return (c.calls('_public_key_alg_map.get'), c.calls('handler.decode_ssh_private'),
            c.calls('handler.make_private'), c.calls('key.set_comment'))


def _make_args_ok(c, got, decoded):
    """the constructor gets exactly the decoded parameter tuple, in order; for ssh-rsa (only) it is followed by the
    caller's unsafe_skip_rsa_key_validation flag (documented parameter of import_private_key)"""
    if not isinstance(got, VTuple) or len(got.items) not in (len(decoded.items), len(decoded.items) + 1):
        return z3.BoolVal(False)
    same = [c.eq(a, b) for a, b in zip(got.items, decoded.items)]
    is_rsa = G(c, 'alg') == B(b'ssh-rsa')
    if len(got.items) == len(decoded.items):
        return z3.And(z3.Not(is_rsa), *same)
    return z3.And(is_rsa, c.eq(got.items[-1], c.argv('unsafe_skip_rsa_key_validation')), *same)


def import_accepts_only_wellformed(c):
    """a key object comes out only of a container with exactly one key, equal check words and 1,2,3.. padding; it is
    built by the handler registered for the algorithm name inside, from the parameters that handler decoded, and
    carries exactly the stored comment"""
    gets, decs, makes, sets = _imp_calls(c)
    if not (len(gets) == len(decs) == len(makes) == len(sets) == 1):
        return z3.BoolVal(False)
    return z3.And(G(c, 'nkeys') == 1, G(c, 'check1') == G(c, 'check2'), _pad_ok(c),
                  gets[0]['args'][0].z == G(c, 'alg'),
                  _make_args_ok(c, makes[0]['args'][0], decs[0]['ret']),
                  sets[0]['args'][0].z == G(c, 'comment'),
                  c.eq(c.result_v, makes[0]['ret']))


def import_rejects_only_malformed(c):
    """KeyImportError has a reason in the file: wrong key count, check words differ, bad padding, unknown algorithm,
    or the algorithm's codec rejected the key blob"""
    gets, decs, makes, sets = _imp_calls(c)
    unknown_alg = z3.BoolVal(len(gets) == 1 and len(decs) == 0) if gets else z3.BoolVal(False)
    if len(gets) == 1 and len(decs) == 0:
        unknown_alg = gets[0]['ret'].isnone
    codec_rejected = z3.BoolVal(len(decs) == 1 and decs[0]['exc'] is not None)
    handler_refused = z3.BoolVal(len(makes) == 1 and makes[0]['exc'] is not None)
    return z3.Or(G(c, 'nkeys') != 1, G(c, 'check1') != G(c, 'check2'), z3.Not(_pad_ok(c)), unknown_alg,
                 codec_rejected, handler_refused)


IMPORT_STUBS = {
    '_public_key_alg_map.get': ret('opt[obj:Handler]', 'handler'),
    'handler.decode_ssh_private': decode_ssh_private_stub,
    # PyCA / the handler may refuse the parameters (KeyImportError from the handler, ValueError from PyCA)
    'handler.make_private': may_raise(ret('obj:Key', 'key'), 'KeyImportError', 'ValueError'),
    'key.set_comment': noop('set_comment'),
}

decode_openssh_private_plain = VSpec(
    'unencrypted', 'C15', 'public_key', '_decode_openssh_private',
    params=dict(data='bytes', passphrase='opt[bytes]', unsafe_skip_rsa_key_validation='opt[bool]'),
    classes=dict(PACKET_CLASSES, Handler={}, Key={}), inline=dict(PACKET_INLINE), truthy=PACKET_TRUTHY,
    stubs=dict(IMPORT_STUBS), setup=openssh_private_setup(False),
    ensures=[('accepts-only-wellformed-container', import_accepts_only_wellformed)],
    raises={'KeyImportError': import_rejects_only_malformed,
            'ValueError': lambda c: z3.BoolVal(any(m['exc'] is not None for m in c.calls('handler.make_private')))},
    returns='obj:Key')


# ====================================================================== RFC 4716 / PEM header parsers
# The parsers are run on the text the exporters write, with the variable parts symbolic (structured input).
B64_EXCLUDED = (9, 10, 11, 12, 13, 32, ord(':'), ord('\\'))     # none of these is in the base64 alphabet


def _b64_line(st, name):
    """a non-empty line of base64 text: no whitespace, no ':' and no backslash (RFC 4648 alphabet)"""
    from pyvc import bstruct
    l = _fresh_b(name)
    bstruct.declare_excluded(st, l, B64_EXCLUDED, nonempty=True)
    return l


def _no_byte(st, x, *bs, nonempty=False):
    from pyvc import bstruct
    bstruct.declare_excluded(st, x, bs, nonempty=nonempty)


def rfc4716_setup(kind):
    def setup(ex, st):
        g = {'l1': _b64_line(st, 'g_line1'), 'rest': _fresh_b('g_rest')}
        body = z3.Concat(g['l1'], B(b'\n'), g['rest'])
        if kind == 'quoted':
            # what export_public_key('rfc4716') writes: Comment: "<comment>"\n ; a header value is one line
            g['comment'] = cm = _fresh_b('g_comment')
            _no_byte(st, cm, 10)
            data = z3.Concat(B(b'Comment: "'), cm, B(b'"\n'), body)
        elif kind == 'continued':
            # RFC 4716 3.3: a header line ending in a backslash continues on the next line
            a, b_ = _fresh_b('g_comment_a'), _fresh_b('g_comment_b')
            _no_byte(st, a, 10)
            _no_byte(st, b_, 10)
            g['comment'] = z3.Concat(a, b_)
            data = z3.Concat(B(b'Comment: "'), a, B(b'\\\n'), b_, B(b'"\n'), body)
        elif kind == 'unquoted':
            # RFC 4716 3.3.2: the quotes are optional; without them the value is the comment (one token here:
            # no surrounding blanks, not itself wrapped in quotes)
            g['comment'] = cm = _fresh_b('g_comment')
            _no_byte(st, cm, *B64_EXCLUDED[:6], ord('"'), ord('\\'), nonempty=True)
            data = z3.Concat(B(b'Comment: '), cm, B(b'\n'), body)
        elif kind == 'two-headers':
            # what other RFC 4716 writers (ssh-keygen -e, Tectia) emit: a Subject header before the Comment header
            # (RFC 4716 3.3.1/3.3.2); each header tag is looked at on its own
            s1, z0 = _fresh_b('g_subject'), z3.Int(fresh_name('g_subject_last'))
            _no_byte(st, s1, 10)
            st.assume(z3.And(z0 >= 0, z0 <= 255, z0 != ord('\\'), *[z0 != w for w in B64_EXCLUDED[:6]]))
            g['comment'] = cm = _fresh_b('g_comment')
            _no_byte(st, cm, 10)
            data = z3.Concat(B(b'Subject: '), s1, z3.Unit(z0), B(b'\nComment: "'), cm, B(b'"\n'), body)
        elif kind == 'quoted-crlf':
            # RFC 4716 3.1: lines may end in CR LF (files written on other platforms)
            g['comment'] = cm = _fresh_b('g_comment')
            _no_byte(st, cm, 10)
            body = z3.Concat(g['l1'], B(b'\r\n'), g['rest'])
            data = z3.Concat(B(b'Comment: "'), cm, B(b'"\r\n'), body)
        else:
            g['comment'] = None
            data = body
        g['body'] = body
        st.env['data'] = VBytes(data)
        st.inputs['data'] = st.env['data']
        st.heap['__c15__'] = g
    return setup


def rfc4716_post(c):
    """the comment comes back byte for byte (exactly one pair of surrounding quotes belongs to the syntax, every
    other quote byte to the comment) and the decoder receives exactly the base64 body"""
    calls = c.calls('binascii.a2b_base64')
    if len(calls) != 1 or not isinstance(c.result_v, VTuple) or len(c.result_v.items) != 2:
        return z3.BoolVal(False)
    cm = G(c, 'comment')
    got = c.result_v.items[0]
    comment_ok = c.is_none(got) if cm is None else c.eq(got, VBytes(cm))
    return z3.And(comment_ok, calls[0]['args'][0].z == G(c, 'body'), c.eq(c.result_v.items[1], calls[0]['ret']))


def _rfc4716_spec(kind, unroll):
    sp = VSpec(
        kind, 'C15', 'public_key', '_parse_rfc4716', params={'data': 'bytes'},
        stubs={'binascii.a2b_base64': may_raise(ret('bytes', 'decoded'), 'binascii.Error')},
        loops={1: LoopSpec(unroll=unroll)}, setup=rfc4716_setup(kind),
        ensures=[('comment-and-body-survive', rfc4716_post)],
        raises={'KeyImportError': lambda c: z3.BoolVal(
            len(c.calls('binascii.a2b_base64')) == 1 and c.calls('binascii.a2b_base64')[0]['exc'] is not None)},
        returns='tuple[opt[bytes],bytes]')
    return sp


parse_rfc4716_quoted = _rfc4716_spec('quoted', 3)
parse_rfc4716_continued = _rfc4716_spec('continued', 4)
parse_rfc4716_unquoted = _rfc4716_spec('unquoted', 3)
parse_rfc4716_nocomment = _rfc4716_spec('none', 2)
parse_rfc4716_two_headers = _rfc4716_spec('two-headers', 4)
parse_rfc4716_crlf = _rfc4716_spec('quoted-crlf', 3)


# ---------------------------------------------------------------------- _parse_pem
WS6 = B64_EXCLUDED[:6]


def pem_setup(kind):
    def setup(ex, st):
        g = {'l1': _b64_line(st, 'g_line1'), 'rest': _fresh_b('g_rest')}
        body = z3.Concat(g['l1'], B(b'\n'), g['rest'])
        if kind == 'encrypted':
            # what export_private_key('pkcs1-pem', passphrase) hands to wrap_base64 as `headers` (proved above):
            # Proc-Type: 4,ENCRYPTED \n DEK-Info: <alg>,<HEX IV> \n \n   (RFC 1421 4.6.1)
            g['alg'], g['iv'] = _fresh_b('g_dek_alg'), _fresh_b('g_hex_iv')
            _no_byte(st, g['alg'], *WS6, ord(':'), nonempty=True)      # a cipher name token
            _no_byte(st, g['iv'], *WS6, ord(':'), nonempty=True)       # upper-case hex digits
            g['tail'] = z3.Concat(B(b'\n'), body)
            data = z3.Concat(B(b'Proc-Type: 4,ENCRYPTED\nDEK-Info: '), g['alg'], B(b','), g['iv'], B(b'\n'), g['tail'])
            g['headers'] = {b'Proc-Type': B(b'4,ENCRYPTED'), b'DEK-Info': z3.Concat(g['alg'], B(b','), g['iv'])}
        elif kind == 'encrypted-crlf':
            g['alg'], g['iv'] = _fresh_b('g_dek_alg'), _fresh_b('g_hex_iv')
            _no_byte(st, g['alg'], *WS6, ord(':'), nonempty=True)
            _no_byte(st, g['iv'], *WS6, ord(':'), nonempty=True)
            body = z3.Concat(g['l1'], B(b'\r\n'), g['rest'])
            g['tail'] = z3.Concat(B(b'\r\n'), body)
            data = z3.Concat(B(b'Proc-Type: 4,ENCRYPTED\r\nDEK-Info: '), g['alg'], B(b','), g['iv'], B(b'\r\n'),
                             g['tail'])
            g['headers'] = {b'Proc-Type': B(b'4,ENCRYPTED'), b'DEK-Info': z3.Concat(g['alg'], B(b','), g['iv'])}
        else:
            g['tail'] = data = body
            g['headers'] = {}
        st.env['data'] = VBytes(data)
        st.inputs['data'] = st.env['data']
        st.heap['__c15__'] = g
    return setup


def pem_post(c):
    """the header map is exactly what was written (names and values, blanks around them dropped) and the base64
    decoder gets everything after the headers"""
    calls = c.calls('binascii.a2b_base64')
    if len(calls) != 1 or not isinstance(c.result_v, VTuple) or len(c.result_v.items) != 2:
        return z3.BoolVal(False)
    hv = c.ex.deref(c.new_state, c.result_v.items[0])
    want = G(c, 'headers')
    if not isinstance(hv, VDict) or set(hv.items) != set(want):
        return z3.BoolVal(False)
    conj = [c.eq(hv.items[k], VBytes(want[k])) for k in want]
    conj += [calls[0]['args'][0].z == G(c, 'tail'), c.eq(c.result_v.items[1], calls[0]['ret'])]
    return z3.And(conj)


def _pem_spec(kind, unroll):
    return VSpec(
        kind, 'C15', 'public_key', '_parse_pem', params={'data': 'bytes'},
        stubs={'binascii.a2b_base64': may_raise(ret('bytes', 'decoded'), 'binascii.Error')},
        loops={1: LoopSpec(unroll=unroll)}, setup=pem_setup(kind),
        ensures=[('headers-and-body-survive', pem_post)],
        raises={'KeyImportError': lambda c: z3.BoolVal(
            len(c.calls('binascii.a2b_base64')) == 1 and c.calls('binascii.a2b_base64')[0]['exc'] is not None)},
        returns='tuple[any,bytes]')


parse_pem_encrypted = _pem_spec('encrypted', 3)
parse_pem_plain = _pem_spec('plain', 1)
parse_pem_encrypted_crlf = _pem_spec('encrypted-crlf', 3)


# ====================================================================== SSHKey.export_public_key
b64 = z3.Function('b64', BytesS, BytesS)        # RFC 4648 base64 text of a byte string (codec is assumed)


def b2a_base64_stub(cx):
    """binascii.b2a_base64(x) == base64 text ++ newline (documented behaviour)"""
    t = z3.Const(fresh_name('b64text'), BytesS)
    return [Out(ret=VBytes(z3.Concat(t, B(b'\n'))), assume=[t == b64(cx.args[0].z)])]


b2a_base64_stub.modifies = ()


def encode_pkcs8_public_stub(cx):
    # three shapes of AlgorithmIdentifier.parameters: absent (EdDSA, RFC 8410 3), NULL = Python None (rsaEncryption,
    # RFC 3279 2.3.1: "the parameters field MUST have ASN.1 type NULL"), a value (EC curve OID, DSA p/q/g)
    return [Out(ret=VTuple([VTag('class:OMIT'), cx.fresh('bytes', 'spki_key')])),
            Out(ret=VTuple([VNone, cx.fresh('bytes', 'spki_key')])),
            Out(ret=VTuple([cx.fresh('any', 'alg_params'), cx.fresh('bytes', 'spki_key')]))]


encode_pkcs8_public_stub.modifies = ()


def _pub(c):
    pubs = c.calls('encode_ssh_public')
    return z3.Concat(sstr(c.old('algorithm')), pubs[0]['ret'].z) if len(pubs) == 1 else None


def export_public_post(c):
    fmt = lambda *n: _fmt(c, *n)
    wraps, ders = c.calls('wrap_base64'), c.calls('der_encode')
    cv, no_comment = _comment_term(c)
    conj = []
    # --- OpenSSH one-line format: "<algorithm> <base64 blob>[ <comment>]\n"  (sshd(8) AUTHORIZED_KEYS FILE FORMAT)
    pub = _pub(c)
    if pub is not None and not wraps:
        line = lambda tail: z3.Concat(c.old('algorithm'), B(b' '), b64(pub), tail, B(b'\n'))
        conj.append(z3.Implies(fmt('openssh'), z3.And(
            z3.Implies(no_comment, c.result == line(z3.Empty(BytesS))),
            z3.Implies(z3.Not(no_comment), c.result == line(z3.Concat(B(b' '), cv.val.z))))))
    else:
        conj.append(z3.Not(fmt('openssh')))
    # --- RFC 4716: ---- BEGIN SSH2 PUBLIC KEY ----, optional  Comment: "<comment>"  header, base64 of the blob
    if pub is not None and len(wraps) == 1:
        w = wraps[0]
        ok = [w['args'][0].z == pub, w['args'][1].z == B(b'SSH2 PUBLIC KEY'), c.result == w['ret'].z,
              z3.BoolVal(len(w['args']) == 3 and set(w['kwargs']) == {'space'})]
        if len(w['args']) == 3 and 'space' in w['kwargs']:
            ok += [c.truthy(w['kwargs']['space']),
                   z3.Implies(no_comment, w['args'][2].z == z3.Empty(BytesS)),
                   z3.Implies(z3.Not(no_comment),
                              w['args'][2].z == z3.Concat(B(b'Comment: "'), cv.val.z, B(b'"\n')))]
        conj.append(z3.Implies(fmt('rfc4716'), z3.And(ok)))
    else:
        conj.append(z3.Not(fmt('rfc4716')))
    # --- PKCS#1 / PKCS#8 (RFC 7468 section 13: SubjectPublicKeyInfo is labelled PUBLIC KEY)
    if len(ders) == 1:
        der = ders[0]['ret'].z
        conj.append(z3.Implies(fmt('pkcs1-der', 'pkcs8-der'), z3.And(_none(wraps), c.result == der)))
        if len(wraps) == 1:
            w = wraps[0]
            shape = z3.And(w['args'][0].z == der, c.result == w['ret'].z, z3.BoolVal(len(w['args']) == 2),
                           w['kwargs']['wrap'].z == 64 if 'wrap' in w['kwargs'] else False)
            conj.append(z3.Implies(fmt('pkcs1-pem'), z3.And(
                shape, w['args'][1].z == z3.Concat(c.old('pem_name'), B(b' PUBLIC KEY')))))
            conj.append(z3.Implies(fmt('pkcs8-pem'), z3.And(shape, w['args'][1].z == B(b'PUBLIC KEY'))))
        else:
            conj.append(z3.Not(fmt('pkcs1-pem', 'pkcs8-pem')))
        bits = c.calls('BitString')
        p8 = c.calls('encode_pkcs8_public')
        if len(bits) == 1 and len(p8) == 1:
            # SubjectPublicKeyInfo ::= SEQUENCE { AlgorithmIdentifier, BIT STRING }: the key bytes go into the bit string
            conj.append(c.eq(bits[0]['args'][0], p8[0]['ret'].items[1]))
            top = ders[0]['args'][0]
            conj.append(z3.BoolVal(isinstance(top, VTuple) and len(top.items) == 2 and top.items[1] is bits[0]['ret']))
            # RFC 5280 4.1: SubjectPublicKeyInfo ::= SEQUENCE { AlgorithmIdentifier, BIT STRING }
            if isinstance(top, VTuple) and len(top.items) == 2:
                conj.append(_alg_identifier_ok(c, top.items[0], p8[0]['ret']))
        else:
            conj.append(z3.Not(fmt('pkcs8-der', 'pkcs8-pem')))
            p1 = c.calls('encode_pkcs1_public')
            # PKCS#1 RSAPublicKey etc.: the algorithm's own structure is what gets DER-encoded
            conj.append(c.eq(ders[0]['args'][0], p1[0]['ret']) if len(p1) == 1 else z3.BoolVal(False))
    else:
        conj.append(z3.Not(fmt('pkcs1-der', 'pkcs1-pem', 'pkcs8-der', 'pkcs8-pem')))
    return z3.And(conj)


export_public_key = Spec(
    'C15', 'public_key', 'SSHKey.export_public_key', self_class='SSHKey', params=dict(format_name='str'),
    classes={'SSHKey': KEY_FIELDS}, globals=EXPORT_GLOBALS,
    inline={'prop:SSHKey.public_data': ('public_key', 'SSHKey.public_data')},
    stubs={
        'self.encode_pkcs1_public': ret('any', 'pkcs1_params'),
        'self.encode_pkcs8_public': encode_pkcs8_public_stub,
        'self.encode_ssh_public': ret('bytes', 'ssh_public'),
        'BitString': ret('any', 'bitstring'),
        'der_encode': ret('bytes', 'der'),
        'wrap_base64': ret('bytes', 'armoured'),
        'binascii.b2a_base64': b2a_base64_stub,
    },
    ensures=[('format-shapes', export_public_post),
             ('known-format', lambda c: _fmt(c, 'pkcs1-der', 'pkcs1-pem', 'pkcs8-der', 'pkcs8-pem', 'openssh',
                                             'rfc4716'))],
    raises={'KeyExportError': lambda c: z3.Not(_fmt(c, 'pkcs1-der', 'pkcs1-pem', 'pkcs8-der', 'pkcs8-pem', 'openssh',
                                                    'rfc4716'))},
    returns='bytes')


# ====================================================================== data lemma + bounded stand-ins (real code)
import __future__
_LAZY_ANNOTATIONS = __future__.annotations.compiler_flag      # annotations are not evaluated (types not needed)


def _exec_segments(modname, names, extra_ns=None):
    """compile the CURRENT source text of some top-level definitions of asyncssh/<modname>.py into a namespace"""
    import re as _re
    import binascii as _binascii
    import typing
    from pyvc import extract
    mod = extract.get_module(modname)
    ns = {k: getattr(typing, k) for k in ('Any', 'Awaitable', 'Callable', 'Iterable', 'Mapping', 'Optional', 'Sequence',
                                          'Union', 'Tuple', 'Dict', 'List')}
    ns.update({'re': _re, 'binascii': _binascii, '__name__': 'c15_' + modname})
    ns.update(extra_ns or {})
    for n in names:
        node = mod.functions.get(n) or mod.classes.get(n)
        if node is None:
            ns[n] = mod.lookup_const(n)
            continue
        exec(compile(mod.segment(node), mod.path, 'exec', flags=_LAZY_ANNOTATIONS), ns)
    return ns


def bounded_armour(tier):
    """match_base64(wrap_base64(d, type, headers, space, wrap)) recovers headers + base64(d) and a2b_base64 of that
    is d, for every length 0..N, several wrap widths, both hyphen styles, with and without headers"""
    import binascii
    ns = _exec_segments('misc', ['_DEFAULT_WRAP_LEN', 'match_base64', 'wrap_base64'])
    wrap_b64, match_b64 = ns['wrap_base64'], ns['match_base64']
    bad, n = [], 0
    maxlen = 400 if tier == 'thorough' else 150
    hdrs = [b'', b'Comment: "a \\"quoted\\" one"\n', b'Proc-Type: 4,ENCRYPTED\nDEK-Info: AES-256-CBC,00FF\n\n']
    for ln in range(maxlen):
        d = bytes((i * 37 + ln) & 0xff for i in range(ln))
        for wrap in (1, 3, 64, 70, 76):
            if wrap < 64 and ln > 40:
                continue
            for space, typ in ((False, b'RSA PRIVATE KEY'), (False, b'OPENSSH PRIVATE KEY'), (True, b'SSH2 PUBLIC KEY')):
                for h in hdrs:
                    n += 1
                    text = wrap_b64(d, typ, h, space, wrap)
                    first = text[:text.index(b'\n')]
                    try:
                        whole = b'junk\n' + text + text
                        inner, end = match_b64(whole, 5 + len(first) + 1, first)
                        # `end` is past the footer text and the next block is still ahead of it
                        ok = (5 + len(text) - 1 <= end <= 5 + len(text) and whole[end:].lstrip().startswith(first) and
                              inner.startswith(h) and
                              binascii.a2b_base64(inner[len(h):]) == d and
                              all(len(l) <= wrap for l in inner[len(h):].split(b'\n')) and
                              text.endswith((b'---- END ' if space else b'-----END ') + typ +
                                            (b' ----\n' if space else b'-----\n')))
                    except Exception as e:       # noqa
                        ok = False
                    if not ok and len(bad) < 5:
                        bad.append({'len': ln, 'wrap': wrap, 'space': space, 'headers': h.decode()})
    return {'name': 'C15.misc.wrap_base64/match_base64#bounded(armour-inverse)', 'cases': n, 'violations': bad,
            'what': f'all data lengths < {maxlen} x wrap widths x header sets, executed on the current source text'}


def _mp_values(tier):
    vals = set(range(-700, 700))
    for k in range(0, 1100 if tier == 'thorough' else 300):
        for d in (-1, 0, 1):
            vals.add((1 << k) + d)
            vals.add(-(1 << k) + d)
    return sorted(vals)


def bounded_mpint(tier):
    """RFC 4251 mpint: two's complement, big-endian, minimal length (no superfluous leading 0x00 / 0xff), zero is
    the empty string; get_mpint(MPInt(v) ++ r) == v leaving r"""
    ns = _exec_segments('packet', ['PacketDecodeError', 'MPInt', 'String', 'SSHPacket'])
    bad, n = [], 0
    for v in _mp_values(tier):
        n += 1
        try:
            e = ns['MPInt'](v)
            body = e[4:]
            p = ns['SSHPacket'](e + b'\x01rest')
            back = p.get_mpint()
            minimal = (v == 0 and body == b'') or (v != 0 and len(body) >= 1 and not (
                len(body) >= 2 and ((body[0] == 0 and body[1] < 0x80) or (body[0] == 0xff and body[1] >= 0x80))))
            sign = v == 0 or ((body[0] >= 0x80) == (v < 0))
            ok = (int.from_bytes(e[:4], 'big') == len(body) and back == v and minimal and sign and
                  p.get_remaining_payload() == b'\x01rest')
        except Exception:      # noqa
            ok = False
        if not ok and len(bad) < 5:
            bad.append({'value': str(v)})
    return {'name': 'C15.packet.MPInt/get_mpint#bounded(rfc4251-mpint-round-trip-and-minimal-form)', 'cases': n,
            'violations': bad}


def _der_ns():
    from pyvc import extract
    mod = extract.get_module('asn1')
    ns = {'__name__': 'c15_asn1'}
    exec(compile(mod.text, mod.path, 'exec'), ns)
    return ns


def _der_round_trip(ns, v):
    """X.690 DER: decode(encode(v)) == v, der_decode_partial reports exactly the bytes of the first value, definite
    length in minimal form (short form < 128, long form without leading zero octet), INTEGER minimal two's complement"""
    enc, dec, decp = ns['der_encode'], ns['der_decode'], ns['der_decode_partial']
    try:
        e = enc(v)
        back = dec(e)
        v2, used = decp(e + b'\x30\x00trailing')
        i = 1
        if e[0] & 0x1f == 0x1f:
            while e[i] & 0x80:
                i += 1
            i += 1
        first = e[i]
        if first < 0x80:
            clen, hdr, minimal = first, i + 1, True
        else:
            k = first & 0x7f
            clen = int.from_bytes(e[i + 1:i + 1 + k], 'big')
            hdr = i + 1 + k
            minimal = k >= 1 and e[i + 1] != 0 and clen >= 0x80
        ok = back == v and v2 == v and used == len(e) and minimal and hdr + clen == len(e)
        if isinstance(v, int) and not isinstance(v, bool):
            c_ = e[hdr:]
            ok = ok and len(c_) >= 1 and not (len(c_) >= 2 and ((c_[0] == 0 and c_[1] < 0x80) or
                                                                 (c_[0] == 0xff and c_[1] >= 0x80)))
        return ok
    except Exception:      # noqa
        return False


def _bounded(name, ns, vals, what):
    bad = [{'value': repr(v)[:80]} for v in vals if not _der_round_trip(ns, v)]
    return {'name': name, 'cases': len(vals), 'violations': bad[:5], 'what': what}


def bounded_der(tier):
    """three stand-ins: (1) every value shape the key formats use plus general scalars / nesting / long lengths,
    (2) identifier octets for tag numbers around the low/high form boundary, (3) OID first subidentifier"""
    ns = _der_ns()
    BitS, OID, Raw, Tagged = ns['BitString'], ns['ObjectIdentifier'], ns['RawDERObject'], ns['TaggedDERObject']
    vals = [None, True, False, b'', 'caf\u00e9', (), (1, (2, b'x')), frozenset({1, 2, 300})]
    vals += [v for v in _mp_values('quick') if abs(v) < (1 << 130)][::7]
    vals += [(1 << k) + d for k in (1023, 1024, 2047, 2048, 4095, 4096) for d in (-1, 0, 1)]     # RSA-sized INTEGERs
    vals += [-(1 << k) + d for k in (1023, 1024, 2048) for d in (-1, 0, 1)]
    vals += [bytes(n) for n in (1, 126, 127, 128, 129, 255, 256, 257, 65535, 65536, 70000)]
    vals += [BitS(b'\xa0', 5), BitS(b''), BitS(b'\xff\x80', 7), BitS(b'\x01' * 200)]
    # OIDs of the key formats (RSA, DSA, EC + curves, Ed25519/Ed448, PBES2/PBKDF2/AES, X.509 attribute arcs)
    vals += [OID(x) for x in ('1.2.840.113549.1.1.1', '1.2.840.10040.4.1', '1.2.840.10045.2.1', '1.2.840.10045.3.1.7',
                              '1.3.132.0.34', '1.3.132.0.35', '1.3.101.112', '1.3.101.113', '1.2.840.113549.1.5.13',
                              '1.2.840.113549.1.5.12', '2.16.840.1.101.3.4.1.42', '2.5.4.3', '0.39', '2.47.1',
                              '1.3.6.1.4.1.' + str(1 << 40))]
    for tag in (0, 1, 2, 3, 30, 32, 127, 128, 16383, 16384, 1 << 21):
        for cls in (1, 2, 3):
            vals += [Raw(tag, b'abc', cls), Tagged(tag, (1, b'y'), cls)]
    # PrivateKeyInfo / SubjectPublicKeyInfo / ECPrivateKey shaped values
    vals += [(0, (OID('1.2.840.113549.1.1.1'), None), b'\x30\x00'), ((OID('1.3.101.112'),), BitS(b'k' * 32)),
             (1, b'd' * 32, Tagged(0, OID('1.2.840.10045.3.1.7'), 2), Tagged(1, BitS(b'\x04' + b'q' * 64), 2))]
    out = [_bounded('C15.asn1.der_encode/der_decode#bounded(der-round-trip-minimal-lengths)', ns, vals,
                    'key-format shaped values, scalars, nesting, lengths across 127/128/255/256/65535/65536')]
    out.append(_bounded('C15.asn1._encode_identifier#bounded(tag-31-high-form)', ns,
                        [Raw(31, b'abc', cls) for cls in (1, 2, 3)] + [Tagged(31, (1,), cls) for cls in (1, 2, 3)],
                        'X.690 8.1.2.4: tag number 31 needs the high-tag form'))
    out.append(_bounded('C15.asn1.ObjectIdentifier#bounded(oid-first-subidentifier-multibyte)', ns,
                        [OID(x) for x in ('2.48', '2.48.1', '2.999.3', '2.100000.7')],
                        'X.690 8.19.4: arcs X.Y are one base-128 subidentifier 40*X+Y'))
    return out


def _method_as_function(modname, qual, ns):
    """compile the current source of a method as a plain function taking `self` (decorators dropped)"""
    import ast
    import copy
    from pyvc import extract
    mod = extract.get_module(modname)
    node = copy.deepcopy(mod.get_function(qual))
    node.decorator_list = []
    exec(compile(ast.unparse(node), mod.path, 'exec', flags=_LAZY_ANNOTATIONS), ns)
    return ns[node.name]


def bounded_text_round_trip(tier):
    """End-to-end on the current source text (no PyCA, fake key material): export_public_key('openssh'/'rfc4716')
    and export_private_key('openssh') of a key with comment c, fed to _match_next (+ _decode_openssh_private),
    give back the same blob and the same comment - links the exporter shapes to the parser input families that the
    symbolic contracts use, and exercises wrap_base64/match_base64 in between."""
    import os as _os
    from pyvc import extract
    pk = _exec_segments('packet', ['PacketDecodeError', 'Byte', 'Boolean', 'UInt32', 'UInt64', 'String', 'SSHPacket'])
    ns = _exec_segments('misc', ['_DEFAULT_WRAP_LEN', 'match_base64', 'wrap_base64'])
    ns.update({k: pk[k] for k in ('PacketDecodeError', 'UInt32', 'UInt64', 'String', 'SSHPacket')})
    asn = _der_ns()
    ns.update({k: asn[k] for k in ('der_encode', 'der_decode', 'der_decode_partial', 'ASN1DecodeError', 'BitString',
                                   'ObjectIdentifier')})
    pbe = extract.get_module('pbe')
    exec(compile(pbe.segment(pbe.classes['KeyEncryptionError']), pbe.path, 'exec'), ns)

    class FakeKey:
        algorithm, pem_name, pkcs8_oid = b'ssh-test', b'TEST', None

        def __init__(self, pub=b'', priv=b'', comment=None):
            self.public_data = ns['String'](self.algorithm) + pub
            self.private_data = ns['String'](self.algorithm) + ns['String'](priv)
            self._comment = comment

        @classmethod
        def decode_ssh_private(cls, packet):
            return (packet.get_string(),)

        @classmethod
        def make_private(cls, params):
            return cls(priv=params[0])

        def set_comment(self, comment):
            self._comment = comment or None

    ns.update({'os': _os, 'OMIT': object(), '_bcrypt_available': False, 'cast': lambda t, v: v,
               '_public_key_alg_map': {b'ssh-test': FakeKey}, '_certificate_alg_map': {}})
    ns = _exec_segments('public_key', ['_OPENSSH_KEY_V1', '_OPENSSH_SALT_LEN', '_PEM_WRAP_LEN', 'KeyImportError',
                                       'KeyExportError', '_parse_openssh', '_parse_pem', '_parse_rfc4716', '_match_next',
                                       '_decode_openssh_private'], extra_ns=ns)
    exp_pub = _method_as_function('public_key', 'SSHKey.export_public_key', ns)
    exp_priv = _method_as_function('public_key', 'SSHKey.export_private_key', ns)
    comments = [None, b'x', b'a b  c', b'"quoted"', b'build "nightly"', b'"', b'""', b'"a', b'a"', b'\\', b'trail\\',
                b'tab\there', b'\xff\xfe', b'a:b', b'Comment: "x"', b'k' * 90, b'user@host']
    bad, n = [], 0
    nblob = 64 if tier == 'thorough' else 20
    for cm in comments:
        for ln in range(nblob):
            blob = bytes((7 * i + ln) & 0xff for i in range(ln))
            key = FakeKey(pub=blob, priv=blob, comment=cm)
            for what in ('public-openssh', 'public-rfc4716', 'private-openssh'):
                n += 1
                try:
                    if what == 'private-openssh':
                        text = exp_priv(key, 'openssh')
                        fmt, info, end = ns['_match_next'](text, b'PRIVATE KEY')
                        back = ns['_decode_openssh_private'](info[2], None, None)
                        ok = (fmt == 'pem' and info[0] == b'OPENSSH' and info[1] == {} and
                              back.private_data == key.private_data and back._comment == cm and
                              len(text) - 1 <= end <= len(text))
                    else:
                        text = exp_pub(key, what.split('-')[1])
                        fmt, info, end = ns['_match_next'](b'\n' + text + text, b'PUBLIC KEY', public=True)
                        want = (cm, key.public_data) if what == 'public-rfc4716' else \
                            (key.algorithm, cm, key.public_data)
                        ok = fmt == what.split('-')[1] and tuple(info) == want and len(text) <= end <= len(text) + 1
                except Exception as e:      # noqa
                    ok = False
                if not ok and len(bad) < 5:
                    bad.append({'format': what, 'comment': repr(cm), 'blob_len': ln})
    return {'name': 'C15.public_key#bounded(text-level-export-import-round-trip)', 'cases': n, 'violations': bad,
            'what': 'comments with quotes, backslashes, colons, blanks inside, non-UTF-8 bytes; every padding residue'}


def bounded_pbkdf1(tier):
    """OpenSSL EVP_BytesToKey (the legacy PEM / RFC 1423 key derivation, = PKCS#5 PBKDF1 for one block):
    D_1 = H^count(pass || salt), D_i = H^count(D_{i-1} || pass || salt), key = first n bytes of D_1 || D_2 || ...
    compared with the current source of pbe._pbkdf1 on real hashes, for every key length up to two digests (the
    registered PKCS#1 ciphers need at most 32 bytes from MD5) - reference implementation written from the recurrence"""
    import hashlib
    ns = _exec_segments('pbe', ['_pbkdf1'])
    kdf = ns['_pbkdf1']

    def evp(h, pw, salt, count, n):
        d, out = b'', b''
        while len(out) < n:
            x = d + pw + salt
            for _ in range(count):
                x = h(x).digest()
            d = x
            out += d
        return out[:n]
    bad, cases = [], 0
    for h in (hashlib.md5, hashlib.sha1):
        dl = h().digest_size
        for pw in (b'', b'passphrase', b'p\xc3\xa4ssword', bytes(range(70))):
            for salt in (b'', b'12345678', b'\x00' * 8):
                for count in (1, 2, 5):
                    for n in range(0, 2 * dl + 1):
                        cases += 1
                        try:
                            ok = kdf(h, pw, salt, count, n) == evp(h, pw, salt, count, n)
                        except Exception:      # noqa
                            ok = False
                        if not ok and len(bad) < 5:
                            bad.append({'hash': h().name, 'passphrase': pw.hex(), 'salt': salt.hex(), 'count': count, 'n': n})
    # OpenSSL test vector: EVP_BytesToKey(aes-256-cbc, md5, salt 0102030405060708, "password", 1)
    vec = kdf(hashlib.md5, b'password', bytes(range(1, 9)), 1, 32) == evp(hashlib.md5, b'password', bytes(range(1, 9)), 1, 32)
    if not vec:
        bad.append({'vector': 'aes-256 / md5 / password'})
    return {'name': 'C15.pbe._pbkdf1#bounded(evp-bytestokey-recurrence)', 'cases': cases, 'violations': bad}


def cipher_block_sizes_lemma():
    """the finite split of the OpenSSH container block size rests on the registered cipher table (read as data)"""
    import ast
    from pyvc import extract
    mod = extract.get_module('crypto.cipher')
    sizes = set()
    for node in ast.walk(mod.tree):
        if isinstance(node, ast.Assign) and any(isinstance(t, ast.Name) and t.id == '_cipher_alg_list'
                                                for t in node.targets):
            for elt in node.value.elts:
                sizes.add(ast.literal_eval(elt.elts[-1]))
    ok = bool(sizes) and sizes <= set(CIPHER_BLOCK_SIZES)
    return {'name': 'C15.crypto.cipher._cipher_alg_list#block-sizes-in-{1,8,16}',
            'verdict': 'proved' if ok else 'refuted', 'detail': sorted(sizes), 'backend': 'data (AST literal)',
            'replayed': True}


def wrap_width_lemmas():
    """RFC 4716 3.4: "Each line ... MUST NOT be longer than 72 bytes" (the default width serves rfc4716, the OpenSSH
    private container and certificates); RFC 7468 2: PEM generators MUST wrap at exactly 64 characters."""
    from pyvc import extract
    out = []
    for mod, name, ok, why in (('misc', '_DEFAULT_WRAP_LEN', lambda v: 1 <= v <= 72, 'rfc4716-line-limit-72'),
                               ('public_key', '_PEM_WRAP_LEN', lambda v: v == 64, 'rfc7468-wrap-64')):
        try:
            v = extract.get_module(mod).lookup_const(name)
        except KeyError:
            v = None
        out.append({'name': f'C15.{mod}.{name}#{why}', 'verdict': 'proved' if isinstance(v, int) and ok(v) else 'refuted',
                    'detail': v, 'backend': 'data (module constant)', 'replayed': True})
    return out


def extra_checks(tier, seed):
    return {'lemmas': [cipher_block_sizes_lemma()] + wrap_width_lemmas() + rfc1423_round_trip_lemma(),
            'bounded': [bounded_armour(tier), bounded_mpint(tier), bounded_text_round_trip(tier), bounded_pbkdf1(tier)]
            + bounded_der(tier)}


# ====================================================================== _match_next: format sniffing
# Decision table: the first bytes / first line of what an exporter wrote select the decoder for that format.
def match_next_setup(kind, kt, public):
    def setup(ex, st):
        from pyvc import bstruct
        st.env['keytype'], st.env['public'] = VBytes(kt), VBool(public)
        st.inputs['keytype'], st.inputs['public'] = st.env['keytype'], st.env['public']
        g = {'rest': _fresh_b('g_rest'), 'kind': kind}
        if kind in ('pem-named', 'pem-bare', 'pem-after-junk', 'pem-named-crlf'):
            nl = B(b'\r\n') if kind == 'pem-named-crlf' else B(b'\n')
            if kind == 'pem-bare':
                g['pem_name'] = z3.Empty(BytesS)
                first = z3.Concat(B(b'-----BEGIN '), B(kt), B(b'-----'))
            else:
                g['pem_name'] = _fresh_b('g_pem_name')          # RSA, EC, DSA, ENCRYPTED, OPENSSH, ...
                _no_byte(st, g['pem_name'], *WS6, nonempty=True)
                first = z3.Concat(B(b'-----BEGIN '), g['pem_name'], B(b' '), B(kt), B(b'-----'))
            junk = z3.Empty(BytesS)
            if kind == 'pem-after-junk':
                # e.g. "Bag Attributes" / "Key Attributes" text in front of the block: skipped line by line
                j1 = _fresh_b('g_junk')
                a0, z0 = z3.Int(fresh_name('g_junk0')), z3.Int(fresh_name('g_junkz'))
                st.assume(z3.And(a0 >= 0, a0 <= 255, a0 != 0x30, a0 != ord('-'), z0 >= 0, z0 <= 255,
                                 *[a0 != w for w in WS6], *[z0 != w for w in WS6]))
                _no_byte(st, j1, 10)
                junk = z3.Concat(z3.Unit(a0), j1, z3.Unit(z0), B(b'\n'))
            g['line'] = first
            g['start'] = bstruct.norm_len(z3.Length(junk) + z3.Length(first) + z3.Length(nl))
            data = z3.Concat(junk, first, nl, g['rest'])
        elif kind == 'rfc4716':
            g['line'] = first = B(b'---- BEGIN SSH2 PUBLIC KEY ----')
            g['start'] = z3.IntVal(len(b'---- BEGIN SSH2 PUBLIC KEY ----') + 1)
            data = z3.Concat(first, B(b'\n'), g['rest'])
        elif kind == 'openssh-line':
            # "<algorithm> <base64> [comment]": starts with a letter, ends (after rstrip) in a non-blank byte
            a0, z0 = z3.Int(fresh_name('g_alg0')), z3.Int(fresh_name('g_linez'))
            l1 = _fresh_b('g_line')
            st.assume(z3.And(a0 >= 0, a0 <= 255, a0 != 0x30, a0 != ord('-'), z0 >= 0, z0 <= 255,
                             *[a0 != w for w in WS6], *[z0 != w for w in WS6]))
            _no_byte(st, l1, 10)
            g['line'] = z3.Concat(z3.Unit(a0), l1, z3.Unit(z0))
            g['start'] = bstruct.norm_len(z3.Length(g['line']) + 1)
            data = z3.Concat(g['line'], B(b'\n'), g['rest'])
        elif kind == 'der':
            data = z3.Concat(B(b'\x30'), g['rest'])
        elif kind == 'der-garbage':
            # starts like a DER SEQUENCE but is not one (the stub below always raises ASN1DecodeError): the text
            # scan runs next and finds nothing in this single unterminated line
            l1, z0 = _fresh_b('g_line'), z3.Int(fresh_name('g_linez'))
            st.assume(z3.And(z0 >= 0, z0 <= 255, *[z0 != w for w in WS6]))
            _no_byte(st, l1, 10)
            data = z3.Concat(B(b'\x30'), l1, z3.Unit(z0))
        g['data'] = data
        st.env['data'] = VBytes(data)
        st.inputs['data'] = st.env['data']
        st.heap['__c15__'] = g
    return setup


def _tag_is(c, name):
    r = c.result_v
    return isinstance(r, VTuple) and len(r.items) == 3 and concrete_str(r.items[0]) == name


def match_next_post(c):
    kind = G(c, 'kind')
    r = c.result_v
    mb, pp, p4, po, dd = (c.calls('match_base64'), c.calls('_parse_pem'), c.calls('_parse_rfc4716'),
                          c.calls('_parse_openssh'), c.calls('der_decode_partial'))
    if kind == 'der-garbage':
        ok = isinstance(r, VTuple) and len(r.items) == 3 and r.items[0] is VNone and \
            isinstance(r.items[1], VTuple) and not r.items[1].items and len(dd) == 1 and not (mb or pp or p4 or po)
        return z3.And(c.eq(r.items[2], VInt(z3.Length(G(c, 'data'))))) if ok else z3.BoolVal(False)
    if kind == 'der':
        if not (_tag_is(c, 'der') and len(dd) == 1 and not (mb or pp or p4 or po)):
            return z3.BoolVal(False)
        return z3.And(dd[0]['args'][0].z == G(c, 'data'), c.eq(r.items[1], VTuple([dd[0]['ret'].items[0]])),
                      c.eq(r.items[2], dd[0]['ret'].items[1]))
    if kind == 'openssh-line':
        if not (_tag_is(c, 'openssh') and len(po) == 1 and not (mb or pp or p4 or dd)):
            return z3.BoolVal(False)
        return z3.And(po[0]['args'][0].z == G(c, 'line'), c.eq(r.items[1], po[0]['ret']),
                      c.eq(r.items[2], VInt(G(c, 'start'))))
    if len(mb) != 1 or dd:
        return z3.BoolVal(False)
    armour = z3.And(mb[0]['args'][0].z == G(c, 'data'), mb[0]['args'][1].z == G(c, 'start'),
                    mb[0]['args'][2].z == G(c, 'line'), c.eq(r.items[2], mb[0]['ret'].items[1])) \
        if isinstance(r, VTuple) and len(r.items) == 3 else z3.BoolVal(False)
    if kind == 'rfc4716':
        if not (_tag_is(c, 'rfc4716') and len(p4) == 1 and not (pp or po)):
            return z3.BoolVal(False)
        return z3.And(armour, p4[0]['args'][0].z == mb[0]['ret'].items[0].z, c.eq(r.items[1], p4[0]['ret']))
    if not (_tag_is(c, 'pem') and len(pp) == 1 and not (p4 or po)):
        return z3.BoolVal(False)
    return z3.And(armour, pp[0]['args'][0].z == mb[0]['ret'].items[0].z,
                  c.eq(r.items[1], VTuple([VBytes(G(c, 'pem_name')), pp[0]['ret'].items[0], pp[0]['ret'].items[1]])))


MATCH_STUBS = {
    'der_decode_partial': ret('tuple[any,int]', 'der_value'),
    'match_base64': may_raise(ret('tuple[bytes,int]', 'armour_body'), 'ValueError'),
    '_parse_pem': may_raise(ret('tuple[any,bytes]', 'pem'), 'KeyImportError'),              # contracts above
    '_parse_rfc4716': may_raise(ret('tuple[opt[bytes],bytes]', 'rfc4716'), 'KeyImportError'),
    '_parse_openssh': may_raise(ret('tuple[bytes,opt[bytes],bytes]', 'openssh'), 'KeyImportError'),
}


def _match_spec(kind, keytype, public, unroll):
    return VSpec(
        f'{kind},{keytype.decode().replace(" ", "-")},{"public" if public else "private"}',
        'C15', 'public_key', '_match_next', params=dict(data='bytes', keytype='bytes', public='bool'),
        stubs=dict(MATCH_STUBS, **({'_parse_openssh': ret('tuple[bytes,opt[bytes],bytes]', 'openssh')}
                                   if kind == 'openssh-line' else
                                   {'der_decode_partial': lambda cx: [Out(exc=VExc('ASN1DecodeError'))]}
                                   if kind == 'der-garbage' else {})),
        loops={1: LoopSpec(unroll=unroll)},
        setup=match_next_setup(kind, keytype, public),
        ensures=[('first-line-selects-the-decoder', match_next_post)],
        raises={'KeyImportError': lambda c: z3.BoolVal(
            any(x['exc'] is not None for k in ('match_base64', '_parse_pem', '_parse_rfc4716') for x in c.calls(k)))},
        returns='tuple[opt[str],any,opt[int]]')


match_specs = [
    _match_spec('pem-named', b'PRIVATE KEY', False, 1), _match_spec('pem-bare', b'PRIVATE KEY', False, 1),
    _match_spec('pem-named', b'PUBLIC KEY', True, 1), _match_spec('pem-bare', b'PUBLIC KEY', True, 1),
    _match_spec('pem-bare', b'CERTIFICATE', True, 1), _match_spec('pem-after-junk', b'PRIVATE KEY', False, 2),
    _match_spec('rfc4716', b'PUBLIC KEY', True, 1), _match_spec('openssh-line', b'PUBLIC KEY', True, 1),
    _match_spec('der', b'PRIVATE KEY', False, 1), _match_spec('der', b'PUBLIC KEY', True, 1),
    _match_spec('pem-named-crlf', b'PRIVATE KEY', False, 1), _match_spec('der-garbage', b'PRIVATE KEY', False, 1),
]


# ---------------------------------------------------------------------- _decode_openssh_private, encrypted container
def openssh_private_enc_setup(ex, st):
    openssh_private_setup(True)(ex, st)
    g = st.heap['__c15__']
    # kdfoptions = string salt, uint32 rounds [, unexpected tail]  (PROTOCOL.key, bcrypt KDF)
    g['salt'], g['kd_tail'], g['rounds'] = _fresh_b('g_salt'), _fresh_b('g_kdf_tail'), z3.Int(fresh_name('g_rounds'))
    st.assume(g['kdf_data'] == z3.Concat(_gstr(st, g['salt']), _def_be(st, 4, g['rounds']), g['kd_tail']))
    # the path condition above only constrains the ghost; give the reader the structured term itself
    data = g['data']
    kd = z3.Concat(_gstr(st, g['salt']), _def_be(st, 4, g['rounds']), g['kd_tail'])
    from pyvc import bstruct
    g['data'] = z3.substitute(data, (z3.Length(g['kdf_data']), bstruct.norm_len(z3.Length(kd))), (g['kdf_data'], kd))
    # the length prefix of kdf_data must be a defined be() instance too
    _def_be(st, 4, bstruct.norm_len(z3.Length(kd)))
    g['kdf_data'] = kd
    st.env['data'] = VBytes(g['data'])
    st.inputs['data'] = st.env['data']


def decrypt_stub(cx):
    """cipher.decrypt_packet(seq, first, rest, firstlen, mac): None when the MAC / AEAD tag does not verify, else
    the plaintext - here any byte string with the private-section grammar (check words, key, comment, padding)"""
    g = cx.st.heap['__c15__']
    return [Out(ret=VNone), Out(ret=VBytes(g['sect']))]


decrypt_stub.modifies = ()


def enc_params_stub_import(cx):
    ks, ivs = cx.fresh('int', 'key_size'), cx.fresh('int', 'iv_size')
    return [Out(ret=VTuple([ks, ivs] + [cx.fresh('int', 'p%d' % i) for i in range(4)]), assume=[ks.z >= 1, ivs.z >= 0]),
            Out(exc=VExc('KeyError'))]


enc_params_stub_import.modifies = ()


def _enc_calls(c):
    return (c.calls('get_encryption_params'), c.calls('bcrypt.kdf'), c.calls('get_encryption'),
            c.calls('cipher.decrypt_packet'))


def import_enc_accepts(c):
    """a key comes out of an encrypted container only if a passphrase was given, the KDF named in the file is
    bcrypt and was run on exactly the salt / rounds stored in the file, the cipher accepted the ciphertext + tag,
    and the plaintext is a well-formed private section"""
    params, kdfs, gets, decs = _enc_calls(c)
    if not (len(params) == len(kdfs) == len(gets) == len(decs) == 1) or decs[0]['ret'] is VNone:
        return z3.BoolVal(False)
    ka, ga, da = kdfs[0]['args'], gets[0]['args'], decs[0]['args']
    ks, ivs = params[0]['ret'].items[0].z, params[0]['ret'].items[1].z
    key = kdfs[0]['ret'].z
    kw = kdfs[0]['kwargs']
    return z3.And(_P(c), G(c, 'kdf') == B(b'bcrypt'), z3.Length(G(c, 'kd_tail')) == 0,
                  params[0]['args'][0].z == G(c, 'cipher'),
                  ka[0].z == _pp_bytes(c), ka[1].z == G(c, 'salt'), ka[2].z == ks + ivs,
                  ka[3].z == G(c, 'rounds'), c.truthy(kw['ignore_few_rounds']) if 'ignore_few_rounds' in kw else False,
                  ga[0].z == G(c, 'cipher'), z3.Concat(ga[1].z, ga[2].z) == key, ga[1].z == z3.Extract(key, 0, ks),
                  da[0].z == 0, da[1].z == z3.Empty(BytesS), da[2].z == G(c, 'stored'), da[3].z == 0,
                  da[4].z == G(c, 'mac'),
                  import_accepts_only_wellformed(c))


def import_enc_key_error(c):
    """KeyEncryptionError: unknown cipher / KDF, KDF failure, tag mismatch (wrong passphrase) or differing check
    words after decryption (wrong passphrase with an unauthenticated cipher)"""
    params, kdfs, gets, decs = _enc_calls(c)
    reasons = [G(c, 'kdf') != B(b'bcrypt'), z3.Not(bcrypt_ok(z3.IntVal(0)))]
    reasons.append(z3.BoolVal(len(params) == 1 and params[0]['exc'] is not None))
    reasons.append(z3.BoolVal(len(kdfs) == 1 and kdfs[0]['exc'] is not None))
    reasons.append(z3.BoolVal(len(decs) == 1 and decs[0]['ret'] is VNone))
    if len(decs) == 1 and decs[0]['ret'] is not VNone:
        reasons.append(G(c, 'check1') != G(c, 'check2'))
    return z3.And(_P(c), G(c, 'nkeys') == 1, z3.Or(reasons))


def import_enc_import_error(c):
    params, kdfs, gets, decs = _enc_calls(c)
    reasons = [G(c, 'nkeys') != 1, z3.Not(_P(c)), z3.Length(G(c, 'kd_tail')) != 0]
    if len(decs) == 1 and decs[0]['ret'] is not VNone:
        reasons.append(z3.And(G(c, 'check1') == G(c, 'check2'), import_rejects_only_malformed(c)))
    return z3.Or(reasons)


def wrong_passphrase_rejected(c):
    """no key object is ever returned when the cipher rejected the ciphertext or the check words differ"""
    params, kdfs, gets, decs = _enc_calls(c)
    if c.raised is not None:
        return z3.BoolVal(True)
    return z3.And(z3.BoolVal(len(decs) == 1 and decs[0]['ret'] is not VNone), G(c, 'check1') == G(c, 'check2'))


def _import_enc_spec(variant, pp_type): return VSpec(
    variant, 'C15', 'public_key', '_decode_openssh_private',
    params=dict(data='bytes', passphrase=pp_type, unsafe_skip_rsa_key_validation='opt[bool]'),
    classes=dict(PACKET_CLASSES, Handler={}, Key={}, Cipher={}), inline=dict(PACKET_INLINE), truthy=PACKET_TRUTHY,
    globals={k: v for k, v in EXPORT_GLOBALS.items() if k != 'OMIT'},
    stubs=dict(IMPORT_STUBS, **{
        'get_encryption_params': enc_params_stub_import,
        'bcrypt.kdf': may_raise(ret('bytes', 'kdf_key'), 'ValueError'),
        'get_encryption': ret('obj:Cipher', 'cipher'),
        'cipher.decrypt_packet': decrypt_stub,
    }),
    setup=openssh_private_enc_setup,
    ensures=[('accepts-only-with-right-kdf-inputs-and-wellformed-plaintext', import_enc_accepts)],
    always=[('wrong-passphrase-never-yields-a-key', wrong_passphrase_rejected)],
    raises={'KeyEncryptionError': import_enc_key_error, 'KeyImportError': import_enc_import_error,
            # error-message formatting decodes the file's cipher / kdf name as ASCII (only on the reject paths)
            # helper-level behaviour (not a property clause): the error-message formatting decodes the file's cipher /
            # kdf name as ASCII on the reject paths; UnicodeDecodeError is a ValueError and the API entry point
            # import_private_key (contract below) turns every ValueError into KeyImportError
            'UnicodeDecodeError': lambda c: z3.And(_P(c), z3.BoolVal(len(c.calls('bcrypt.kdf')) == 0)),
            'ValueError': lambda c: z3.BoolVal(any(m['exc'] is not None for m in c.calls('handler.make_private')))},
    returns='obj:Key')


decode_openssh_private_encrypted = _import_enc_spec('encrypted', 'opt[bytes]')
decode_openssh_private_encrypted_str = _import_enc_spec('encrypted,str-passphrase', 'opt[str]')


# ====================================================================== decode_ssh_public_key (RFC 4253 6.6 blob)
def ssh_public_setup(ex, st):
    g = {'alg': _fresh_b('g_alg'), 'blob': _fresh_b('g_blob'), 'tail': _fresh_b('g_tail')}
    # what SSHKey.public_data is: string algorithm ++ encode_ssh_public(); `tail` is anything that follows
    g['data'] = z3.Concat(_gstr(st, g['alg']), g['blob'], g['tail'])
    st.env['data'] = VBytes(g['data'])
    st.inputs['data'] = st.env['data']
    st.heap['__c15__'] = g
    st.heap['__cut__'] = True      # handler stub moves the read position of an object created inside (see above)


def decode_ssh_public_stub(cx):
    """assumed contract of the per-algorithm codec: consumes exactly what encode_ssh_public wrote, or rejects"""
    from pyvc import bstruct
    pkt = cx.args[0]
    g = cx.st.heap['__c15__']
    idx = cx.ex.get_field(cx.st, pkt, '_idx')
    return [Out(ret=VTuple([cx.fresh('any', 'key_params')]),
                osets=[(pkt, '_idx', VInt(bstruct.norm_len(idx.z + z3.Length(g['blob']))))]),
            Out(exc=VExc('PacketDecodeError'))]


decode_ssh_public_stub.modifies = ()


def ssh_public_accepts(c):
    """the key is built by the handler registered for the algorithm name IN the blob, from exactly the blob (no
    trailing bytes), and is labelled with that algorithm name"""
    gets, decs, makes = c.calls('_public_key_alg_map.get'), c.calls('handler.decode_ssh_public'), \
        c.calls('handler.make_public')
    if not (len(gets) == len(decs) == len(makes) == 1):
        return z3.BoolVal(False)
    key = makes[0]['ret']
    return z3.And(gets[0]['args'][0].z == G(c, 'alg'), z3.Length(G(c, 'tail')) == 0,
                  c.eq(makes[0]['args'][0], decs[0]['ret']), c.eq(c.result_v, key),
                  c.new('algorithm', key) == G(c, 'alg'))


def ssh_public_rejects(c):
    gets, decs = c.calls('_public_key_alg_map.get'), c.calls('handler.decode_ssh_public')
    unknown = gets[0]['ret'].isnone if len(gets) == 1 and not decs else z3.BoolVal(False)
    rejected = z3.BoolVal(len(decs) == 1 and decs[0]['exc'] is not None)
    return z3.Or(unknown, rejected, z3.Length(G(c, 'tail')) != 0)


decode_ssh_public_key = Spec(
    'C15', 'public_key', 'decode_ssh_public_key', params={'data': 'bytes'},
    classes=dict(PACKET_CLASSES, Handler={}, Key={'algorithm': 'bytes'}), inline=dict(PACKET_INLINE),
    truthy=PACKET_TRUTHY,
    stubs={'_public_key_alg_map.get': ret('opt[obj:Handler]', 'handler'),
           'handler.decode_ssh_public': decode_ssh_public_stub,
           'handler.make_public': ret('obj:Key', 'key')},
    setup=ssh_public_setup,
    ensures=[('handler-by-embedded-name-whole-blob-consumed', ssh_public_accepts)],
    raises={'KeyImportError': ssh_public_rejects},
    returns='obj:Key')


# ====================================================================== per-algorithm SSH blob codecs (token level)
# encode_ssh_* writes the fields in the documented order; decode_ssh_*, run on exactly that byte layout, returns the
# constructor tuple made of the same values.  mpint(v) is the RFC 4251 mpint encoding as a spec function; its own
# round trip (get_mpint(MPInt(v) ++ r) == v leaving r, minimal form) is the bounded stand-in above.
mpint = z3.Function('mpint', IntS, BytesS)


def MPInt_stub(cx):
    a = cx.args[0]
    if isinstance(a, VOpt):
        cx.require('mpint-argument-is-not-None', z3.Not(a.isnone))
        a = a.val
    t = z3.Const(fresh_name('mpint_bytes'), BytesS)
    return [Out(ret=VBytes(t), assume=[t == mpint(a.z)])]


MPInt_stub.modifies = ()


def get_mpint_stub(cx):
    """assumed contract of SSHPacket.get_mpint (bounded stand-in): on ... ++ mpint(v) ++ rest at the read position it
    returns v and moves the position past that field"""
    from pyvc import bstruct
    pkt = cx.recv
    st = cx.st
    data = cx.ex.get_field(st, pkt, '_packet').z
    idx = cx.ex.get_field(st, pkt, '_idx').z
    ps = bstruct.parts(data)
    bs = bstruct.bounds(ps)
    for i, p in enumerate(ps):
        if bstruct.same_int(idx, bs[i]) and not isinstance(p, int) and z3.is_app(p) and p.decl().name() == 'mpint':
            return [Out(ret=VInt(p.arg(0)), osets=[(pkt, '_idx', VInt(bstruct.norm_len(idx + z3.Length(p))))])]
    raise Unsupported('get_mpint: the read position is not at an mpint field of the structured packet')


get_mpint_stub.modifies = ()
CODEC_ASSUMED = ('in the per-algorithm codec contracts mpint(v) stands for the bytes MPInt(v) writes and get_mpint is its '
                 'inverse: proved below (MPInt / SSHPacket.get_mpint) relative to the spec functions pow2 / bitlen / sbe / '
                 'sunbe; their correspondence to CPython (int.bit_length, signed to_bytes / from_bytes) is definitional + '
                 'cross-checked by the bounded run and the per-path replay')
ASSUMPTIONS.append(CODEC_ASSUMED)


def _codec_encode(module, cls, meth, key_fields, layout, private_guard=None):
    """layout: list of ('mp'|'str', field) or ('strcat', f1, f2)"""
    def term(c, item):
        key = c.oldv('_key')
        f = lambda n: (lambda v: v.val.z if isinstance(v, VOpt) else v.z)(c.oldv(n, key))
        if item[0] == 'mp':
            return mpint(f(item[1]))
        if item[0] == 'str':
            return sstr(f(item[1]))
        return sstr(z3.Concat(f(item[1]), f(item[2])))

    def post(c):
        zs = [term(c, it) for it in layout]
        return c.result == (zs[0] if len(zs) == 1 else z3.Concat(*zs))

    def absent(c):
        v = c.oldv(private_guard[0], c.oldv('_key'))
        return v.isnone if private_guard[1] == 'none' else z3.Not(c.truthy(v))
    return Spec('C15', module, f'{cls}.{meth}', self_class=cls,
                classes={cls: {'_key': 'obj:CK'}, 'CK': key_fields}, stubs={'MPInt': MPInt_stub},
                ensures=[('documented-field-order', post)],
                raises=({'KeyExportError': absent} if private_guard else {}), returns='bytes')


def _codec_decode(module, cls, meth, fields, layout, result, requires=None):
    """fields: {name: 'int'|'bytes'}; layout as above over ghost names; result: fn(g) -> list of z3 terms"""
    def setup(ex, st):
        g = {}
        for n, t in fields.items():
            g[n] = z3.Int(fresh_name('g_' + n)) if t == 'int' else _fresh_b('g_' + n)
        zs = [_fresh_b('g_pre')]
        for it in layout:
            if it[0] == 'mp':
                zs.append(mpint(g[it[1]]))
            elif it[0] == 'str':
                zs.append(_gstr(st, g[it[1]]))
            else:
                zs.append(_gstr(st, z3.Concat(g[it[1]], g[it[2]])))
        zs.append(_fresh_b('g_rest'))
        g['pre'], g['rest'] = zs[0], zs[-1]
        data = z3.Concat(*zs)
        pkt = st.env['packet']
        from pyvc import bstruct
        st.set_field(pkt, '_packet', VBytes(data))
        st.set_field(pkt, '_idx', VInt(z3.Length(zs[0])))
        st.set_field(pkt, '_len', VInt(bstruct.norm_len(z3.Length(data))))
        for k in ('_packet', '_idx', '_len'):
            st.inputs['packet.' + k] = st.rec(pkt).fields[k]
        if requires is not None:
            st.assume(requires(g))
        st.heap['__c15__'] = g
        st.heap['__cut__'] = True

    def post(c):
        want = result(c.old_state.heap['__c15__'])
        r = c.result_v
        if not isinstance(r, VTuple) or len(r.items) != len(want):
            return z3.BoolVal(False)
        pkt = c.argv('packet')
        g = c.old_state.heap['__c15__']
        consumed = c.new('_idx', pkt) == z3.Length(c.new('_packet', pkt)) - z3.Length(g['rest'])
        return z3.And([x.z == w for x, w in zip(r.items, want)] + [consumed])
    return Spec('C15', module, f'{cls}.{meth}', params={'cls': 'any', 'packet': 'obj:SSHPacket'},
                classes=dict(PACKET_CLASSES), inline=dict(PACKET_INLINE), truthy=PACKET_TRUTHY,
                stubs={'packet.get_mpint': get_mpint_stub}, setup=setup,
                ensures=[('same-parameters-as-encoded', post)], raises={}, returns='any')


def _mp(*names):
    return [('mp', n) for n in names]


INTS = lambda *n: {k: 'int' for k in n}
# --- RSA: public = mpint e, mpint n (RFC 4253 6.6); private = n, e, d, iqmp, p, q (PROTOCOL.key / agent protocol)
RSA_CK = dict(n='int', e='int', d='opt[int]', iqmp='opt[int]', p='opt[int]', q='opt[int]')
rsa_enc_pub = _codec_encode('rsa', 'RSAKey', 'encode_ssh_public', RSA_CK, _mp('e', 'n'))
rsa_enc_priv = _codec_encode('rsa', 'RSAKey', 'encode_ssh_private', RSA_CK, _mp('n', 'e', 'd', 'iqmp', 'p', 'q'),
                             private_guard=('d', 'falsy'))
rsa_enc_priv.raises['AssertionError'] = lambda c: z3.Or([c.oldv(n, c.oldv('_key')).isnone for n in ('iqmp', 'p', 'q')])
rsa_dec_pub = _codec_decode('rsa', 'RSAKey', 'decode_ssh_public', INTS('n', 'e'), _mp('e', 'n'),
                            lambda g: [g['n'], g['e']])
# constructor order (n, e, d, p, q, d mod (p-1), d mod (q-1), iqmp): RFC 8017 3.2 CRT exponents
rsa_dec_priv = _codec_decode('rsa', 'RSAKey', 'decode_ssh_private', INTS('n', 'e', 'd', 'iqmp', 'p', 'q'),
                             _mp('n', 'e', 'd', 'iqmp', 'p', 'q'),
                             lambda g: [g['n'], g['e'], g['d'], g['p'], g['q'], g['d'] % (g['p'] - 1),
                                        g['d'] % (g['q'] - 1), g['iqmp']])
# No assumption on the (possibly hostile) field values: RFC 8017 3.2 makes p and q primes, so a blob with p < 2 or
# q < 2 is malformed and must be rejected the way every other malformed blob is (PacketDecodeError, which the
# container reader maps to KeyImportError) - in particular d mod (p-1) must never divide by zero.
rsa_dec_priv.python_mod = True      # exact Python floor-mod for divisors of unknown sign (engine opt-in)
rsa_dec_priv.raises = {'PacketDecodeError': lambda c: z3.Or(G(c, 'p') < 2, G(c, 'q') < 2)}
_rsa_same = rsa_dec_priv.ensures[0][1]
rsa_dec_priv.ensures[0] = ('same-parameters-as-encoded',
                           lambda c: z3.Implies(z3.And(G(c, 'p') >= 2, G(c, 'q') >= 2), _rsa_same(c)))
rsa_dec_priv.ensures.append(('only-prime-sized-factors-accepted', lambda c: z3.And(G(c, 'p') >= 2, G(c, 'q') >= 2)))
# --- DSA: p, q, g, y [, x]  (RFC 4253 6.6)
DSA_CK = dict(p='int', q='int', g='int', y='int', x='opt[int]')
dsa_enc_pub = _codec_encode('dsa', '_DSAKey', 'encode_ssh_public', DSA_CK, _mp('p', 'q', 'g', 'y'))
dsa_enc_priv = _codec_encode('dsa', '_DSAKey', 'encode_ssh_private', DSA_CK, _mp('p', 'q', 'g', 'y', 'x'),
                             private_guard=('x', 'falsy'))
dsa_dec_pub = _codec_decode('dsa', '_DSAKey', 'decode_ssh_public', INTS('p', 'q', 'g', 'y'), _mp('p', 'q', 'g', 'y'),
                            lambda g: [g['p'], g['q'], g['g'], g['y']])
dsa_dec_priv = _codec_decode('dsa', '_DSAKey', 'decode_ssh_private', INTS('p', 'q', 'g', 'y', 'x'),
                             _mp('p', 'q', 'g', 'y', 'x'), lambda g: [g['p'], g['q'], g['g'], g['y'], g['x']])
# --- ECDSA: string curve id, string Q [, mpint d]  (RFC 5656 3.1)
EC_CK = dict(curve_id='bytes', public_value='bytes', d='opt[int]')
EC_PUB = [('str', 'curve_id'), ('str', 'public_value')]
ec_enc_pub = _codec_encode('ecdsa', '_ECKey', 'encode_ssh_public', EC_CK, EC_PUB)
ec_enc_priv = _codec_encode('ecdsa', '_ECKey', 'encode_ssh_private', EC_CK, EC_PUB + [('mp', 'd')],
                            private_guard=('d', 'falsy'))
EC_G = dict(curve_id='bytes', public_value='bytes', d='int')
ec_dec_pub = _codec_decode('ecdsa', '_ECKey', 'decode_ssh_public', EC_G, EC_PUB,
                           lambda g: [g['curve_id'], g['public_value']])
ec_dec_priv = _codec_decode('ecdsa', '_ECKey', 'decode_ssh_private', EC_G, EC_PUB + [('mp', 'd')],
                            lambda g: [g['curve_id'], g['d'], g['public_value']])
# --- Ed25519 / Ed448: string A; private = string A, string k || A  (RFC 8709, agent protocol)
ED_CK = dict(public_value='bytes', private_value='opt[bytes]')
ed_enc_pub = _codec_encode('eddsa', '_EdKey', 'encode_ssh_public', ED_CK, [('str', 'public_value')])
ed_enc_priv = _codec_encode('eddsa', '_EdKey', 'encode_ssh_private', ED_CK,
                            [('str', 'public_value'), ('strcat', 'private_value', 'public_value')],
                            private_guard=('private_value', 'none'))
ED_G = dict(public_value='bytes', private_value='bytes')
ed_dec_pub = _codec_decode('eddsa', '_EdKey', 'decode_ssh_public', ED_G, [('str', 'public_value')],
                           lambda g: [g['public_value']])
ed_dec_priv = _codec_decode('eddsa', '_EdKey', 'decode_ssh_private', ED_G,
                            [('str', 'public_value'), ('strcat', 'private_value', 'public_value')],
                            lambda g: [g['private_value']],
                            requires=lambda g: z3.Length(g['public_value']) > 0)     # 32 / 57 bytes


# ====================================================================== _parse_openssh (one-line public format)
# sshd(8) AUTHORIZED_KEYS: "<keytype> <base64 key> [comment]" - the comment is the REST of the line.  Format limit
# (DESIGN C15 (e)): a comment round-trips iff it has no newline and no leading / trailing blank; blanks and tabs
# inside it are part of the comment and must survive.
def _sym_map(name, vt='any'):
    kt = 'bytes'
    return VMap(z3.Const(name + '$dom', z3.ArraySort(sort_of(kt), BoolS)),
                z3.Const(name + '$val', z3.ArraySort(sort_of(kt), sort_of(vt))), kt, vt)


def _token(st, name):
    """a non-empty run of non-blank bytes"""
    t = _fresh_b(name)
    _no_byte(st, t, *WS6, nonempty=True)
    return t


def parse_openssh_setup(kind):
    def setup(ex, st):
        g = {'alg': _token(st, 'g_alg'), 'b64': _token(st, 'g_b64'), 'kind': kind}
        w1, w2 = _token(st, 'g_word1'), _token(st, 'g_word2')
        g['comment'] = {'none': None, 'word': w1, 'two-blanks': z3.Concat(w1, B(b'  '), w2),
                        'tab': z3.Concat(w1, B(b'\t'), w2), 'one-blank': z3.Concat(w1, B(b' '), w2)}[kind]
        line = z3.Concat(g['alg'], B(b' '), g['b64'])
        if g['comment'] is not None:
            line = z3.Concat(line, B(b' '), g['comment'])
        st.env['data'] = VBytes(line)
        st.inputs['data'] = st.env['data']
        st.heap['__c15__'] = g
        # the module-level algorithm registries are symbolic here; the native harness would consult the real ones
        st.heap['__cut__'] = True
    return setup


def parse_openssh_post(c):
    calls = c.calls('binascii.a2b_base64')
    r = c.result_v
    if len(calls) != 1 or not isinstance(r, VTuple) or len(r.items) != 3:
        return z3.BoolVal(False)
    cm = G(c, 'comment')
    return z3.And(c.eq(r.items[0], VBytes(G(c, 'alg'))),
                  c.is_none(r.items[1]) if cm is None else c.eq(r.items[1], VBytes(cm)),
                  calls[0]['args'][0].z == G(c, 'b64'), c.eq(r.items[2], calls[0]['ret']))


def _known_alg(c):
    return z3.Or(z3.Select(PK_ALG_MAP.dom, G(c, 'alg')), z3.Select(CERT_ALG_MAP.dom, G(c, 'alg')))


PK_ALG_MAP, CERT_ALG_MAP = _sym_map('public_key_alg_map'), _sym_map('certificate_alg_map')


def _parse_openssh_spec(kind):
    return VSpec(
        kind, 'C15', 'public_key', '_parse_openssh', params={'data': 'bytes'},
        globals={'_public_key_alg_map': PK_ALG_MAP, '_certificate_alg_map': CERT_ALG_MAP},
        stubs={'binascii.a2b_base64': may_raise(ret('bytes', 'decoded'), 'binascii.Error')},
        setup=parse_openssh_setup(kind),
        ensures=[('algorithm-blob-and-verbatim-comment', parse_openssh_post),
                 ('only-registered-algorithms', _known_alg)],
        raises={'KeyImportError': lambda c: z3.Or(z3.Not(_known_alg(c)), z3.BoolVal(
            any(x['exc'] is not None for x in c.calls('binascii.a2b_base64'))))},
        returns='tuple[bytes,opt[bytes],bytes]')


parse_openssh_specs = [_parse_openssh_spec(k) for k in ('none', 'word', 'one-blank', 'two-blanks', 'tab')]


# ====================================================================== import dispatch layer
# Which decoder sees which armour body, with which arguments; what happens to the parsed comment; mismatches.
def _mn_result(cx, fmt, info):
    return VTuple([VStr(fmt) if fmt is not None else VNone, VTuple(info), cx.fresh('int', 'end')])


def match_next_stub(cx):
    """callee contract of _match_next (proved above on the exporter families): one of the five shapes"""
    f = cx.fresh
    outs = [_mn_result(cx, 'der', [f('any', 'der_value')]),
            _mn_result(cx, 'pem', [f('bytes', 'pem_name'), f('any', 'pem_headers'), f('bytes', 'pem_data')]),
            _mn_result(cx, None, [])]
    if cx.kwargs.get('public') is not None:
        outs += [_mn_result(cx, 'openssh', [f('bytes', 'line_alg'), f('opt[bytes]', 'line_comment'), f('bytes', 'blob')]),
                 _mn_result(cx, 'rfc4716', [f('opt[bytes]', 'hdr_comment'), f('bytes', 'blob')])]
    n = z3.Length(cx.args[0].z)
    # `end` is an offset into the data that was scanned (DER bytes consumed / end of the armour / len(data))
    return [Out(ret=o, assume=[o.items[2].z >= 0, o.items[2].z <= n]) for o in outs] + [Out(exc=VExc('KeyImportError'))]


match_next_stub.modifies = ()
KEYOBJ = {'Key': {'algorithm': 'bytes'}}
_raising = lambda t, label: may_raise(ret(t, label), 'KeyImportError')


def _first(c, key):
    xs = c.calls(key)
    return xs[0] if xs else None


def decode_public_post(c):
    mns = c.calls('_match_next')
    r = c.result_v
    if not mns or not isinstance(r, VTuple) or len(r.items) != 2:
        return z3.BoolVal(False)
    m0 = mns[0]
    fmt = concrete_str(m0['ret'].items[0]) if m0['ret'].items[0] is not VNone else None
    info = m0['ret'].items[1].items
    conj = [c.eq(m0['args'][0], c.argv('data')), c.eq(m0['args'][1], VBytes(b'PUBLIC KEY')),
            c.truthy(m0['kwargs']['public']) if 'public' in m0['kwargs'] else False,
            # `end`: where the block that produced the key stops (so that list readers continue after it)
            c.eq(r.items[1], (mns[1] if fmt is None and len(mns) == 2 else m0)['ret'].items[2])]
    key = r.items[0]
    sets = c.calls('key.set_comment')

    def only(name, *args):
        x = c.calls(name)
        return z3.And(z3.BoolVal(len(x) == 1), *[c.eq(a, b) for a, b in zip(x[0]['args'], args)],
                      c.eq(key, x[0]['ret'])) if len(x) == 1 and len(x[0]['args']) == len(args) else z3.BoolVal(False)
    if fmt == 'der':
        conj += [only('_decode_der_public', info[0]), _none(sets)]
    elif fmt == 'pem':
        conj += [only('_decode_pem_public', info[0], info[2]), _none(sets)]
    elif fmt in ('openssh', 'rfc4716'):
        blob, comment = info[-1], info[-2]
        conj += [only('decode_ssh_public_key', blob),
                 # the comment found in the file is attached to the key, exactly once, verbatim (None -> no comment)
                 z3.BoolVal(len(sets) == 1) if True else None]
        if len(sets) == 1:
            conj += [c.eq(sets[0]['args'][0], comment), z3.BoolVal(sets[0]['recv'] is key or
                                                                   getattr(sets[0]['recv'], 'addr', 0) == getattr(key, 'addr', 1))]
        if fmt == 'openssh' and isinstance(key, VRef):
            # the algorithm token in front of the base64 text must name the algorithm inside the blob
            conj.append(info[0].z == c.new('algorithm', key))
    else:
        # no public key block: a private key file is accepted as a source of the public key (documented)
        if len(mns) != 2:
            return z3.BoolVal(False)
        m1 = mns[1]
        conj += [c.eq(m1['args'][0], c.argv('data')), c.eq(m1['args'][1], VBytes(b'PRIVATE KEY')),
                 z3.BoolVal('public' not in m1['kwargs'])]
        f1 = concrete_str(m1['ret'].items[0]) if m1['ret'].items[0] is not VNone else None
        i1 = m1['ret'].items[1].items
        osp, dp = c.calls('_decode_openssh_public'), c.calls('_decode_private')
        if osp:
            conj += [z3.BoolVal(f1 == 'pem' and len(osp) == 1 and not dp), i1[0].z == B(b'OPENSSH') if f1 == 'pem' else False,
                     c.eq(osp[0]['args'][0], i1[2]) if f1 == 'pem' else False, c.eq(key, osp[0]['ret'])]
        elif len(dp) == 1:
            conj += [z3.Not(i1[0].z == B(b'OPENSSH')) if f1 == 'pem' else True,
                     c.eq(dp[0]['args'][0], c.argv('data')), c.is_none(dp[0]['args'][1])]
            conv = c.calls('key.convert_to_public')
            pk = dp[0]['ret'].items[0]
            conj += [z3.Implies(c.is_none(pk), c.is_none(key))]
            if conv:
                conj += [c.eq(key, conv[0]['ret']), z3.Not(c.is_none(pk))]
            else:
                conj += [c.is_none(pk)]
        else:
            return z3.BoolVal(False)
    return z3.And([x for x in conj if x is not None])


def decode_public_rejects(c):
    """KeyImportError: a callee rejected the block, or the one-line algorithm token contradicts the blob"""
    callee = any(x['exc'] is not None for x in c.calls())
    keys = c.calls('decode_ssh_public_key')
    m0 = _first(c, '_match_next')
    if callee or m0 is None or m0['ret'] is None:
        return z3.BoolVal(callee)
    if len(keys) == 1 and keys[0]['exc'] is None and concrete_str(m0['ret'].items[0]) == 'openssh':
        return m0['ret'].items[1].items[0].z != c.new('algorithm', keys[0]['ret'])
    return z3.BoolVal(False)


decode_public = Spec(
    'C15', 'public_key', '_decode_public', params={'data': 'bytes'}, classes=dict(KEYOBJ),
    stubs={'_match_next': match_next_stub,
           '_decode_der_public': _raising('obj:Key', 'key'), '_decode_pem_public': _raising('obj:Key', 'key'),
           'decode_ssh_public_key': _raising('obj:Key', 'key'), '_decode_openssh_public': _raising('obj:Key', 'key'),
           '_decode_private': _raising('tuple[opt[obj:Key],opt[int]]', 'private'),
           'key.set_comment': noop('set_comment'), 'key.convert_to_public': ret('obj:Key', 'public_key')},
    ensures=[('decoder-by-format-comment-attached-algorithm-checked', decode_public_post)],
    raises={'KeyImportError': decode_public_rejects}, returns='tuple[opt[obj:Key],opt[int]]')


# ---------------------------------------------------------------------- _decode_private
def decode_private_post(c):
    m0 = _first(c, '_match_next')
    r = c.result_v
    if m0 is None or not isinstance(r, VTuple) or len(r.items) != 2:
        return z3.BoolVal(False)
    fmt = concrete_str(m0['ret'].items[0]) if m0['ret'].items[0] is not VNone else None
    info = m0['ret'].items[1].items
    pp, unsafe = c.argv('passphrase'), c.argv('unsafe_skip_rsa_key_validation')
    conj = [c.eq(m0['args'][0], c.argv('data')), c.eq(m0['args'][1], VBytes(b'PRIVATE KEY')),
            z3.BoolVal('public' not in m0['kwargs']), c.eq(r.items[1], m0['ret'].items[2])]
    der, pem = c.calls('_decode_der_private'), c.calls('_decode_pem_private')
    if fmt == 'der':
        want = [info[0], pp, unsafe]
        conj += [z3.BoolVal(len(der) == 1 and not pem)] + ([c.eq(a, b) for a, b in zip(der[0]['args'], want)] +
                                                           [c.eq(r.items[0], der[0]['ret'])] if len(der) == 1 else [])
    elif fmt == 'pem':
        want = [info[0], info[1], info[2], pp, unsafe]
        conj += [z3.BoolVal(len(pem) == 1 and not der)] + ([c.eq(a, b) for a, b in zip(pem[0]['args'], want)] +
                                                           [c.eq(r.items[0], pem[0]['ret'])] if len(pem) == 1 else [])
    else:
        conj += [z3.BoolVal(not der and not pem), c.is_none(r.items[0])]
    return z3.And(conj)


_callee_raised = lambda c: z3.BoolVal(any(x['exc'] is not None for x in c.calls()))
_priv_callee = lambda label: may_raise(ret('obj:Key', label), 'KeyImportError', 'KeyEncryptionError')
decode_private = Spec(
    'C15', 'public_key', '_decode_private',
    params=dict(data='bytes', passphrase='opt[bytes]', unsafe_skip_rsa_key_validation='opt[bool]'),
    classes=dict(KEYOBJ),
    stubs={'_match_next': match_next_stub, '_decode_der_private': _priv_callee('key'),
           '_decode_pem_private': _priv_callee('key')},
    ensures=[('decoder-by-format-arguments-forwarded', decode_private_post)],
    raises={'KeyImportError': _callee_raised, 'KeyEncryptionError': _callee_raised},
    returns='tuple[opt[obj:Key],opt[int]]')


# ---------------------------------------------------------------------- _decode_pem_public / _decode_pem_private
def decode_pem_public_post(c):
    """RFC 7468 section 13: the bare label (PUBLIC KEY) is a SubjectPublicKeyInfo; `<ALG> PUBLIC KEY` is the
    algorithm's own PKCS#1-style structure, decoded by the handler registered for <ALG>"""
    dd, p1, p8 = c.calls('der_decode'), c.calls('_decode_pkcs1_public'), c.calls('_decode_pkcs8_public')
    if len(dd) != 1:
        return z3.BoolVal(False)
    bare = z3.Length(c.arg('pem_name')) == 0
    conj = [c.eq(dd[0]['args'][0], c.argv('data'))]
    if p8:
        conj += [bare, z3.BoolVal(len(p8) == 1 and not p1), c.eq(p8[0]['args'][0], dd[0]['ret']),
                 c.eq(c.result_v, p8[0]['ret'])]
    elif len(p1) == 1:
        conj += [z3.Not(bare), c.eq(p1[0]['args'][0], c.argv('pem_name')), c.eq(p1[0]['args'][1], dd[0]['ret']),
                 c.eq(c.result_v, p1[0]['ret'])]
    else:
        return z3.BoolVal(False)
    return z3.And(conj)


decode_pem_public = Spec(
    'C15', 'public_key', '_decode_pem_public', params=dict(pem_name='bytes', data='bytes'), classes=dict(KEYOBJ),
    stubs={'der_decode': may_raise(ret('any', 'der_value'), 'ASN1DecodeError'),
           '_decode_pkcs1_public': _raising('obj:Key', 'key'), '_decode_pkcs8_public': _raising('obj:Key', 'key')},
    ensures=[('label-selects-pkcs1-or-spki-decoder', decode_pem_public_post)],
    raises={'KeyImportError': _callee_raised}, returns='obj:Key')


def pem_private_setup(kind):
    def setup(ex, st):
        g = {'kind': kind}
        if kind == 'dek':
            # header map as _parse_pem returns it for the RFC 1421 headers (contract above)
            g['alg'], g['iv'] = _fresh_b('g_dek_alg'), _fresh_b('g_hex_iv')
            _no_byte(st, g['alg'], ord(','), nonempty=True)
            _no_byte(st, g['iv'], ord(','), nonempty=True)
            hd = VDict({b'Proc-Type': VBytes(b'4,ENCRYPTED'), b'DEK-Info': VBytes(z3.Concat(g['alg'], B(b','), g['iv']))})
        elif kind == 'dek-malformed':
            g['alg'] = _fresh_b('g_dek_alg')
            _no_byte(st, g['alg'], ord(','))
            hd = VDict({b'Proc-Type': VBytes(b'4,ENCRYPTED'), b'DEK-Info': VBytes(g['alg'])})     # no ",<iv>"
        else:
            hd = VDict({})
        st.env['headers'] = st.alloc(hd)
        st.inputs['headers'] = st.env['headers']
        st.heap['__c15__'] = g
    return setup


def decode_pem_private_post(c):
    """Decision table (RFC 7468 10/11, RFC 1421 4.6.1, PROTOCOL.key):
       OPENSSH           -> the container reader gets (data, passphrase, flag)
       Proc-Type header  -> PKCS#1 legacy encryption: pkcs1_decrypt(data, DEK alg, unhex(DEK iv), passphrase) first
       ENCRYPTED         -> EncryptedPrivateKeyInfo: pkcs8_decrypt(der, passphrase), then PrivateKeyInfo
       bare              -> PrivateKeyInfo;   <ALG> -> the algorithm's own structure via the handler for <ALG>"""
    name, pp, unsafe = c.arg('pem_name'), c.argv('passphrase'), c.argv('unsafe_skip_rsa_key_validation')
    kind = G(c, 'kind')
    osh, d1, d8, dd, u1, u8, hx = (c.calls(k) for k in ('_decode_openssh_private', '_decode_pkcs1_private',
                                                         '_decode_pkcs8_private', 'der_decode', 'pkcs1_decrypt',
                                                         'pkcs8_decrypt', 'binascii.a2b_hex'))
    is_osh, is_enc, bare = name == B(b'OPENSSH'), name == B(b'ENCRYPTED'), z3.Length(name) == 0
    if osh:
        return z3.And(is_osh, z3.BoolVal(len(osh) == 1 and not (d1 or d8 or dd or u1 or u8)),
                      c.eq(osh[0]['args'][0], c.argv('data')), c.eq(osh[0]['args'][1], pp),
                      c.eq(osh[0]['args'][2], unsafe), c.eq(c.result_v, osh[0]['ret']))
    if len(dd) != 1:
        return z3.BoolVal(False)
    conj = [z3.Not(is_osh)]
    body = c.argv('data')
    if kind == 'dek':
        if len(u1) != 1 or len(hx) != 1:
            return z3.BoolVal(False)
        a = u1[0]['args']
        conj += [z3.Not(pp.isnone), c.eq(a[0], c.argv('data')), a[1].z == G(c, 'alg'),
                 hx[0]['args'][0].z == G(c, 'iv'), c.eq(a[2], hx[0]['ret']), c.eq(a[3], pp.val)]
        body = u1[0]['ret']
    else:
        conj.append(z3.BoolVal(not u1))
    conj.append(c.eq(dd[0]['args'][0], body))
    keydata = dd[0]['ret']
    if u8:
        conj += [is_enc, z3.Not(pp.isnone), z3.BoolVal(len(u8) == 1), c.eq(u8[0]['args'][0], dd[0]['ret']),
                 c.eq(u8[0]['args'][1], pp.val)]
        keydata = u8[0]['ret']
    else:
        conj.append(z3.Not(is_enc))
    if d8:
        conj += [z3.Or(bare, is_enc), z3.BoolVal(len(d8) == 1 and not d1), c.eq(d8[0]['args'][0], keydata),
                 c.eq(d8[0]['args'][1], unsafe), c.eq(c.result_v, d8[0]['ret'])]
    elif len(d1) == 1:
        conj += [z3.Not(z3.Or(bare, is_enc)), c.eq(d1[0]['args'][0], c.argv('pem_name')), c.eq(d1[0]['args'][1], keydata),
                 c.eq(d1[0]['args'][2], unsafe), c.eq(c.result_v, d1[0]['ret'])]
    else:
        return z3.BoolVal(False)
    return z3.And(conj)


def decode_pem_private_rejects(c):
    pp = c.argv('passphrase')
    kind = G(c, 'kind')
    enc_label = c.arg('pem_name') == B(b'ENCRYPTED')
    reasons = [_callee_raised(c), z3.And(pp.isnone, z3.Or(enc_label, z3.BoolVal(kind in ('dek', 'dek-malformed')))),
               z3.BoolVal(kind == 'dek-malformed')]
    return z3.And(c.arg('pem_name') != B(b'OPENSSH'), z3.Or(reasons)) if not c.calls('_decode_openssh_private') \
        else _callee_raised(c)


def _pem_private_spec(kind):
    return VSpec(
        kind, 'C15', 'public_key', '_decode_pem_private',
        params=dict(pem_name='bytes', headers='any', data='bytes', passphrase='opt[bytes]',
                    unsafe_skip_rsa_key_validation='opt[bool]'),
        classes=dict(KEYOBJ), setup=pem_private_setup(kind),
        stubs={'_decode_openssh_private': _priv_callee('key'),
               'binascii.a2b_hex': may_raise(ret('bytes', 'iv'), 'binascii.Error'),
               'pkcs1_decrypt': may_raise(ret('bytes', 'decrypted'), 'KeyEncryptionError'),
               'pkcs8_decrypt': may_raise(ret('any', 'private_key_info'), 'KeyEncryptionError'),
               'der_decode': may_raise(ret('any', 'der_value'), 'ASN1DecodeError'),
               '_decode_pkcs1_private': _raising('obj:Key', 'key'), '_decode_pkcs8_private': _raising('obj:Key', 'key')},
        ensures=[('label-and-headers-select-decryption-and-decoder', decode_pem_private_post)],
        raises={'KeyImportError': decode_pem_private_rejects,
                'KeyEncryptionError': lambda c: z3.BoolVal(any(x['exc'] is not None
                                                               for x in c.calls('_decode_openssh_private')))},
        returns='obj:Key')


decode_pem_private_specs = [_pem_private_spec(k) for k in ('plain', 'dek', 'dek-malformed')]


# ---------------------------------------------------------------------- _decode_pkcs8_private / _public
# Run on the value the exporter hands to der_encode (proved above): PrivateKeyInfo (version, (oid[, params]), key)
# and SubjectPublicKeyInfo ((oid[, params]), BIT STRING); plus values that are not of that shape.
RSA_OID = VOpaque(z3.Const('rsa_encryption_oid', opaque_sort('Any')), 'Any')      # ObjectIdentifier('1.2.840.113549.1.1.1')


def pkcs8_setup(public, shape):
    def setup(ex, st):
        g = {'shape': shape, 'public': public, 'oid': ex.fresh(st, 'any', 'g_oid'),
             'params': ex.fresh(st, 'any', 'g_params'), 'key': _fresh_b('g_key_octets'),
             'version': z3.Int(fresh_name('g_version')), 'unused': z3.Int(fresh_name('g_unused_bits'))}
        algid = VTuple([g['oid']] + ([g['params']] if shape == 'with-params' else []))
        if shape == 'not-a-sequence':
            kd = VBytes(g['key'])
        elif public:
            g['bits'] = ex.new_object(st, 'BitString', 'g_bits')
            st.set_field(g['bits'], 'value', VBytes(g['key']))
            st.set_field(g['bits'], 'unused', VInt(g['unused']))
            kd = VTuple([algid, g['bits']])
        else:
            kd = VTuple([VInt(g['version']), algid, VBytes(g['key'])])
        st.env['key_data'] = kd
        st.inputs['key_data'] = kd
        st.heap['__c15__'] = g
    return setup


def pkcs8_accepts(c):
    """RFC 5208 5 / RFC 5958 2 (version v1 = 0, v2 = 1) resp. RFC 5280 4.1 (no unused bits in a key BIT STRING):
    the handler is the one registered for the algorithm OID in the AlgorithmIdentifier; it decodes (parameters or
    OMIT, key octets); the constructor gets its tuple (+ the RSA validation flag for rsaEncryption private keys)"""
    public = G(c, 'public')
    gets = c.calls('_pkcs8_oid_map.get')
    decs = c.calls('handler.decode_pkcs8_public' if public else 'handler.decode_pkcs8_private')
    makes = c.calls('handler.make_public' if public else 'handler.make_private')
    if G(c, 'shape') == 'not-a-sequence' or not (len(gets) == len(decs) == len(makes) == 1):
        return z3.BoolVal(False)
    conj = [c.eq(gets[0]['args'][0], G(c, 'oid')), c.eq(decs[0]['args'][1], VBytes(G(c, 'key'))),
            c.eq(decs[0]['args'][0], G(c, 'params') if G(c, 'shape') == 'with-params' else VTag('class:OMIT')),
            c.eq(c.result_v, makes[0]['ret'])]
    got, dec = makes[0]['args'][0], decs[0]['ret'].val
    if public:
        conj += [G(c, 'unused') == 0, c.eq(got, dec)]
    else:
        is_rsa = c.eq(G(c, 'oid'), RSA_OID)
        conj.append(z3.Or(G(c, 'version') == 0, G(c, 'version') == 1))
        if isinstance(got, VTuple) and len(got.items) == len(dec.items) + 1:
            conj += [is_rsa, c.eq(got.items[-1], c.argv('unsafe_skip_rsa_key_validation'))] + \
                    [c.eq(a, b) for a, b in zip(got.items, dec.items)]
        else:
            conj += [z3.Not(is_rsa), c.eq(got, dec)]
    return z3.And(conj)


def pkcs8_rejects(c):
    public = G(c, 'public')
    gets = c.calls('_pkcs8_oid_map.get')
    decs = c.calls('handler.decode_pkcs8_public' if public else 'handler.decode_pkcs8_private')
    reasons = [z3.BoolVal(G(c, 'shape') == 'not-a-sequence'), _callee_raised(c)]
    if G(c, 'shape') != 'not-a-sequence':
        reasons.append(G(c, 'unused') != 0 if public else z3.Not(z3.Or(G(c, 'version') == 0, G(c, 'version') == 1)))
    if len(gets) == 1 and not decs:
        reasons.append(gets[0]['ret'].isnone)
    if len(decs) == 1 and decs[0]['exc'] is None:
        reasons.append(decs[0]['ret'].isnone)
    return z3.Or(reasons)


def _ascii_pem_name(cx, v):
    """registered handlers carry ASCII pem_name class constants (b'RSA', b'DSA', b'EC', b'' - data in the repo)"""
    ok = z3.Function('decodable_ascii', BytesS, BoolS)
    return ok(cx.ex.get_field(cx.st, v.val, 'pem_name').z)


def _pkcs8_spec(public, shape):
    params = {'key_data': 'any'}
    if not public:
        params['unsafe_skip_rsa_key_validation'] = 'opt[bool]'
    side = 'public' if public else 'private'
    return VSpec(
        shape, 'C15', 'public_key', f'_decode_pkcs8_{side}', params=params,
        classes=dict(KEYOBJ, Handler={'pem_name': 'bytes'}, BitString={'value': 'bytes', 'unused': 'int'}),
        globals={'OMIT': VTag('class:OMIT')}, setup=pkcs8_setup(public, shape),
        stubs={'_pkcs8_oid_map.get': ret('opt[obj:Handler]', 'handler', assume=_ascii_pem_name),
               'ObjectIdentifier': lambda cx: RSA_OID,
               f'handler.decode_pkcs8_{side}': ret('opt[tuple[any,any]]', 'key_params'),
               f'handler.make_{side}': _raising('obj:Key', 'key')},
        ensures=[('handler-by-oid-parameters-and-key-octets-forwarded', pkcs8_accepts)],
        raises={'KeyImportError': pkcs8_rejects},
        returns='obj:Key')


pkcs8_specs = [_pkcs8_spec(pub, sh) for pub in (False, True) for sh in ('with-params', 'omitted-params', 'not-a-sequence')]


# ---------------------------------------------------------------------- _decode_pkcs1_private / _public
def pkcs1_dec_post(public):
    side = 'public' if public else 'private'

    def post(c):
        gets, decs, makes = c.calls('_pem_map.get'), c.calls(f'handler.decode_pkcs1_{side}'), \
            c.calls(f'handler.make_{side}')
        if not (len(gets) == len(decs) == len(makes) == 1):
            return z3.BoolVal(False)
        got, dec = makes[0]['args'][0], decs[0]['ret'].val
        conj = [c.eq(gets[0]['args'][0], c.argv('pem_name')), c.eq(decs[0]['args'][0], c.argv('key_data')),
                c.eq(c.result_v, makes[0]['ret'])]
        is_rsa = c.arg('pem_name') == B(b'RSA')
        if not public and isinstance(got, VTuple) and len(got.items) == len(dec.items) + 1:
            conj += [is_rsa, c.eq(got.items[-1], c.argv('unsafe_skip_rsa_key_validation'))] + \
                    [c.eq(a, b) for a, b in zip(got.items, dec.items)]
        else:
            conj += [c.eq(got, dec)] + ([] if public else [z3.Not(is_rsa)])
        return z3.And(conj)
    return post


def pkcs1_dec_rejects(public):
    side = 'public' if public else 'private'

    def rej(c):
        gets, decs = c.calls('_pem_map.get'), c.calls(f'handler.decode_pkcs1_{side}')
        reasons = [_callee_raised(c)]
        if len(gets) == 1 and not decs:
            reasons.append(gets[0]['ret'].isnone)
        if len(decs) == 1:
            reasons.append(decs[0]['ret'].isnone)
        return z3.Or(reasons)
    return rej


def _pkcs1_dec_spec(public):
    side = 'public' if public else 'private'
    params = {'pem_name': 'bytes', 'key_data': 'any'}
    if not public:
        params['unsafe_skip_rsa_key_validation'] = 'opt[bool]'
    return Spec(
        'C15', 'public_key', f'_decode_pkcs1_{side}', params=params, classes=dict(KEYOBJ, Handler={}),
        stubs={'_pem_map.get': ret('opt[obj:Handler]', 'handler'),
               f'handler.decode_pkcs1_{side}': ret('opt[tuple[any,any]]', 'key_params'),
               f'handler.make_{side}': _raising('obj:Key', 'key')},
        ensures=[('handler-by-pem-name-structure-forwarded', pkcs1_dec_post(public))],
        # the message formatting decodes the (file supplied) label as ASCII: ValueError family, mapped by import_*_key
        raises={'KeyImportError': pkcs1_dec_rejects(public),
                'UnicodeDecodeError': lambda c: z3.BoolVal(not c.calls(f'handler.make_{side}'))},
        returns='obj:Key')


decode_pkcs1_private, decode_pkcs1_public = _pkcs1_dec_spec(False), _pkcs1_dec_spec(True)


# ---------------------------------------------------------------------- _decode_der_private / _public
PEM_NAMES = (b'RSA', b'EC', b'DSA')        # keys of _pem_map (registration order): pem_name constants of the handlers


def der_dispatch_post(public):
    side = 'public' if public else 'private'

    def post(c):
        """bare DER carries no label: PKCS#8 / SPKI is tried first, then every registered PKCS#1 structure; the key
        is what the first accepting decoder returned, and each decoder saw the (decrypted, if possible) value"""
        p8, p1, dec = c.calls(f'_decode_pkcs8_{side}'), c.calls(f'_decode_pkcs1_{side}'), c.calls('pkcs8_decrypt')
        kd = c.argv('key_data')
        conj = []
        if not public:
            pp = c.argv('passphrase')
            conj.append(z3.BoolVal(len(dec) <= 1))
            if dec:
                conj += [z3.Not(pp.isnone), c.eq(dec[0]['args'][0], c.argv('key_data')), c.eq(dec[0]['args'][1], pp.val)]
                if dec[0]['exc'] is None:
                    kd = dec[0]['ret']
            else:
                conj.append(pp.isnone)
        tried = p8 + p1
        if len(p8) != 1 or not tried or tried[-1]['exc'] is not None or any(x['exc'] is None for x in tried[:-1]):
            return z3.BoolVal(False)
        conj += [c.eq(x['args'][0 if x in p8 else 1], kd) for x in tried]
        # every registered PKCS#1 name is tried at most once (the order is not part of the property)
        names = [concrete_bytes(x['args'][0]) for x in p1]
        conj.append(z3.BoolVal(all(n in PEM_NAMES for n in names) and len(set(names)) == len(names)))
        if not public:
            conj += [c.eq(x['args'][-1], c.argv('unsafe_skip_rsa_key_validation')) for x in tried]
        conj.append(c.eq(c.result_v, tried[-1]['ret']))
        return z3.And(conj)
    return post


def _der_dispatch_spec(public):
    side = 'public' if public else 'private'
    params = {'key_data': 'any'}
    stubs = {f'_decode_pkcs8_{side}': _raising('obj:Key', 'key'), f'_decode_pkcs1_{side}': _raising('obj:Key', 'key')}
    if not public:
        params.update(passphrase='opt[bytes]', unsafe_skip_rsa_key_validation='opt[bool]')
        stubs['pkcs8_decrypt'] = may_raise(ret('any', 'private_key_info'), 'KeyEncryptionError')
    n = len(PEM_NAMES)
    return Spec(
        'C15', 'public_key', f'_decode_der_{side}', params=params, classes=dict(KEYOBJ), stubs=stubs,
        globals={'_pem_map': VTuple([VBytes(x) for x in PEM_NAMES])},
        ensures=[('pkcs8-then-each-pkcs1-first-success-wins', der_dispatch_post(public))],
        raises={'KeyImportError': lambda c: z3.BoolVal(
            len(c.calls(f'_decode_pkcs8_{side}')) == 1 and len(c.calls(f'_decode_pkcs1_{side}')) == n and
            all(x['exc'] is not None for x in c.calls(f'_decode_pkcs8_{side}') + c.calls(f'_decode_pkcs1_{side}')))},
        returns='obj:Key')


decode_der_private, decode_der_public = _der_dispatch_spec(False), _der_dispatch_spec(True)


# ---------------------------------------------------------------------- _decode_openssh_public
def openssh_public_setup(ex, st):
    openssh_private_setup(True)(ex, st)      # any cipher name: the public part is never encrypted
    st.heap['__cut__'] = False


def openssh_public_post(c):
    """PROTOCOL.key: the public key blob is the fifth field; it is decoded as an RFC 4253 6.6 key blob"""
    d = c.calls('decode_ssh_public_key')
    if len(d) != 1:
        return z3.BoolVal(False)
    return z3.And(G(c, 'nkeys') == 1, d[0]['args'][0].z == G(c, 'pubkey'), c.eq(c.result_v, d[0]['ret']))


decode_openssh_public = Spec(
    'C15', 'public_key', '_decode_openssh_public', params={'data': 'bytes'},
    classes=dict(PACKET_CLASSES, **KEYOBJ), inline=dict(PACKET_INLINE), truthy=PACKET_TRUTHY,
    stubs={'decode_ssh_public_key': _raising('obj:Key', 'key')}, setup=openssh_public_setup,
    ensures=[('public-blob-of-the-container', openssh_public_post)],
    raises={'KeyImportError': lambda c: z3.Or(G(c, 'nkeys') != 1, _callee_raised(c))}, returns='obj:Key')


# ---------------------------------------------------------------------- import_private_key / import_public_key (API)
def _api_spec(name, callee, extra_params, callee_excs, allowed):
    def post(c):
        d = c.calls(callee)
        if len(d) != 1:
            return z3.BoolVal(False)
        key = d[0]['ret'].items[0]
        want_data = c.argv('data')
        return z3.And(c.eq(d[0]['args'][0], want_data) if isinstance(want_data, VBytes) else z3.BoolVal(True),
                      z3.Not(c.is_none(key)), c.eq(c.result_v, key.val if isinstance(key, VOpt) else key),
                      *[c.eq(a, c.argv(p)) for a, p in zip(d[0]['args'][1:], extra_params)])

    def spec(variant, dtype):
        return VSpec(variant, 'C15', 'public_key', name, params=dict({'data': dtype}, **extra_params),
                     classes=dict(KEYOBJ),
                     stubs={callee: may_raise(ret('tuple[opt[obj:Key],opt[int]]', 'decoded'), *callee_excs)},
                     ensures=[('the-decoded-key-or-an-error', post)],
                     # the documented failure modes, and nothing else, for ANY input (every ValueError / OverflowError
                     # raised below is turned into KeyImportError here)
                     raises={k: True for k in allowed}, returns='obj:Key')
    return [spec('bytes', 'bytes'), spec('str', 'str')]


import_private_key_specs = _api_spec(
    'import_private_key', '_decode_private',
    {'passphrase': 'opt[bytes]', 'unsafe_skip_rsa_key_validation': 'opt[bool]'},
    ('KeyImportError', 'KeyEncryptionError', 'ValueError', 'UnicodeDecodeError', 'OverflowError'),
    ('KeyImportError', 'KeyEncryptionError'))
import_public_key_specs = _api_spec(
    'import_public_key', '_decode_public', {},
    ('KeyImportError', 'ValueError', 'UnicodeDecodeError', 'OverflowError'), ('KeyImportError',))


# ====================================================================== certificates (format layer)
CERT_FIELDS = {'is_x509': 'bool', 'public_data': 'bytes', 'algorithm': 'bytes', '_comment': 'opt[bytes]'}
CERT_FORMATS = ('der', 'pem', 'openssh', 'rfc4716')


def export_certificate_post(c):
    """X.509 certificates: raw DER, or RFC 7468 section 5 `CERTIFICATE` armour; OpenSSH certificates: the one-line
    form `<algorithm> <base64> [comment]` or RFC 4716 armour with the Comment header - same shapes as public keys"""
    wraps = c.calls('wrap_base64')
    pub = c.old('public_data')
    cv, no_comment = _comment_term(c)
    fmt = lambda *n: _fmt(c, *n)
    conj = [z3.Implies(fmt('der', 'pem'), c.old('is_x509')), z3.Implies(fmt('rfc4716'), z3.Not(c.old('is_x509')))]
    if not wraps:
        line = lambda tail: z3.Concat(c.old('algorithm'), B(b' '), b64(pub), tail, B(b'\n'))
        conj += [z3.Not(fmt('pem', 'rfc4716')), z3.Implies(fmt('der'), c.result == pub),
                 z3.Implies(z3.And(fmt('openssh'), no_comment), c.result == line(z3.Empty(BytesS))),
                 z3.Implies(z3.And(fmt('openssh'), z3.Not(no_comment)), c.result == line(z3.Concat(B(b' '), cv.val.z)))]
    elif len(wraps) == 1:
        w = wraps[0]
        a = w['args']
        pem = z3.And(z3.BoolVal(len(a) == 2 and not w['kwargs']), a[1].z == B(b'CERTIFICATE'))
        r47 = z3.BoolVal(False)
        if len(a) == 3 and set(w['kwargs']) == {'space'}:
            r47 = z3.And(a[1].z == B(b'SSH2 PUBLIC KEY'), c.truthy(w['kwargs']['space']),
                         z3.Implies(no_comment, a[2].z == z3.Empty(BytesS)),
                         z3.Implies(z3.Not(no_comment), a[2].z == z3.Concat(B(b'Comment: "'), cv.val.z, B(b'"\n'))))
        conj += [fmt('pem', 'rfc4716'), a[0].z == pub, c.result == w['ret'].z, z3.Implies(fmt('pem'), pem),
                 z3.Implies(fmt('rfc4716'), r47)]
    else:
        return z3.BoolVal(False)
    return z3.And(conj)


export_certificate = Spec(
    'C15', 'public_key', 'SSHCertificate.export_certificate', self_class='SSHCertificate',
    params={'format_name': 'str'}, classes={'SSHCertificate': CERT_FIELDS},
    stubs={'wrap_base64': ret('bytes', 'armoured'), 'binascii.b2a_base64': b2a_base64_stub},
    ensures=[('format-shapes', export_certificate_post), ('known-format', lambda c: _fmt(c, *CERT_FORMATS))],
    raises={'KeyExportError': lambda c: z3.Or(z3.Not(_fmt(c, *CERT_FORMATS)),
                                              z3.And(c.old('is_x509'), _fmt(c, 'rfc4716')),
                                              z3.And(z3.Not(c.old('is_x509')), _fmt(c, 'der', 'pem')))},
    returns='bytes')


def decode_certificate_post(c):
    m0 = _first(c, '_match_next')
    r = c.result_v
    if m0 is None or not isinstance(r, VTuple) or len(r.items) != 2:
        return z3.BoolVal(False)
    fmt = concrete_str(m0['ret'].items[0]) if m0['ret'].items[0] is not VNone else None
    info = m0['ret'].items[1].items
    end = m0['ret'].items[2]
    der, pem, ssh = c.calls('_decode_der_certificate'), c.calls('_decode_pem_certificate'), c.calls('decode_ssh_certificate')
    conj = [c.eq(m0['args'][0], c.argv('data')), c.eq(m0['args'][1], VBytes(b'CERTIFICATE')),
            c.truthy(m0['kwargs']['public']) if 'public' in m0['kwargs'] else False, c.eq(r.items[1], end)]
    calls = der + pem + ssh
    if fmt is None:
        return z3.And(z3.BoolVal(not calls), c.is_none(r.items[0]), *conj)
    if len(calls) != 1:
        return z3.BoolVal(False)
    conj.append(c.eq(r.items[0], calls[0]['ret']))
    a = calls[0]['args']
    if fmt == 'der':
        # the DER certificate is exactly the bytes der_decode_partial consumed
        conj += [z3.BoolVal(len(der) == 1 and len(a) == 1), a[0].z == z3.Extract(c.arg('data'), 0, end.z)]
    elif fmt == 'pem':
        conj += [z3.BoolVal(len(pem) == 1), c.eq(a[0], info[0]), c.eq(a[1], info[2])]
    elif fmt == 'rfc4716':
        conj += [z3.BoolVal(len(ssh) == 1), c.eq(a[0], info[1]), c.eq(a[1], info[0])]
    else:
        x509 = z3.PrefixOf(B(b'x509v3-'), info[0].z)
        conj += [c.eq(a[0], info[2]), c.eq(a[1], info[1]), x509 if der else z3.Not(x509)]
    return z3.And(conj)


_cert_callee = lambda: _raising('obj:Key', 'cert')
decode_certificate = Spec(
    'C15', 'public_key', '_decode_certificate', params={'data': 'bytes'}, classes=dict(KEYOBJ),
    stubs={'_match_next': match_next_stub, '_decode_der_certificate': _cert_callee(),
           '_decode_pem_certificate': _cert_callee(), 'decode_ssh_certificate': _cert_callee()},
    ensures=[('decoder-by-format-comment-forwarded', decode_certificate_post)],
    raises={'KeyImportError': _callee_raised}, returns='tuple[opt[obj:Key],opt[int]]')


# ---------------------------------------------------------------------- list readers (files holding several keys)
# Spec functions over the text: first_key(d) / first_none(d) / first_end(d) = what the single-block decoder returns
# for d (deterministic callee, other arguments fixed); keys_of(d) = the keys of all blocks, defined by
#   keys_of(empty) = [],  keys_of(d) = ([first_key(d)] unless first_none(d)) ++ keys_of(d[first_end(d):]).
KeyObjS = opaque_sort('KeyObj')
first_key = z3.Function('first_key', BytesS, KeyObjS)
first_none = z3.Function('first_none', BytesS, BoolS)
first_end = z3.Function('first_end', BytesS, IntS)
keys_of = z3.Function('keys_of', BytesS, z3.SeqSort(KeyObjS))


def _keys_unfold(d):
    """definitional instance of keys_of at d"""
    n = z3.Length(d)
    e = first_end(d)
    rest = z3.Extract(d, e, n - e)
    head = z3.If(first_none(d), z3.Empty(z3.SeqSort(KeyObjS)), z3.Unit(first_key(d)))
    return z3.And(z3.Implies(n == 0, keys_of(d) == z3.Empty(z3.SeqSort(KeyObjS))),
                  z3.Implies(n > 0, keys_of(d) == z3.Concat(head, keys_of(rest))))


def block_decoder_stub(extra):
    def stub(cx):
        d = cx.args[0].z
        for a, p in zip(cx.args[1:], extra):
            cx.require(f'{p}-forwarded-unchanged', cx.ex.veq(cx.st, a, cx.ex.entry_state.env[p]))
        key = VOpt(first_none(d), VOpaque(first_key(d), 'KeyObj'))
        # callee contract: the block found ends inside the text and is not empty (proved per family for _match_next)
        return [Out(ret=VTuple([key, VInt(first_end(d))]), assume=[first_end(d) >= 1, first_end(d) <= z3.Length(d)]),
                Out(exc=VExc('KeyImportError'))]
    stub.modifies = ()
    return stub


def _cur_keys(c, name='keys'):
    v = c.ex.deref(c.new_state, c.localv(name))
    return to_z3(v, 'seq[opaque:KeyObj]') if isinstance(v, VList) else v.z


def _list_spec(name, callee, extra, acc='keys', item='key'):
    return Spec(
        'C15', 'public_key', name, params=dict({'data': 'bytes'}, **extra), stubs={callee: block_decoder_stub(list(extra))},
        local_types={acc: 'seq[opaque:KeyObj]', item: 'opt[opaque:KeyObj]'},
        loops={1: LoopSpec(
            invariant=lambda c: z3.Concat(_cur_keys(c, acc), keys_of(c.local('data'))) == keys_of(c.arg('data')),
            variant=lambda c: z3.Length(c.local('data')),
            lemmas=lambda c: [_keys_unfold(c.local('data'))] +
                             ([_keys_unfold(c.head.env['data'].z)] if getattr(c, 'head', None) is not None else []))},
        ensures=[('every-block-read-once-in-order-none-skipped',
                  lambda c: to_z3_seq(c.result_v, c) == keys_of(c.arg('data')))],
        raises={'KeyImportError': True}, returns='seq[opaque:KeyObj]')


def to_z3_seq(v, c):
    v = c.ex.deref(c.new_state, v)
    return to_z3(v, 'seq[opaque:KeyObj]') if isinstance(v, VList) else v.z


PP_UNSAFE = {'passphrase': 'opt[bytes]', 'unsafe_skip_rsa_key_validation': 'opt[bool]'}
decode_private_list = _list_spec('_decode_private_list', '_decode_private', PP_UNSAFE)
decode_public_list = _list_spec('_decode_public_list', '_decode_public', {})
decode_certificate_list = _list_spec('_decode_certificate_list', '_decode_certificate', {}, 'certs', 'cert')


# ====================================================================== PKCS#1 / SEC1 / PKCS#8 structures (RSA, EC)
RSA_CK_FULL = dict(RSA_CK, dmp1='opt[int]', dmq1='opt[int]')


def _kf(c, n):
    v = c.oldv(n, c.oldv('_key'))
    return v


def _tuple_is(c, got, want):
    return z3.And([c.eq(a, b) for a, b in zip(got.items, want)]) \
        if isinstance(got, VTuple) and len(got.items) == len(want) else z3.BoolVal(False)


# RFC 8017 A.1.2: RSAPrivateKey ::= SEQUENCE { version 0, n, e, d, p, q, d mod (p-1), d mod (q-1), q^-1 mod p }
rsa_pkcs1_priv = Spec(
    'C15', 'rsa', 'RSAKey.encode_pkcs1_private', self_class='RSAKey',
    classes={'RSAKey': {'_key': 'obj:CK'}, 'CK': RSA_CK_FULL},
    ensures=[('rfc8017-RSAPrivateKey-field-order', lambda c: _tuple_is(
        c, c.result_v, [VInt(0)] + [_kf(c, n) for n in ('n', 'e', 'd', 'p', 'q', 'dmp1', 'dmq1', 'iqmp')]))],
    raises={'KeyExportError': lambda c: z3.Not(c.truthy(_kf(c, 'd')))}, returns='any')
# RFC 8017 A.1.1: RSAPublicKey ::= SEQUENCE { modulus n, publicExponent e }
rsa_pkcs1_pub = Spec(
    'C15', 'rsa', 'RSAKey.encode_pkcs1_public', self_class='RSAKey',
    classes={'RSAKey': {'_key': 'obj:CK'}, 'CK': RSA_CK_FULL},
    ensures=[('rfc8017-RSAPublicKey-field-order', lambda c: _tuple_is(c, c.result_v, [_kf(c, 'n'), _kf(c, 'e')]))],
    raises={}, returns='any')


def _rsa_p8(side):
    # RFC 8017 A.1 / RFC 3279 2.3.1: rsaEncryption parameters are NULL; the key octets are the DER RSA*Key
    def post(c):
        enc, inner = c.calls('der_encode'), c.calls(f'self.encode_pkcs1_{side}')
        r = c.result_v
        if len(enc) != 1 or len(inner) != 1 or not isinstance(r, VTuple) or len(r.items) != 2:
            return z3.BoolVal(False)
        return z3.And(z3.BoolVal(r.items[0] is VNone), c.eq(enc[0]['args'][0], inner[0]['ret']), c.eq(r.items[1], enc[0]['ret']))
    return Spec('C15', 'rsa', f'RSAKey.encode_pkcs8_{side}', self_class='RSAKey', classes={'RSAKey': {}},
                stubs={'der_encode': ret('bytes', 'der'),
                       f'self.encode_pkcs1_{side}': may_raise(ret('any', 'structure'), 'KeyExportError')},
                ensures=[('null-parameters-and-der-of-the-pkcs1-structure', post)],
                raises={'KeyExportError': _callee_raised}, returns='any')


rsa_pkcs8_priv, rsa_pkcs8_pub = _rsa_p8('private'), _rsa_p8('public')


def rsa_pkcs1_dec_setup(n_items):
    def setup(ex, st):
        g = {'items': [z3.Int(fresh_name('g_int%d' % i)) for i in range(n_items)]}
        st.env['key_data'] = VTuple([VInt(z) for z in g['items']])
        st.inputs['key_data'] = st.env['key_data']
        st.heap['__c15__'] = g
    return setup


# the reader of an RSAPrivateKey of 9 integers returns (n, e, d, p, q, dP, dQ, qInv) = items 1..8, in order
rsa_pkcs1_dec_priv = Spec(
    'C15', 'rsa', 'RSAKey.decode_pkcs1_private', params={'cls': 'any', 'key_data': 'any'},
    stubs={'all_ints': lambda cx: VBool(all(isinstance(x, VInt) for x in cx.args[0].items))},
    setup=rsa_pkcs1_dec_setup(9),
    ensures=[('items-1-to-8-in-order', lambda c: _tuple_is(c, c.result_v, [VInt(z) for z in G(c, 'items')[1:9]]))],
    raises={}, returns='any')
rsa_pkcs1_dec_pub = Spec(
    'C15', 'rsa', 'RSAKey.decode_pkcs1_public', params={'cls': 'any', 'key_data': 'any'},
    stubs={'all_ints': lambda cx: VBool(all(isinstance(x, VInt) for x in cx.args[0].items))},
    setup=rsa_pkcs1_dec_setup(2),
    ensures=[('n-then-e', lambda c: _tuple_is(c, c.result_v, [VInt(z) for z in G(c, 'items')]))],
    raises={}, returns='any')

# ---- EC: RFC 5915 3: ECPrivateKey ::= SEQUENCE { version 1, privateKey OCTET STRING, [0] parameters, [1] publicKey }
EC_KEY_CLASSES = {'_ECKey': {'_key': 'obj:CK', '_alg_oid': 'any'}, 'CK': {'private_value': 'opt[bytes]',
                                                                       'public_value': 'bytes'}}


def tagged_stub(cx):
    return [Out(ret=cx.fresh('any', 'tagged'), event=('tagged', tuple(cx.args)))]


tagged_stub.modifies = ()


def ec_sec1_post(c):
    tg, bits = c.calls('TaggedDERObject'), c.calls('BitString')
    r = c.result_v
    if len(tg) != 2 or len(bits) != 1 or not isinstance(r, VTuple) or len(r.items) != 4:
        return z3.BoolVal(False)
    by_tag = {concrete_int(t['args'][0]): t for t in tg}
    if set(by_tag) != {0, 1}:
        return z3.BoolVal(False)
    return z3.And(c.eq(r.items[0], VInt(1)), c.eq(r.items[1], _kf(c, 'private_value')),
                  c.eq(r.items[2], by_tag[0]['ret']), c.eq(by_tag[0]['args'][1], c.oldv('_alg_oid')),
                  c.eq(r.items[3], by_tag[1]['ret']), c.eq(by_tag[1]['args'][1], bits[0]['ret']),
                  c.eq(bits[0]['args'][0], _kf(c, 'public_value')), z3.BoolVal(len(bits[0]['args']) == 1))


EC_INLINE = {'self.encode_public_tagged': ('ecdsa', '_ECKey.encode_public_tagged')}
EC_STUBS = {'TaggedDERObject': tagged_stub, 'BitString': ret('any', 'bitstring')}
ec_pkcs1_priv = Spec(
    'C15', 'ecdsa', '_ECKey.encode_pkcs1_private', self_class='_ECKey', classes=EC_KEY_CLASSES,
    inline=dict(EC_INLINE), stubs=dict(EC_STUBS),
    ensures=[('rfc5915-ECPrivateKey', ec_sec1_post)],
    raises={'KeyExportError': lambda c: z3.Not(c.truthy(_kf(c, 'private_value')))}, returns='any')


def ec_p8_priv_post(c):
    """RFC 5480 2.1.1: AlgorithmIdentifier parameters = the named curve OID; RFC 5915: the curve is then omitted
    from the inner ECPrivateKey, which keeps version 1, the private octets and [1] publicKey"""
    tg, bits, enc = c.calls('TaggedDERObject'), c.calls('BitString'), c.calls('der_encode')
    r = c.result_v
    if len(tg) != 1 or len(bits) != 1 or len(enc) != 1 or not isinstance(r, VTuple) or len(r.items) != 2:
        return z3.BoolVal(False)
    inner = enc[0]['args'][0]
    return z3.And(c.eq(r.items[0], c.oldv('_alg_oid')), c.eq(r.items[1], enc[0]['ret']),
                  _tuple_is(c, inner, [VInt(1), _kf(c, 'private_value'), tg[0]['ret']]),
                  c.eq(tg[0]['args'][0], VInt(1)), c.eq(tg[0]['args'][1], bits[0]['ret']),
                  c.eq(bits[0]['args'][0], _kf(c, 'public_value')))


ec_pkcs8_priv = Spec(
    'C15', 'ecdsa', '_ECKey.encode_pkcs8_private', self_class='_ECKey', classes=EC_KEY_CLASSES,
    inline=dict(EC_INLINE), stubs=dict(EC_STUBS, der_encode=ret('bytes', 'der')),
    ensures=[('curve-oid-parameters-and-inner-ECPrivateKey', ec_p8_priv_post)],
    raises={'KeyExportError': lambda c: z3.Not(c.truthy(_kf(c, 'private_value')))}, returns='any')
ec_pkcs8_pub = Spec(
    'C15', 'ecdsa', '_ECKey.encode_pkcs8_public', self_class='_ECKey', classes=EC_KEY_CLASSES,
    ensures=[('curve-oid-parameters-and-point-octets',
              lambda c: _tuple_is(c, c.result_v, [c.oldv('_alg_oid'), _kf(c, 'public_value')]))],
    raises={}, returns='any')


# ====================================================================== pbe.py: PKCS#12 KDF block update
# RFC 7292 B.2 step 6.C: "treating I as I_0 || I_1 || ... of v-bit blocks, set I_j = (I_j + B + 1) mod 2^v".
# Contract on the body of the inner loop of _pbkdf_p12 (one block update, region of the real function).
def _p12_region(fn):
    import ast as _ast
    loops = [n for n in _ast.walk(fn) if isinstance(n, _ast.For)]
    inner = [n for n in loops if any(isinstance(t, _ast.Assign) and isinstance(t.targets[0], _ast.Subscript)
                                     for t in n.body)]
    return inner[0].body


P12_V = 64      # hash block size of SHA-1 / MD5 (the PKCS#12 PBE schemes registered in pbe.py)


def p12_setup(ex, st):
    g = {'I': _fresh_b('g_I'), 'B': z3.Int(fresh_name('g_B')), 'i': z3.Int(fresh_name('g_i'))}
    st.assume(z3.And(g['i'] >= 0, g['i'] + P12_V <= z3.Length(g['I']), g['B'] >= 0))
    st.env.update(I=VBytes(g['I'], mutable=True), B=VInt(g['B']), i=VInt(g['i']), v=VInt(P12_V))
    st.inputs.update(I=st.env['I'], B=st.env['B'], i=st.env['i'])
    st.heap['__c15__'] = g
    st.heap['__cut__'] = True       # a region of the function: not replayable from the function entry


def p12_post(c):
    I0, B_, i = G(c, 'I'), G(c, 'B'), G(c, 'i')
    new = c.ex.deref(c.new_state, c.localv('I')).z
    blk = z3.Extract(I0, i, P12_V)
    want = be(z3.IntVal(P12_V), (unbe(blk) + B_ + 1) % (256 ** P12_V))
    return new == z3.Concat(z3.Extract(I0, 0, i), want, z3.Extract(I0, i + P12_V, z3.Length(I0) - i - P12_V))


pbkdf_p12_block = VSpec(
    'block-update', 'C15', 'pbe', '_pbkdf_p12',
    params=dict(hash_alg='any', passphrase='bytes', salt='bytes', count='int', key_size='int', idx='int'),
    region=_p12_region, setup=p12_setup,
    ensures=[('rfc7292-B.2-6C-block-plus-B-plus-1-mod-2^v', p12_post)], raises={}, returns='none')


# ====================================================================== packet.MPInt / SSHPacket.get_mpint (RFC 4251 5)
# mpint: two's complement, big-endian, shortest form, zero = empty string.  Spec functions (pyvc/builtins_model):
# pow2(k) = 2**k, bitlen = int.bit_length (defined by 2**(n-1) <= |v| < 2**n), sbe(n, v) = signed big-endian in n bytes
# (defined for -2**(8n-1) <= v < 2**(8n-1)), sunbe its inverse.
from pyvc.builtins_model import pow2, bitlen, sbe, sunbe


def _fits(n, v):
    return z3.If(n == 0, v == 0, z3.And(n > 0, -pow2(8 * n - 1) <= v, v < pow2(8 * n - 1)))


def _mono(a, b):
    """2**a <= 2**b for 0 <= a <= b, and strictly for a < b: mathematical facts about 2**k (instances)"""
    return z3.And(z3.Implies(z3.And(a >= 0, a <= b), pow2(a) <= pow2(b)),
                  z3.Implies(z3.And(a >= 0, a < b), 2 * pow2(a) <= pow2(b)))


def mpint_lemmas(c):
    v = c.arg('value')
    n = bitlen(v)
    out = []
    if c.raised is None and isinstance(c.result_v, VBytes):
        L = z3.Length(c.result) - 4
        pts = [n - 1, n, 8 * L - 1, 8 * L - 9]
    else:
        pts = [n - 1, n]
        for k in (n, n + 1):
            L = (k + 7) / 8
            pts += [8 * L - 1, 8 * L - 9]
    for a in pts:
        for b in pts:
            if a is not b:
                out.append(_mono(a, b))
    return out


def mpint_post(c):
    v = c.arg('value')
    L = z3.Length(c.result) - 4
    minimal = z3.Or(L == 0, z3.Not(_fits(L - 1, v)))
    return z3.And(L >= 0, c.result == z3.Concat(be(z3.IntVal(4), L), sbe(L, v)), _fits(L, v), minimal)


enc_mpint = Spec(
    'C15', 'packet', 'MPInt', params={'value': 'int'},
    # a value whose encoding would need 2**32 or more bytes cannot exist in memory (same standing assumption as len())
    requires=lambda c: bitlen(c.arg('value')) < 2 ** 34,
    ensures=[('rfc4251-mpint-twos-complement-shortest-form', mpint_post)],
    raises={}, lemmas=mpint_lemmas, returns='bytes')


def get_mpint_setup(ex, st):
    g = {'pre': _fresh_b('g_pre'), 'rest': _fresh_b('g_rest'), 'v': z3.Int(fresh_name('g_v')),
         'n': z3.Int(fresh_name('g_n'))}
    # what MPInt writes (contract above): uint32 n, then the n-byte two's complement form of v
    st.assume(_fits(g['n'], g['v']))
    field = sbe(g['n'], g['v'])
    st.assume(z3.And(z3.Length(field) == g['n'], g['n'] >= 0))
    data = z3.Concat(g['pre'], _def_be(st, 4, g['n']), field, g['rest'])
    pkt = st.env['self']
    from pyvc import bstruct
    st.set_field(pkt, '_packet', VBytes(data))
    st.set_field(pkt, '_idx', VInt(z3.Length(g['pre'])))
    st.set_field(pkt, '_len', VInt(bstruct.norm_len(z3.Length(data))))
    for k in ('_packet', '_idx', '_len'):
        st.inputs['self.' + k] = st.rec(pkt).fields[k]
    st.heap['__c15__'] = g


dec_mpint = Spec(
    'C15', 'packet', 'SSHPacket.get_mpint', self_class='SSHPacket', classes=dict(PACKET_CLASSES),
    inline=dict(PACKET_INLINE), setup=get_mpint_setup,
    ensures=[('decodes-what-MPInt-wrote', lambda c: c.result == G(c, 'v')),
             ('leaves-the-rest', lambda c: z3.And(
                 c.new('_idx') == z3.Length(c.new('_packet')) - z3.Length(G(c, 'rest')),
                 c.new('_packet') == c.old('_packet')))],
    raises={}, returns='int')


# ====================================================================== pbe._RFC1423Pad (RFC 1423 1.1 / PKCS#5 6.1.1)
# "pad the input at the trailing end with k - (l mod k) octets all having value k - (l mod k)": always 1..k octets,
# a full block when the input is block aligned; decryption removes exactly such a tail and rejects anything else.
rep = z3.Function('bytes_repeat', BytesS, IntS, BytesS)        # the engine's model of  bytes * int


def _padding(n):
    return rep(z3.Unit(n), n)


PAD_CLASSES = {'_RFC1423Pad': {'_block_size': 'int', '_cipher': 'obj:BlockCipher'}, 'BlockCipher': {}}
PAD_CASES = [(f'block{b}', {'_block_size': b}) for b in (8, 16)]      # block ciphers of the cipher table (data lemma)


def pad_encrypt_post(c):
    enc = c.calls('self._cipher.encrypt')
    if len(enc) != 1:
        return z3.BoolVal(False)
    plain, data, bs = enc[0]['args'][0].z, c.arg('data'), c.old('_block_size')
    n = z3.Length(plain) - z3.Length(data)
    return z3.And(n >= 1, n <= bs, z3.Length(plain) % bs == 0, plain == z3.Concat(data, _padding(n)),
                  c.result == enc[0]['ret'].z)


rfc1423_encrypt = Spec(
    'C15', 'pbe', '_RFC1423Pad.encrypt', self_class='_RFC1423Pad', params={'data': 'bytes'}, classes=PAD_CLASSES,
    stubs={'self._cipher.encrypt': ret('bytes', 'ciphertext')}, cases=PAD_CASES,
    ensures=[('pads-with-1-to-k-octets-of-value-n', pad_encrypt_post)], raises={}, returns='bytes')


def _pad_valid(p, bs):
    """p ends in a well-formed padding string: n = last octet, 1 <= n <= k, the last n octets all equal n"""
    ln = z3.Length(p)
    n = p[ln - 1]
    return z3.And(ln > 0, n >= 1, n <= bs, n <= ln, z3.Extract(p, ln - n, n) == _padding(n))


def pad_decrypt_post(c):
    dec = c.calls('self._cipher.decrypt')
    if len(dec) != 1:
        return z3.BoolVal(False)
    p, bs = dec[0]['ret'].z, c.old('_block_size')
    n = p[z3.Length(p) - 1]
    return z3.And(c.eq(dec[0]['args'][0], c.argv('data')), _pad_valid(p, bs), p == z3.Concat(c.result, _padding(n)))


rfc1423_decrypt = Spec(
    'C15', 'pbe', '_RFC1423Pad.decrypt', self_class='_RFC1423Pad', params={'data': 'bytes'}, classes=PAD_CLASSES,
    stubs={'self._cipher.decrypt': ret('bytes', 'plaintext')}, cases=PAD_CASES,
    ensures=[('removes-exactly-a-wellformed-padding', pad_decrypt_post)],
    raises={'KeyEncryptionError': lambda c: z3.Not(_pad_valid(c.calls('self._cipher.decrypt')[0]['ret'].z,
                                                              c.old('_block_size')))},
    returns='bytes')


def rfc1423_round_trip_lemma():
    """over the two contracts (pure logic): if the cipher's decrypt inverts its encrypt, then what decrypt sees is
    x ++ padding(n) with 1 <= n <= k; the decrypt contract then cannot reject it and must return x.
    Definitional facts of  bytes * int  used: len(b'c' * n) == n and every octet is c."""
    import time
    x, r = z3.Consts('x r', BytesS)
    n, k = z3.Ints('n k')
    p = z3.Concat(x, _padding(n))
    j = z3.Int('j')
    defs = [z3.Length(_padding(n)) == n, z3.ForAll([j], z3.Implies(z3.And(j >= 0, j < n), _padding(n)[j] == n))]
    m = p[z3.Length(p) - 1]
    last = _padding(n)[n - 1] == n                      # ground instance of the element definition (j = n - 1)
    base = [z3.Length(_padding(n)) == n, n >= 1, n <= k, z3.Or(k == 8, k == 16)]
    steps = [('decrypt-never-rejects-what-encrypt-padded', defs + base, _pad_valid(p, k)),
             # the padding length decrypt reads (last octet) is the one encrypt wrote ...
             ('decrypt-reads-the-padding-length-encrypt-wrote', base + [last], m == n),
             # ... so removing that many octets (the decrypt contract: p == r ++ padding(m)) leaves the original
             ('decrypt-returns-the-original', base + [m == n, p == z3.Concat(r, _padding(m))], r == x)]
    out = []
    for name, hyp, goal in steps:
        res, t0 = z3.unknown, time.time()
        for seed in (0, 7, 23):
            s = z3.Solver()
            s.set('timeout', 30000)
            s.set('random_seed', seed)
            s.add(*hyp)
            s.add(z3.Not(goal))
            res = s.check()
            if res != z3.unknown:
                break
        out.append({'name': f'C15.pbe._RFC1423Pad#lemma(round-trip:{name})',
                    'verdict': 'proved' if res == z3.unsat else ('refuted' if res == z3.sat else 'unknown'), 'backend': 'z3',
                    'reason': str(res), 'solver_s': round(time.time() - t0, 2), 'replayed': False})
    return out


# ====================================================================== crypto.ec._ECKey.private_value (SEC1 / RFC 5915)
# RFC 5915 3: "privateKey is the private key ... an octet string of length ceiling (log2(n)/8) (where n is the order
# of the curve)" - i.e. fixed width, leading zero octets included, for every scalar 1 <= d < n.
def ec_private_value_setup(bits):
    def setup(ex, st):
        me = st.env['self']
        pub = ex.get_field(st, me, '_pub')
        curve = ex.get_field(st, pub, 'curve')
        st.set_field(curve, 'key_size', VInt(bits))
        st.heap['__c15__'] = {'bits': bits}
        st.heap['__cut__'] = True        # a property on PyCA-backed objects: not scripted natively
    return setup


def _ec_d(c):
    return c.oldv('private_value', c.oldv('_priv').val).z


def ec_private_value_post(c):
    bits = G(c, 'bits')
    n = (bits + 7) // 8
    has = z3.Not(c.oldv('_priv').isnone)
    r = c.result_v
    if r is VNone:
        return z3.Not(has)
    return z3.And(has, z3.Length(r.z) == n, r.z == be(z3.IntVal(n), _ec_d(c)))


def _ec_private_value_spec(bits):
    return VSpec(
        f'{bits}-bit-curve', 'C15', 'crypto.ec', '_ECKey.private_value', self_class='_ECKey',
        classes={'_ECKey': {'_priv': 'opt[obj:PyCAPriv]', '_pub': 'obj:PyCAPub'}, 'PyCAPriv': {'private_value': 'int'},
                 'PyCAPub': {'curve': 'obj:Curve'}, 'Curve': {'key_size': 'int'}},
        setup=ec_private_value_setup(bits),
        # every valid scalar: 1 <= d < n < 2**bits
        requires=lambda c: z3.Or(c.oldv('_priv').isnone, z3.And(_ec_d(c) >= 1, _ec_d(c) < 2 ** bits)),
        ensures=[('fixed-width-ceil-bits-over-8-octets', ec_private_value_post)], raises={}, returns='opt[bytes]')


ec_private_value_specs = [_ec_private_value_spec(b) for b in (256, 384, 521)]      # curves registered in crypto/ec.py


# ====================================================================== pbe._pbkdf1 (EVP_BytesToKey recurrence)
# D_1 = H^count(pass || salt), D_i = H^count(D_{i-1} || pass || salt), key = first n bytes of D_1 || D_2 || ...
# (PKCS#5 PBKDF1 for one block; OpenSSL's extension for longer keys, used by RFC 1423 style PEM encryption).
# Spec functions: Hd = the hash, Hiter(i, x) = Hd applied i times.  Stated for n <= 2 digests (what the registered
# PKCS#1 ciphers need: 32 bytes from MD5); the function's own contract is used for the recursive call.
Hd = z3.Function('Hd', BytesS, BytesS)
Hiter = z3.Function('Hiter', IntS, BytesS, BytesS)
DLEN = z3.Int('digest_size')


def _kdf_instances(count, xs, idxs=()):
    """definitional instances of Hiter / the digest length for the terms a path mentions (no fact about the code)"""
    out = []
    for x in xs:
        out += [Hiter(z3.IntVal(0), x) == x,
                z3.Implies(count >= 1, Hiter(count, x) == Hd(Hiter(count - 1, x))),
                z3.Length(Hd(Hiter(count - 1, x))) == DLEN]
        for i in idxs:
            out += [z3.Implies(i >= 0, Hiter(i + 1, x) == Hd(Hiter(i, x))), z3.Length(Hd(Hiter(i, x))) == DLEN]
    return out


def _kdf_terms(c):
    start = z3.Concat(c.arg('passphrase'), c.arg('salt'))
    d1 = Hiter(c.arg('count'), start)
    return [start, z3.Concat(d1, c.arg('passphrase'), c.arg('salt')), z3.Concat(z3.Concat(d1, c.arg('passphrase')), c.arg('salt'))]


def _evp(pw, salt, count, n):
    d1 = Hiter(count, z3.Concat(pw, salt))
    d2 = Hiter(count, z3.Concat(d1, pw, salt))
    return z3.Extract(z3.Concat(d1, d2), 0, n)


def kdf_hash_ctor(cx):
    o = cx.fresh('obj:Hash', 'hash')
    cx.st.set_field(o, 'ghost_data', cx.args[0])
    return [Out(ret=o)]


def kdf_hash_digest(cx):
    d = Hd(cx.ex.get_field(cx.st, cx.recv, 'ghost_data').z)
    return [Out(ret=VBytes(d))]


def kdf_recursive_stub(cx):
    """the function's own contract for the remaining bytes (well-founded: fewer bytes are requested)"""
    a = cx.args
    e = cx.ex.entry_state.env
    cx.require('recursion-asks-for-fewer-bytes-same-salt-and-count',
               z3.And(a[4].z >= 0, a[4].z < e['key_size'].z, a[4].z <= 2 * DLEN, a[3].z == e['count'].z))
    t = z3.Const(fresh_name('kdf_rest'), BytesS)
    return [Out(ret=VBytes(t), assume=[t == _evp(a[1].z, a[2].z, a[3].z, a[4].z)])]


for _f in (kdf_hash_ctor, kdf_hash_digest, kdf_recursive_stub):
    _f.modifies = ()


def _kdf_setup(ex, st):
    st.heap['__cut__'] = True             # abstract hash: nothing to replay natively (bounded stand-in does that)


pbkdf1 = Spec(
    'C15', 'pbe', '_pbkdf1',
    params=dict(hash_alg='any', passphrase='bytes', salt='bytes', count='int', key_size='int'),
    classes={'Hash': {'ghost_data': 'bytes'}}, setup=_kdf_setup,
    stubs={'hash_alg': kdf_hash_ctor, 'Hash.digest': kdf_hash_digest, '_pbkdf1': kdf_recursive_stub},
    loops={1: LoopSpec(invariant=lambda c: z3.And(
        z3.BoolVal('i' in c.extra),
        c.local('key') == Hiter(c.extra.get('i', z3.IntVal(0)), z3.Concat(c.arg('passphrase'), c.arg('salt')))),
        lemmas=lambda c: _kdf_instances(c.arg('count'), _kdf_terms(c)[:1],
                                        [v for k, v in c.extra.items() if k in ('i', 'i0')]))},
    lemmas=lambda c: _kdf_instances(c.arg('count'), _kdf_terms(c)),
    requires=lambda c: z3.And(c.arg('count') >= 1, DLEN >= 1, c.arg('key_size') >= 0, c.arg('key_size') <= 2 * DLEN),
    ensures=[('evp-bytestokey-chain-D1-D2', lambda c: c.result == _evp(c.arg('passphrase'), c.arg('salt'), c.arg('count'),
                                                                       c.arg('key_size')))],
    raises={}, returns='bytes')


# structured-input contracts: bounded work (normal runs need < 120 solver checks each)
for _sp in list(Spec.registry):
    if _sp.prop == 'C15' and _sp.setup is not None:
        _sp.max_solver_checks = 400
        _sp.max_struct_seconds = 240
        _sp.length_abstraction = True
