"""C05 - access is granted exactly when a credential check succeeded.  Sidecar contracts.

Structure (DESIGN.md 4, C05):
  (f)  restriction look-ups: get/check_key/certificate_option/permission as decision tables
  (b)  auth.py: every _Server*Auth reaches send_success() only where its credential predicate holds for ITS user,
       while it is not cancelled and still bound to the connection's user (rely B); a valid credential is admitted
  (d,e) connection.py: _process_userauth_request / _finish_userauth / send_userauth_success / send_userauth_failure
       preserve the binding invariant J and give the guarantee G that justifies B; requests after SUCCESS are ignored
  (c)  validate_public_key / _validate_client_public_key / _validate_openssh_certificate / validate_host_based_auth:
       True only for a signature by the key authorised for this user over String(session_id) + request
  (g)  client: _process_userauth_success only with is_client and an attempt outstanding
  K    Auth.cancel / create_task / __init__: the task working for an auth object is the one cancel() stops
  scan: writers of the auth state and callers of send_userauth_success (extra_checks)

Defects these obligations found on the pinned tree (replayed natively, notes/findings/c05_*.py); all three are
repaired in /repo (ca6432f, a7d1d73), so every obligation is proved on the current tree:
  F7   _process_userauth_request#post(class-inv-J), #post(guarantee-live-auth-keeps-its-user)
  F7b  _finish_userauth#pre-at-call(self.send_userauth_success:no-auth-required-was-decided-for-the-current-user)
  F9   _finish_userauth#pre-at-call(lookup_server_auth:restrictions-are-pristine-when-an-attempt-starts)
Second audit round:
  F11  send_userauth_failure#post(guarantee-live-auth-keeps-its-user)  - a FAILURE answer dropped a live auth task
       (gssapi-with-mic _finish) without cancelling it; repaired in /repo (be2ce89)
  F12  _finish_userauth#pre-at-call(lookup_server_auth:configuration-is-for-the-current-user),
       reload_config#post(stored-configuration-belongs-to-the-current-user | class-inv-C),
       _process_userauth_request#post(class-inv-C | user-changes-only-with-a-new-generation)
       - the per-user configuration is not tied to the user being authenticated (stale reload store; same-user
       request overtaking the pending reload/begin_auth).  Recorded known finding F-C05-12 (not repaired);
       replays notes/audit/C05-r2_reload_race.py, notes/findings/c05_f12b_same_user_request_overtakes_reload.py;
       patch that makes every obligation prove: notes/findings/c05_r2_proposed_fix.diff (hunks 2-5)
"""
import z3
from pyvc.contracts import *
from pyvc.engine import LoopSpec, Out, Prove
from pyvc.values import *
from .common import *

PROP = 'C05'
ASSUMPTIONS = []

# ------------------------------------------------------------------ restriction look-ups (decision tables)
OPTS = 'dict[str,any]'
SRV_OPT_FIELDS = {'_key_options': OPTS, '_cert_options': 'opt[' + OPTS + ']'}
SRV_OPT_CLASSES = {'SSHServerConnection': SRV_OPT_FIELDS}


# authorized_keys option keywords are case-insensitive (sshd(8)): they are stored lower-cased (OptionsParser, C17) and
# looked up by the lower-cased name.  lower_s is str.lower (engine: uninterpreted); only definitional instances for
# the already lower-case keywords the code uses are assumed (LOWER_DEFS).
LOWER = z3.Function('lower_s', StrS, StrS)
LOWER_DEFS = [LOWER(z3.StringVal(k)) == z3.StringVal(k)
              for k in ('principals', 'no-touch-required', 'command', 'environment', 'permitopen', 'from')]


def lower_defs(_c):
    return list(LOWER_DEFS)


def _has(m, key):
    return z3.Select(m.dom, key)


def _val(m, key):
    return z3.Select(m.val, key)


def truthy_any(z):
    return z3.Function('truthy_Any', opaque_sort('Any'), BoolS)(z)


def result_truthy(c):
    return c.truthy(c.result_v)


def cert_perm_table(c):
    """documented behaviour: no certificate -> everything permitted; a certificate (even one whose option set is
    empty) permits exactly what it lists as permit-<permission>"""
    co = c.oldv('_cert_options')
    key = z3.Concat(z3.StringVal('permit-'), c.arg('permission'))
    granted = z3.And(_has(co.val, key), truthy_any(_val(co.val, key)))
    return result_truthy(c) == z3.Or(co.isnone, granted)


def key_perm_table(c):
    """authorized_keys: every permission is granted unless the entry carries no-<permission>"""
    ko = c.oldv('_key_options')
    key = LOWER(z3.Concat(z3.StringVal('no-'), c.arg('permission')))
    revoked = z3.And(_has(ko, key), truthy_any(_val(ko, key)))
    return result_truthy(c) == z3.Not(revoked)


def _same_any(c, v, z):
    """result value `v` is the 'any' term z"""
    return v.z == z if isinstance(v, VOpaque) and v.sortname == 'Any' else z3.BoolVal(False)


def cert_opt_table(c):
    co = c.oldv('_cert_options')
    key = c.arg('option')
    present = z3.And(z3.Not(co.isnone), _has(co.val, key))
    r = c.result_v
    is_default = z3.BoolVal(r is c.argv('default'))
    return z3.And(z3.Implies(present, _same_any(c, r, _val(co.val, key))),
                  z3.Implies(z3.Not(present), is_default))


def key_opt_table(c):
    ko = c.oldv('_key_options')
    key = LOWER(c.arg('option'))
    present = _has(ko, key)
    r = c.result_v
    is_default = z3.BoolVal(r is c.argv('default'))
    return z3.And(z3.Implies(present, _same_any(c, r, _val(ko, key))),
                  z3.Implies(z3.Not(present), is_default))


check_certificate_permission = Spec(
    PROP, 'connection', 'SSHServerConnection.check_certificate_permission', self_class='SSHServerConnection',
    params=dict(permission='str'), classes=SRV_OPT_CLASSES,
    ensures=[('certificate-permission-table', cert_perm_table)])

check_key_permission = Spec(
    PROP, 'connection', 'SSHServerConnection.check_key_permission', self_class='SSHServerConnection',
    params=dict(permission='str'), classes=SRV_OPT_CLASSES,
    ensures=[('key-permission-table', key_perm_table)])

get_certificate_option = Spec(
    PROP, 'connection', 'SSHServerConnection.get_certificate_option', self_class='SSHServerConnection',
    params=dict(option='str', default='opaque:Default'), classes=SRV_OPT_CLASSES,
    ensures=[('certificate-option-table', cert_opt_table)])

get_key_option = Spec(
    PROP, 'connection', 'SSHServerConnection.get_key_option', self_class='SSHServerConnection',
    params=dict(option='str', default='opaque:Default'), classes=SRV_OPT_CLASSES,
    ensures=[('key-option-table', key_opt_table)])


# ====================================================================================================
# auth.py - server side authentication objects
#
# Ghost view of the connection as seen from an auth object A (class 'Conn'):
#   _username, _auth_complete     real fields of the connection
#   ghost_auth_is_self            conn._auth is A
# B(A)  :=  conn._auth_complete  or  (conn._auth is A  and  conn._username == A._username)
# (The restrictions half of the property is NOT part of B.  It is carried on the connection side: pristine when an
#  attempt starts (_finish_userauth pre-at-call), written only by the verified look-ups, which store exactly the
#  accepted entry's / certificate's options; writers and callers of those look-ups are pinned by the scan.)
# B is the *rely* of an auth task at its awaits (if the task resumes it was not cancelled); the matching
# *guarantee* is proved on the connection-side writers of _username / _auth (see below, "guarantee").
# ====================================================================================================
CONN_VIEW = {'_username': 'str', '_auth_complete': 'bool', 'ghost_auth_is_self': 'bool'}
AUTH_FIELDS = {'_conn': 'obj:Conn', '_coro': 'opt[obj:Task]', '_username': 'str', '_method': 'bytes'}
AUTH_CLASSES = dict({'ServerAuth': AUTH_FIELDS, 'Conn': CONN_VIEW, 'Task': {}}, **PACKET_CLASSES)


def _conn_of(ex, st):
    return ex.get_field(st, ex.self_ref, '_conn')


def bound(ex, st):
    """B(self) in state st"""
    conn = _conn_of(ex, st)
    g = lambda f: ex.get_field(st, conn, f).z
    me = ex.get_field(st, ex.self_ref, '_username').z
    return z3.Or(g('_auth_complete'), z3.And(g('ghost_auth_is_self'), g('_username') == me))


def not_cancelled(ex, st):
    v = ex.get_field(st, ex.self_ref, '_coro')
    if v is VNone:
        return z3.BoolVal(False)
    if isinstance(v, VOpt):
        return z3.Not(v.isnone)
    return z3.BoolVal(True)


def rely_outs(cx, ret, event, exc=None):
    """An await inside auth code: other handlers of the connection may run.  If this task resumes it has not been
    cancelled (asyncio) and B is preserved (guarantee of the connection-side functions)."""
    ex, st = cx.ex, cx.st
    conn = _conn_of(ex, st)
    before = bound(ex, st)
    new = {f: cx.fresh(t, 'env_' + f) for f, t in CONN_VIEW.items()}
    me = ex.get_field(st, ex.self_ref, '_username').z
    after = z3.Or(new['_auth_complete'].z,
                  z3.And(new['ghost_auth_is_self'].z, new['_username'].z == me))
    o = Out(ret=ret, exc=exc, osets=[(conn, f, v) for f, v in new.items()],
            assume=[z3.Implies(before, after)], event=event)
    o.native_osets = True
    return o


def awaited_validator(name, typ='any', raises=()):
    """application-side credential check reached through the connection: arbitrary result, can only return/raise"""
    def stub(cx):
        v = cx.fresh(typ, name)
        outs = [rely_outs(cx, v, (name, (tuple(cx.args), v)))]
        # an application callback may also raise anything: the task dies (reported by _reap_task), nothing is granted
        outs.append(rely_outs(cx, VNone, (name + '!raise', (tuple(cx.args), None)), exc=VExc('Exception')))
        for r in raises:
            e = r(cx) if callable(r) else VExc(r)
            outs.append(rely_outs(cx, VNone, (name + '!raise', (tuple(cx.args), e)), exc=e))
        return outs
    stub.modifies = ()
    return stub


def send_success_stub(cred):
    def stub(cx):
        ex, st = cx.ex, cx.st
        cx.require('credential-check-succeeded-for-this-user', cred(ex, st))
        cx.require('auth-object-not-cancelled', not_cancelled(ex, st))
        cx.require('bound-to-the-connection-user', bound(ex, st))
        return [rely_outs(cx, VNone, ('send_success', ()))]
    stub.modifies = ()
    return stub


def send_failure_stub(cx):
    conn = _conn_of(cx.ex, cx.st)
    return [Out(osets=[(conn, 'ghost_auth_is_self', VBool(False))], event=('send_failure', tuple(cx.args)))]


send_failure_stub.modifies = ()


def auth_send_packet_stub(cx):
    return [Out(event=('send_packet', tuple(cx.args)))]


auth_send_packet_stub.modifies = ()

RESPONSES = ('send_success', 'send_failure', 'send_packet', 'delegate')


def responses(c):
    return [e for e in c.events() if e[0] in RESPONSES]


def one_response(c):
    """every request is answered exactly once (success, failure, or a continuation message)"""
    return z3.BoolVal(len(responses(c)) == 1)


def response_is_last(c):
    """nothing happens on behalf of this auth object after it answered (failure clears conn._auth)"""
    evs = c.events()
    idx = [i for i, e in enumerate(evs) if e[0] in RESPONSES]
    return z3.BoolVal(not idx or idx[-1] == len(evs) - 1)


def no_success(c):
    return z3.BoolVal(not c.events('send_success'))


def admitted(cred):
    """conversely: a valid credential is admitted"""
    def f(c):
        return z3.Implies(cred(c.ex, c.new_state), z3.BoolVal(len(c.events('send_success')) == 1))
    return f


def start_requires(c):
    return z3.And(packet_wf(c, c.argv('packet')), not_cancelled(c.ex, c.new_state), bound(c.ex, c.new_state))


def cred_from(*names, user_arg=0, extra=None):
    """a call of one of `names` was made for THIS auth object's user and its answer was true"""
    def cred(ex, st):
        me = ex.get_field(st, ex.self_ref, '_username').z
        alts = []
        for n, (args, ret) in [e for e in st.events if e[0] in names]:
            conj = [args[user_arg].z == me, ex.truthy(st, ret)]
            if extra:
                conj.append(extra(ex, st, args))
            alts.append(z3.And(conj))
        return z3.Or(alts) if alts else z3.BoolVal(False)
    return cred


def saslprep_stub(cx):
    return [Out(ret=cx.fresh('str', 'saslprep')), Out(exc=VExc('SASLPrepError'))]


saslprep_stub.modifies = ()


def pw_change_required(cx):
    return VExc('PasswordChangeRequired', attrs={'prompt': cx.fresh('str', 'prompt'), 'lang': cx.fresh('str', 'lang')})


def auth_spec(qualname, cred, stubs, params=None, raises=None, extra_ensures=(), **kw):
    st = {'self.send_success': send_success_stub(cred), 'self.send_failure': send_failure_stub,
          'self.send_packet': auth_send_packet_stub, 'saslprep': saslprep_stub}
    st.update(stubs)
    return Spec(
        PROP, 'auth', qualname, self_class='ServerAuth', params=params or dict(packet='obj:SSHPacket'),
        classes=AUTH_CLASSES, inline=dict(PACKET_INLINE), truthy=PACKET_TRUTHY, stubs=st,
        requires=start_requires if (params is None or 'packet' in params) else
        (lambda c: z3.And(not_cancelled(c.ex, c.new_state), bound(c.ex, c.new_state))),
        ensures=[('one-response', one_response), ('valid-credential-is-admitted', admitted(cred))] +
        list(extra_ensures),
        always=[('response-is-last', response_is_last)],
        raises=dict(raises if raises is not None else {'ProtocolError': no_success, 'PacketDecodeError': no_success},
                    Exception=no_success),
        **kw)


# ---- password
pw_cred = cred_from('validate_password', 'change_password')
password_start = auth_spec(
    '_ServerPasswordAuth._start', pw_cred,
    {'self._conn.validate_password': awaited_validator('validate_password', raises=[pw_change_required]),
     'self._conn.change_password': awaited_validator('change_password', raises=[pw_change_required])})


# ---- public key: success only for a *signed* request whose signature was checked by validate_public_key over
# exactly this request (message type .. key blob) for this auth object's user
def signed_request(msg_i, sig_i):
    """msg is the consumed prefix of the request (from the message type byte on), the signature is the string that
    follows it and nothing else follows: packet == msg ++ String(signature)"""
    def extra(ex, st, args):
        msg, sig = args[msg_i].z, args[sig_i].z
        pkt = ex.get_field(st, st.env['packet'], '_packet').z
        n = z3.Length(msg)
        return z3.And(n > 0, msg == z3.Extract(pkt, 0, n),
                      sig == z3.Extract(pkt, n + 4, z3.Length(sig)),
                      n + 4 + z3.Length(sig) == z3.Length(pkt))
    return extra


pk_cred = cred_from('validate_public_key', extra=signed_request(2, 3))


def pk_ok_only_for_authorised_key(c):
    """PK_OK (key acceptable, no signature yet) is only sent when validate_public_key accepted the key; it is
    never a success"""
    sp = c.events('send_packet')
    if not sp:
        return z3.BoolVal(True)
    ok = cred_from('validate_public_key')(c.ex, c.new_state)
    return z3.And(sp[0][1][0].z == 60, ok, z3.BoolVal(not c.events('send_success')))


publickey_start = auth_spec(
    '_ServerPublicKeyAuth._start', pk_cred,
    {'self._conn.validate_public_key': awaited_validator('validate_public_key')},
    extra_ensures=[('pk-ok-is-not-success', pk_ok_only_for_authorised_key)])

# ---- host based
hb_cred = cred_from('validate_host_based_auth', extra=signed_request(4, 5))
hostbased_start = auth_spec(
    '_ServerHostBasedAuth._start', hb_cred,
    {'self._conn.validate_host_based_auth': awaited_validator('validate_host_based_auth')})


# ---- keyboard-interactive
# _send_challenge(challenge) decides; _start / _validate_response must hand it the application's verdict for this
# auth object's user.  ghost_verdict_for_user: the `challenge` argument is such a verdict (set by the callers'
# pre-at-call obligation, required by _send_challenge).
def delegate_send_challenge(cx):
    ex, st = cx.ex, cx.st
    me = ex.get_field(st, ex.self_ref, '_username').z
    srcs = [e for e in st.events if e[0] in ('get_kbdint_challenge', 'validate_kbdint_response')]
    ok = z3.BoolVal(False)
    if srcs:
        args, ret = srcs[-1][1]
        ok = z3.And(args[0].z == me, z3.BoolVal(ret is cx.args[0]))
    cx.require('challenge-is-the-applications-verdict-for-this-user', ok)
    cx.require('auth-object-not-cancelled', not_cancelled(ex, st))
    cx.require('bound-to-the-connection-user', bound(ex, st))
    return [rely_outs(cx, VNone, ('delegate', tuple(cx.args)))]


delegate_send_challenge.modifies = ()
never = lambda ex, st: z3.BoolVal(False)
KBD_RAISES = {'ProtocolError': no_success, 'PacketDecodeError': no_success}

kbdint_start = auth_spec(
    '_ServerKbdIntAuth._start', never,
    {'self._conn.get_kbdint_challenge': awaited_validator('get_kbdint_challenge'),
     'self._send_challenge': delegate_send_challenge})

kbdint_validate_response = auth_spec(
    '_ServerKbdIntAuth._validate_response', never,
    {'self._conn.validate_kbdint_response': awaited_validator('validate_kbdint_response'),
     'self._send_challenge': delegate_send_challenge},
    params=dict(responses='seq[str]'), raises={})


def kbd_cred_bool(ex, st):
    """RFC 4256 / SSHServer.get_kbdint_challenge: True means 'authenticated without further challenge'; a
    (name, instruction, lang, prompts) tuple is a further challenge and never a success"""
    return ex.truthy(st, st.env['challenge'])


kbdint_send_challenge_bool = auth_spec(
    '_ServerKbdIntAuth._send_challenge', kbd_cred_bool, {}, params=dict(challenge='bool'), raises={})

kbdint_send_challenge_tuple = auth_spec(
    '_ServerKbdIntAuth._send_challenge', never, {},
    params=dict(challenge='tuple[str,str,str,seq[tuple[str,bool]]]'), raises={},
    extra_ensures=[('challenge-is-an-info-request', lambda c: z3.BoolVal(
        len(c.events('send_packet')) == 1 and not c.events('send_success')))])
# same function, second typing of its parameter: keep the obligation names apart
kbdint_send_challenge_tuple.__class__ = type('CaseSpec', (Spec,), {
    'name': property(lambda self: f'{self.prop}.{self.module}.{self.qualname}[challenge-is-a-tuple]')})


# ====================================================================================================
# connection.py - the sequencing logic
#
# "cancelled" is the real state  auth._coro is None  (Auth.cancel() is the only writer of None, proved below).
# J (binding invariant):   conn._auth is None  or  cancelled(conn._auth)  or  conn._auth._username == conn._username
# G (guarantee towards a live auth task, the counterpart of the rely B used in auth.py): an atomic step of the
#   connection leaves a live current auth object current and bound to the same user, unless it cancels it or
#   authentication completes.
# ====================================================================================================
AUTHOBJ = {'_username': 'str', '_method': 'bytes', '_coro': 'opt[obj:Task]'}
SRV_FIELDS = dict(SRV_OPT_FIELDS, **{
    '_is_client': 'bool', '_username': 'str', '_auth': 'opt[obj:Auth]', '_auth_complete': 'bool',
    '_auth_final': 'bool', '_auth_in_progress': 'bool', '_owner': 'opt[obj:Owner]',
    # per-user configuration (reload_config): _options is the SSHServerConnectionOptions object in force; its ghost
    # field ghost_for_user is the user name it was constructed for ("config_user" below).  _auth_gen counts user
    # switches, _config_gen is the generation for which configuration and begin_auth() verdict are in place.
    '_options': 'obj:Options', '_auth_gen': 'int', '_config_gen': 'int',
})
OPTIONS_FIELDS = {'ghost_for_user': 'str', 'host_based_auth': 'bool', 'public_key_auth': 'bool', 'kbdint_auth': 'bool',
                  'password_auth': 'bool', 'authorized_client_keys': 'any', 'allow_pty': 'bool',
                  'x11_forwarding': 'any', 'agent_forwarding': 'any', 'rekey_bytes': 'int', 'rekey_seconds': 'any',
                  'keepalive_count_max': 'int', 'keepalive_interval': 'any'}
SRV_CLASSES = dict({'SSHConnection': SRV_FIELDS, 'Auth': AUTHOBJ, 'Task': {}, 'Owner': {},
                    'Options': OPTIONS_FIELDS}, **PACKET_CLASSES)


def opt_parts(v):
    """-> (isnone: z3 Bool, value or None)"""
    if v is VNone:
        return z3.BoolVal(True), None
    if isinstance(v, VOpt):
        return v.isnone, v.val
    return z3.BoolVal(False), v


def auth_cancelled(ex, st, ref):
    n, _ = opt_parts(ex.get_field(st, ref, '_coro'))
    return n


def inv_J(ex, st, self_ref=None):
    self_ref = self_ref or ex.self_ref
    isnone, a = opt_parts(ex.get_field(st, self_ref, '_auth'))
    if a is None:
        return z3.BoolVal(True)
    return z3.Or(isnone, auth_cancelled(ex, st, a),
                 ex.get_field(st, a, '_username').z == ex.get_field(st, self_ref, '_username').z)


def config_user(ex, st, self_ref=None):
    """the user the configuration in force (authorized keys, method switches, pty/forwarding flags) was built for"""
    self_ref = self_ref or ex.self_ref
    return ex.get_field(st, ex.get_field(st, self_ref, '_options'), 'ghost_for_user').z


def inv_C(ex, st):
    """helper invariant (from the code): when configuration + begin_auth verdict are marked as in place for the
    current generation, the configuration in force is the current user's"""
    g = lambda f: ex.get_field(st, ex.self_ref, f).z
    return z3.And(g('_config_gen') <= g('_auth_gen'),
                  z3.Implies(g('_config_gen') == g('_auth_gen'), config_user(ex, st) == g('_username')))


def gen_step(ex, st0, st1):
    """what every atomic step of the connection guarantees about generations (proved on the writers:
    _process_userauth_request#post(user-changes-only-with-a-new-generation), reload_config#post(...))"""
    g0 = lambda f: ex.get_field(st0, ex.self_ref, f).z
    g1 = lambda f: ex.get_field(st1, ex.self_ref, f).z
    same = g1('_auth_gen') == g0('_auth_gen')
    return z3.And(g1('_auth_gen') >= g0('_auth_gen'),
                  z3.Implies(same, g1('_username') == g0('_username')),
                  z3.Implies(z3.And(same, config_user(ex, st0) == g0('_username')),
                             config_user(ex, st1) == g1('_username')))


def JC_old(c):
    return z3.And(inv_J(c.ex, c.old_state), inv_C(c.ex, c.old_state))


def C_new(c):
    return inv_C(c.ex, c.new_state)


def gen_step_post(c):
    return gen_step(c.ex, c.old_state, c.new_state)


def J_old(c):
    return inv_J(c.ex, c.old_state)


def J_new(c):
    return inv_J(c.ex, c.new_state)


def guarantee(c):
    """G: see header"""
    ex = c.ex
    isnone, a = opt_parts(c.oldv('_auth'))
    if a is None:
        return z3.BoolVal(True)
    n2, a2 = opt_parts(c.newv('_auth'))
    same = z3.BoolVal(False) if a2 is None else z3.And(z3.Not(n2), z3.BoolVal(a2.addr == a.addr))
    return z3.Or(isnone, auth_cancelled(ex, c.old_state, a), auth_cancelled(ex, c.new_state, a),
                 c.new('_auth_complete'),
                 z3.And(same, c.new('_username') == c.old('_username')))


def conn_create_task_stub(cx):
    t = cx.fresh('obj:Task', 'task')
    return [Out(ret=t, event=('create_task', (cx.args[0], t)))]


conn_create_task_stub.modifies = ()


def coro_stub(name):
    def stub(cx):
        co = VTag('coro:' + name, payload=tuple(cx.args))
        return [Out(ret=co, event=('coro', (name, tuple(cx.args), co)))]
    stub.modifies = ()
    return stub


def unchanged(c, *fields):
    conj = []
    for f in fields:
        conj.append(c.eq(c.oldv(f), c.newv(f)))
    return z3.And(conj)


def ur_frame(c):
    """a rejected request changes nothing"""
    return z3.And(unchanged(c, '_username', '_auth', '_auth_complete'), z3.BoolVal(not c.events('create_task')))


def ur_ignored_after_success(c):
    """RFC 4252 5.1: after SUCCESS further requests are silently ignored"""
    return z3.Implies(c.old('_auth_complete'), ur_frame(c))


def ur_processed_for_named_user(c):
    """before SUCCESS: the connection's user name is the one named in this request, and the request is handed to
    _finish_userauth with begin_auth set exactly when the user changed (user switch restarts authentication)"""
    evs = c.events('coro')
    tasks = c.events('create_task')
    sp = c.events('saslprep')
    if not sp:
        return z3.BoolVal(False)
    named = sp[0][1][1].z
    pend = z3.Not(c.old('_auth_complete'))
    if not evs or not tasks:
        return z3.Not(pend)
    name, args, co = evs[0][1]
    return z3.Implies(pend, z3.And(
        z3.BoolVal(len(evs) == 1 and len(tasks) == 1 and name == '_finish_userauth' and tasks[0][1][0] is co),
        c.new('_username') == named,
        c.truthy(args[0]) == (named != c.old('_username')),
        z3.BoolVal(args[2] is c.argv('packet') or (isinstance(args[2], VRef) and
                                                   args[2].addr == c.argv('packet').addr))))


def at_handler_entry(c):
    """call site (_recv_packet / SSHPacketHandler.process_packet): only the message type byte has been consumed"""
    return c.ex.get_field(c.old_state, c.argv('packet'), '_idx').z == 1


def ur_service_is_ssh_connection(c):
    """RFC 4252 5: authentication is performed for the service named in the request; this server offers only
    'ssh-connection', so a request that gets as far as being processed names exactly that service"""
    from pyvc.builtins_model import unbe
    pkt = c.ex.get_field(c.old_state, c.argv('packet'), '_packet').z
    i0 = c.ex.get_field(c.old_state, c.argv('packet'), '_idx').z
    ulen = unbe(z3.Extract(pkt, i0, 4))
    s0 = i0 + 4 + ulen
    slen = unbe(z3.Extract(pkt, s0, 4))
    return z3.And(slen == 14, z3.Extract(pkt, s0 + 4, 14) == bytes_const(b'ssh-connection'))


def saslprep_event_stub(cx):
    r = cx.fresh('str', 'saslprep')
    return [Out(ret=r, event=('saslprep', (tuple(cx.args), r))), Out(exc=VExc('SASLPrepError'))]


saslprep_event_stub.modifies = ()

process_userauth_request = Spec(
    PROP, 'connection', 'SSHConnection._process_userauth_request', self_class='SSHConnection',
    params=dict(_pkttype='int', _pktid='int', packet='obj:SSHPacket'),
    classes=SRV_CLASSES, inline=dict(PACKET_INLINE), truthy=PACKET_TRUTHY,
    stubs=dict(ROLE_STUBS, **{'saslprep': saslprep_event_stub, 'self.create_task': conn_create_task_stub,
                              'self._finish_userauth': coro_stub('_finish_userauth'),
                              'Auth.cancel': lambda cx: auth_cancel_stub(cx),
                              'str': lambda cx: cx.fresh('str', 'str_of_exc')}),
    requires=lambda c: z3.And(packet_wf(c, c.argv('packet')), at_handler_entry(c), JC_old(c)),
    ensures=[('class-inv-J', J_new), ('class-inv-C', C_new),
             ('user-changes-only-with-a-new-generation', gen_step_post),
             ('guarantee-live-auth-keeps-its-user', guarantee),
             ('ignored-after-success', ur_ignored_after_success),
             ('processed-for-the-named-user', ur_processed_for_named_user),
             ('only-for-service-ssh-connection', ur_service_is_ssh_connection)],
    raises={'ProtocolError': lambda c: z3.And(ur_frame(c), z3.Or(c.old('_is_client'), z3.And(
        c.old('_auth_complete'), c.old('_auth_final')))),
            'IllegalUserName': ur_frame, 'ServiceNotAvailable': ur_frame, 'PacketDecodeError': ur_frame})


# ---- awaits on the connection side: any other handler may run.  Rely = what every atomic step is proved to
# preserve: J; _auth_complete is never reset and freezes the user name (ignored-after-success).
CONN_ENV = ['_username', '_auth', '_auth_complete', '_auth_final', '_owner', '_key_options', '_cert_options',
            '_options', '_auth_gen', '_config_gen']


def conn_rely(cx, ret, event=None, exc=None):
    ex, st = cx.ex, cx.st
    me = ex.self_ref
    decl = ex.spec.classes[st.rec(me).cls]
    old_complete = ex.get_field(st, me, '_auth_complete').z
    old_user = ex.get_field(st, me, '_username').z
    s2 = st.fork()
    sets = {}
    for f in CONN_ENV:
        if f in decl:
            sets[f] = ex.fresh(s2, decl[f], 'env_' + f)
            s2.set_field(me, f, sets[f])
    # objects allocated for the fresh values must exist in the caller's state too
    st.heap.update({a: cell for a, cell in s2.heap.items() if a not in st.heap})
    st.next_addr = max(st.next_addr, s2.next_addr)
    assume = [inv_J(ex, s2), z3.Implies(old_complete, z3.And(sets['_auth_complete'].z,
                                                             sets['_username'].z == old_user))]
    if '_auth_gen' in decl:
        assume += [inv_C(ex, s2), gen_step(ex, st, s2)]
    return Out(ret=ret, exc=exc, sets=sets, assume=assume, event=event)


def conn_await(name, typ='none'):
    def stub(cx):
        v = cx.fresh(typ, name) if typ != 'none' else VNone
        return [conn_rely(cx, v, event=(name, (tuple(cx.args), v)))]
    stub.modifies = tuple(CONN_ENV)
    return stub


def owner_call(name, typ='any'):
    def stub(cx):
        v = cx.fresh(typ, name)
        return [Out(ret=v, event=(name, (tuple(cx.args), v)))]
    stub.modifies = ()
    return stub


def is_pristine(ex, st):
    ko = ex.deref(st, ex.get_field(st, ex.self_ref, '_key_options'))
    con, _ = opt_parts(ex.get_field(st, ex.self_ref, '_cert_options'))
    if isinstance(ko, VDict):
        return z3.And(z3.BoolVal(len(ko.items) == 0), con)
    return z3.And(ko.dom == z3.K(StrS, False), con)


def fu_lookup_stub(cx):
    """lookup_server_auth(conn, username, method, packet) in _finish_userauth: three obligations of the caller at
    this point, then the callee's verified contract (auth.lookup_server_auth below: state clause
    created-object-is-bound-and-live)"""
    ex, st = cx.ex, cx.st
    me = ex.self_ref
    isnone, a = opt_parts(ex.get_field(st, me, '_auth'))
    cx.require('replaced-auth-object-is-cancelled',
               z3.BoolVal(True) if a is None else z3.Or(isnone, auth_cancelled(ex, st, a)))
    cx.require('new-attempt-is-for-the-current-user', cx.args[1].z == ex.get_field(st, me, '_username').z)
    cx.require('restrictions-are-pristine-when-an-attempt-starts', is_pristine(ex, st))
    # the credential check that starts now reads the per-user configuration (authorized keys file, method switches):
    # it must be the configuration of the user the check is for
    cx.require('configuration-is-for-the-current-user', config_user(ex, st) == ex.get_field(st, me, '_username').z)
    outs = contract_stub(lambda: lookup_server_auth)(cx)
    for o in outs:
        if o.exc is None:
            o.event = ('lookup_server_auth', (tuple(cx.args), o.ret))
    return outs


fu_lookup_stub.modifies = ()
fu_lookup_stub.spec_getter = lambda: lookup_server_auth


def auth_cancel_stub(cx):
    o = Out(osets=[(cx.recv, '_coro', VNone)], event=('auth_cancel', (cx.recv,)))
    o.native_osets = True
    return [o]


auth_cancel_stub.modifies = ()


def fu_success_stub(cx):
    """send_userauth_success() from _finish_userauth: 'no authentication required' - only legitimate when the
    application said so (begin_auth false) for the user that is authenticated now; the effect is the callee's
    verified contract (state clauses authenticated-state / class-inv-J; its awaits are covered by its modifies)"""
    ex, st = cx.ex, cx.st
    evs = [e for e in st.events if e[0] == 'begin_auth']
    ok = z3.BoolVal(False)
    if evs and 'result' in st.env:
        args, _ret = evs[-1][1]
        ok = z3.And(args[0].z == ex.get_field(st, ex.self_ref, '_username').z,
                    z3.Not(ex.truthy(st, st.env['result'])))
    cx.require('no-auth-required-was-decided-for-the-current-user', ok)
    outs = contract_stub(lambda: send_userauth_success)(cx)
    for o in outs:
        if o.exc is None:
            o.event = ('send_userauth_success', ())
    return outs


fu_success_stub.modifies = tuple(CONN_ENV)
fu_success_stub.spec_getter = lambda: send_userauth_success


def fu_no_grant(c):
    return z3.BoolVal(not c.events('send_userauth_success'))


def fu_new_attempt_current(c):
    """when the function installs a new auth object it is conn._auth and J holds for it"""
    evs = c.events('lookup_server_auth')
    if not evs:
        return z3.BoolVal(True)
    _args, r = evs[-1][1]
    return c.eq(c.newv('_auth'), r)


SUCC_FIELDS = dict(SRV_FIELDS, **{
    '_next_service': 'opt[bytes]', '_acceptor': 'opt[opaque:Acceptor]', '_error_handler': 'opt[opaque:Handler]',
    '_wait': 'opt[str]', '_waiter': 'opt[obj:Future]',
})
SUCC_CLASSES = dict(SRV_CLASSES, SSHConnection=SUCC_FIELDS, Future={})


SUCC_CLASSES_LAZY = SUCC_CLASSES

finish_userauth = Spec(
    PROP, 'connection', 'SSHConnection._finish_userauth', self_class='SSHConnection',
    params=dict(begin_auth='bool', method='bytes', packet='obj:SSHPacket'),
    classes=SUCC_CLASSES_LAZY, truthy=PACKET_TRUTHY,
    stubs={'SSHConnection.reload_config': contract_stub(lambda: reload_config),
           'Owner.begin_auth': owner_call('begin_auth'),
           'await result': conn_await('await_result', 'any'),
           'self.send_userauth_success': fu_success_stub,
           'self.send_userauth_failure': contract_stub(lambda: send_userauth_failure),
           'Auth.cancel': auth_cancel_stub,
           'lookup_server_auth': fu_lookup_stub},
    requires=JC_old,
    ensures=[('class-inv-J', J_new), ('class-inv-C', C_new), ('new-attempt-is-current', fu_new_attempt_current)],
    # the connection may have been cleaned up (_owner = None) during reload_config(): the task dies, nothing granted
    raises={'AttributeError': fu_no_grant})


# ---- send_userauth_success / send_userauth_failure
def ev_stub(name, typ='none'):
    def stub(cx):
        v = cx.fresh(typ, name) if typ != 'none' else VNone
        return [Out(ret=v, event=(name, (tuple(cx.args), dict(cx.kwargs), v)))]
    stub.modifies = ()
    return stub


def succ_grant(c):
    """USERAUTH_SUCCESS is sent exactly once, and the user recorded for the session (extra info 'username', what
    sessions and get_extra_info report) is the connection's user at the moment of the grant"""
    sends = [e for e in c.events('send_packet')]
    infos = c.events('set_extra_info')
    if len(sends) != 1 or len(infos) != 1:
        return z3.BoolVal(False)
    args, kwargs, _ = infos[0][1]
    evs = c.events()
    return z3.And(sends[0][1][0][0].z == 52, z3.BoolVal(len(sends[0][1][0]) == 1),
                  z3.BoolVal(set(kwargs) == {'username'} and not args),
                  kwargs['username'].z == c.old('_username'),
                  # the grant precedes every await: no other handler can change the user in between
                  z3.BoolVal(evs.index(sends[0]) < min([i for i, e in enumerate(evs) if e[0].startswith('await')] +
                                                      [len(evs)])))


def succ_state(c):
    """STATE clause (usable by callers): authenticated, and the user cannot have changed"""
    return z3.And(c.new('_auth_complete'), c.new('_username') == c.old('_username'))


def succ_attempt_closed(c):
    n, _ = opt_parts(c.newv('_auth'))
    awaited = any(e[0].startswith('await') for e in c.events())
    # (after an await a request queued before the grant may have installed a new auth object: J still holds)
    return z3.BoolVal(True) if awaited else n


send_userauth_success = Spec(
    PROP, 'connection', 'SSHConnection.send_userauth_success', self_class='SSHConnection',
    classes=SUCC_CLASSES,
    stubs={'self.send_packet': ev_stub('send_packet'), 'self.set_extra_info': ev_stub('set_extra_info'),
           'self._send_deferred_packets': ev_stub('send_deferred'), 'self._cancel_login_timer': ev_stub('t1'),
           'self._set_keepalive_timer': ev_stub('t2'), 'Owner.auth_completed': owner_call('auth_completed'),
           'await result': conn_await('await_result', 'any'),
           'self._acceptor': ev_stub('acceptor', 'any'), 'self.create_task': conn_create_task_stub,
           'Future.cancelled': ev_stub('cancelled', 'bool'), 'Future.set_result': ev_stub('set_result'),
           'SSHConnection.send_server_host_keys': ev_stub('hostkeys')},
    requires=JC_old,
    ensures=[('grant-is-for-the-current-user', succ_grant), ('authenticated-state', succ_state),
             ('attempt-closed', succ_attempt_closed), ('class-inv-J', J_new), ('class-inv-C', C_new),
             ('generations', gen_step_post),
             ('guarantee-live-auth-keeps-its-user', guarantee)],
    modifies=['_auth', '_auth_in_progress', '_auth_complete', '_next_service', '_acceptor', '_error_handler',
              '_wait'] + [f for f in CONN_ENV if f not in ('_auth', '_auth_complete')])


def fail_post(c):
    """a failure answer never grants anything; it ends the current attempt"""
    n, _ = opt_parts(c.newv('_auth'))
    sends = c.events('send_packet')
    return z3.And(n, unchanged(c, '_auth_complete', '_username'),
                  z3.BoolVal(len(sends) == 1) if len(sends) != 1 else sends[0][1][0][0].z == 51)


send_userauth_failure = Spec(
    PROP, 'connection', 'SSHConnection.send_userauth_failure', self_class='SSHConnection',
    params=dict(partial_success='bool'), classes=SRV_CLASSES,
    stubs={'get_supported_server_auth_methods': ev_stub('methods', 'seq[bytes]'),
           'NameList': ev_stub('namelist', 'bytes'), 'self.send_packet': ev_stub('send_packet'),
           'Auth.cancel': lambda cx: auth_cancel_stub(cx)},
    requires=JC_old,
    # G here is what justifies the rely B of every auth task: an auth object dropped by a FAILURE answer must not
    # keep a live task (e.g. the _finish() task of gssapi-with-mic started by an earlier message of the attempt)
    ensures=[('failure-grants-nothing', fail_post), ('class-inv-J', J_new), ('class-inv-C', C_new),
             ('guarantee-live-auth-keeps-its-user', guarantee),
             ('state-unchanged-but-the-attempt', lambda c: unchanged(c, '_auth_complete', '_username'))],
    modifies=['_auth'])


# ---- reload_config: the per-user configuration the credential checks read
RELOAD_FIELDS = dict(SUCC_FIELDS, **{
    '_rdns_lookup': 'bool', '_peer_host': 'str', '_peer_addr': 'str', '_peer_port': 'int', '_loop': 'obj:Loop',
    '_local_addr': 'any', '_local_port': 'any',
    '_host_based_auth': 'bool', '_public_key_auth': 'bool', '_kbdint_auth': 'bool', '_password_auth': 'bool',
    '_authorized_client_keys': 'any', '_allow_pty': 'bool', '_x11_forwarding': 'any', '_agent_forwarding': 'any',
})
RELOAD_CLASSES = dict(SUCC_CLASSES, SSHConnection=RELOAD_FIELDS, Loop={}, SocketModule={})
CONFIG_COPIES = [('_host_based_auth', 'host_based_auth'), ('_public_key_auth', 'public_key_auth'),
                 ('_kbdint_auth', 'kbdint_auth'), ('_password_auth', 'password_auth'),
                 ('_authorized_client_keys', 'authorized_client_keys'), ('_allow_pty', 'allow_pty'),
                 ('_x11_forwarding', 'x11_forwarding'), ('_agent_forwarding', 'agent_forwarding')]


def construct_options_stub(cx):
    """await SSHServerConnectionOptions.construct(..., username=u, ...): an options object built for user u
    (config file evaluation with %u / Match User: C18); an await - other handlers run meanwhile"""
    ex, st = cx.ex, cx.st
    o = cx.fresh('obj:Options', 'new_options')
    user = cx.kwargs.get('username')
    out = conn_rely(cx, o, event=('construct', (dict(cx.kwargs), o)))
    if user is not None:
        out.assume.append(ex.get_field(st, o, 'ghost_for_user').z == user.z)
    return [out]


construct_options_stub.modifies = tuple(CONN_ENV)


def rdns_stub(cx):
    v = cx.fresh('tuple[str,str]', 'nameinfo')
    return [conn_rely(cx, v, event=('getnameinfo', (tuple(cx.args), v)))]


rdns_stub.modifies = tuple(CONN_ENV)


def rc_stored(c):
    """the options object this activation constructed (None if it got that far not) and 'it is now in force'"""
    evs = c.events('construct')
    if not evs:
        return None, z3.BoolVal(False)
    o = evs[0][1][1]
    cur = c.newv('_options')
    return o, z3.BoolVal(isinstance(cur, VRef) and cur.addr == o.addr)


def rc_post(c):
    """Property: a reload stores its result only if it was computed for the user the connection is (still)
    authenticating, and never after authentication completed; and what it stores is one consistent configuration"""
    o, stored = rc_stored(c)
    if o is None:
        return z3.BoolVal(True)
    g = lambda f: c.ex.get_field(c.new_state, o, f)
    copies = [c.eq(c.newv(f), g(a)) for f, a in CONFIG_COPIES]
    return z3.Implies(stored, z3.And(g('ghost_for_user').z == c.new('_username'), z3.Not(c.new('_auth_complete')),
                                     *copies))


def rc_fresh(c):
    """STATE clause for callers: if no user switch happened during the reload and authentication is not complete,
    the configuration in force on return is the current user's"""
    return z3.Implies(z3.And(c.new('_auth_gen') == c.old('_auth_gen'), z3.Not(c.new('_auth_complete'))),
                      config_user(c.ex, c.new_state) == c.new('_username'))


def rc_monotone(c):
    return z3.Implies(c.old('_auth_complete'), z3.And(c.new('_auth_complete'), c.new('_username') == c.old('_username')))


reload_config = Spec(
    PROP, 'connection', 'SSHServerConnection.reload_config', self_class='SSHConnection',
    classes=RELOAD_CLASSES, setup=lambda ex, st: _hb_setup(ex, st),
    stubs={'Loop.getnameinfo': rdns_stub, 'SSHServerConnectionOptions.construct': construct_options_stub},
    requires=JC_old,
    ensures=[('stored-configuration-belongs-to-the-current-user', rc_post),
             ('configuration-is-current-unless-superseded', rc_fresh),
             ('class-inv-J', J_new), ('class-inv-C', C_new), ('generations', gen_step_post),
             ('auth-complete-is-final', rc_monotone)])


# ---- client side: USERAUTH_SUCCESS is honoured only by a client with an authentication in progress
CLI_FIELDS = dict(SUCC_FIELDS, **{
    '_auth': 'opt[obj:ClientAuth]', '_auth_was_trivial': 'bool', '_disable_trivial_auth': 'bool',
    '_auth_methods': 'seq[bytes]', '_can_recv_ext_info': 'bool', '_agent': 'opt[obj:Agent]',
})
CLI_CLASSES = dict(SUCC_CLASSES, SSHConnection=CLI_FIELDS, ClientAuth={}, Agent={})


def cs_accepted_only_when_expected(c):
    """a normal return means: we are the client, an auth attempt was outstanding, and trivial-auth policy allows it"""
    n, _ = opt_parts(c.oldv('_auth'))
    return z3.And(c.old('_is_client'), z3.Not(n),
                  z3.Not(z3.And(c.old('_auth_was_trivial'), c.old('_disable_trivial_auth'))))


def cs_state(c):
    """either only the 'auth_methods' probe is answered (nothing else changes) or the connection becomes
    authenticated and the attempt is closed (succeeded + cancelled)"""
    n, _ = opt_parts(c.newv('_auth'))
    probe = z3.And(unchanged(c, '_auth_complete', '_auth'), z3.BoolVal(not c.events('auth_succeeded')))
    full = z3.And(c.new('_auth_complete'), n,
                  z3.BoolVal(len(c.events('auth_succeeded')) == 1 and len(c.events('auth_cancel')) == 1))
    return z3.Or(probe, full)


def cs_rejected(c):
    n, _ = opt_parts(c.oldv('_auth'))
    return z3.And(unchanged(c, '_auth_complete', '_auth'), z3.Or(z3.Not(c.old('_is_client')), n))


def cs_denied(c):
    return z3.And(unchanged(c, '_auth_complete', '_auth'), c.old('_auth_was_trivial'), c.old('_disable_trivial_auth'))


process_userauth_success = Spec(
    PROP, 'connection', 'SSHConnection._process_userauth_success', self_class='SSHConnection',
    params=dict(_pkttype='int', _pktid='int', packet='obj:SSHPacket'),
    classes=CLI_CLASSES, inline=dict(PACKET_INLINE), truthy=PACKET_TRUTHY,
    stubs=dict(ROLE_STUBS, **{
        'ClientAuth.auth_succeeded': ev_stub('auth_succeeded'), 'ClientAuth.cancel': ev_stub('auth_cancel'),
        'Agent.close': ev_stub('agent_close'),
        'self.set_extra_info': ev_stub('set_extra_info'), 'self._send_deferred_packets': ev_stub('send_deferred'),
        'self._cancel_login_timer': ev_stub('t1'), 'self._set_keepalive_timer': ev_stub('t2'),
        'Owner.auth_completed': owner_call('auth_completed'),
        'self._acceptor': ev_stub('acceptor', 'any'), 'self.create_task': conn_create_task_stub,
        'Future.cancelled': ev_stub('cancelled', 'bool'), 'Future.set_result': ev_stub('set_result')}),
    requires=lambda c: packet_wf(c, c.argv('packet')),
    ensures=[('accepted-only-when-expected', cs_accepted_only_when_expected), ('client-auth-state', cs_state)],
    raises={'ProtocolError': cs_rejected, 'PermissionDenied': cs_denied,
            'PacketDecodeError': lambda c: unchanged(c, '_auth_complete', '_auth')})


# ---- SSHServerConnection.validate_public_key and the credential look-ups behind it
VPK_FIELDS = dict(SRV_OPT_FIELDS, **{
    '_session_id': 'bytes', '_owner': 'opt[obj:Owner]', '_authorized_client_keys': 'opt[obj:AuthKeys]',
    '_peer_host': 'str', '_peer_addr': 'str',
})
VPK_CLASSES = {'SSHServerConnection': VPK_FIELDS, 'Key': {}, 'Owner': {}, 'AuthKeys': {}}


def key_verify_stub(cx):
    r = cx.fresh('bool', 'verified')
    return [Out(ret=r, event=('verify', (cx.recv, tuple(cx.args), r)))]


key_verify_stub.modifies = ()


def vpk_post(c):
    """True  <=>  a key was authorised for (username, key_data) AND, when a message is given, THAT key verified
    signature over String(session_id) + msg"""
    from pyvc.builtins_model import be
    r = c.result_v
    res = c.truthy(r)
    lookups = [(x['key'], (x['args'], x['ret'])) for x in c.calls()
               if x['key'] in ('self._validate_client_certificate', 'self._validate_client_public_key')
               and x.get('exc') is None]
    conj = []
    # every look-up is for the user and key blob of this call
    for _n, (args, _k) in lookups:
        conj.append(z3.And(args[0].z == c.arg('username'), args[1].z == c.arg('key_data')))
    verifies = c.events('verify')
    msg, sig, sid = c.arg('msg'), c.arg('signature'), c.old('_session_id')
    has_msg = z3.Length(msg) > 0
    if verifies:
        recv, vargs, vr = verifies[0][1]
        data_ok = z3.And(vargs[0].z == z3.Concat(z3.Concat(be(z3.IntVal(4), z3.Length(sid)), sid), msg),
                         vargs[1].z == sig)
        from_lookup = z3.Or([z3.And(z3.Not(opt_parts(k)[0]), z3.BoolVal(opt_parts(k)[1].addr == recv.addr))
                             for _n, (_a, k) in lookups] or [z3.BoolVal(False)])
        conj += [z3.BoolVal(len(verifies) == 1), has_msg, data_ok, from_lookup, res == vr.z]
    else:
        # no signature check on this path: only the unsigned query may succeed
        conj.append(z3.Implies(res, z3.Not(has_msg)))
        conj.append(res == z3.Or([z3.Not(opt_parts(k)[0]) for _n, (_a, k) in lookups] or [z3.BoolVal(False)]))
    return z3.And(conj)


validate_public_key = Spec(
    PROP, 'connection', 'SSHServerConnection.validate_public_key', self_class='SSHServerConnection',
    params=dict(username='str', key_data='bytes', msg='bytes', signature='bytes'),
    classes=VPK_CLASSES,
    # the two look-ups are verified below; here they are used through their contracts (requires / modifies / raises)
    stubs={'self._validate_client_certificate': contract_stub(lambda: validate_client_certificate),
           'self._validate_client_public_key': contract_stub(lambda: validate_client_public_key),
           'Key.verify': key_verify_stub},
    ensures=[('signature-by-the-authorised-key-over-session-id-and-request', vpk_post)],
    # a connection torn down during a look-up (_owner None) / missing X.509 configuration: nothing is granted
    raises={'AttributeError': True, 'AssertionError': True})


def touch_stub(cx):
    return [Out(event=('set_touch_required', (cx.recv, tuple(cx.args))))]


touch_stub.modifies = ()


def decode_key_stub(cx):
    k = cx.fresh('obj:Key', 'decoded_key')
    return [Out(ret=k, event=('decode_key', (tuple(cx.args), k))), Out(exc=VExc('KeyImportError'))]


decode_key_stub.modifies = ()


def srv_await(name, typ='any'):
    """await inside SSHServerConnection.validate_*: other handlers may run and store other restrictions"""
    def stub(cx):
        ex, st = cx.ex, cx.st
        v = cx.fresh(typ, name)
        decl = ex.spec.classes[st.rec(ex.self_ref).cls]
        sets = {f: cx.fresh(decl[f], 'env_' + f) for f in ('_key_options', '_cert_options') if f in decl}
        return [Out(ret=v, sets=sets, event=(name, (tuple(cx.args), v)))]
    stub.modifies = ('_key_options', '_cert_options')
    return stub


def options_equal(c, v, opts):
    """field value v (after the call) is the dict `opts` (None: the empty dict)"""
    v = c.ex.deref(c.new_state, v)
    if opts is None:
        if isinstance(v, VDict):
            return z3.BoolVal(len(v.items) == 0)
        if isinstance(v, VMap):
            return v.dom == z3.K(StrS, False)
        return z3.BoolVal(False)
    if isinstance(v, VMap):
        return z3.And(v.dom == opts.dom, v.val == opts.val)
    return z3.BoolVal(False)


def vck_post(c):
    """a key is returned only if authorized_keys lists it for this peer or the application accepts it for THIS
    user, and the restrictions stored are exactly those of the matching entry (none for an application-accepted key)"""
    n, k = opt_parts(c.result_v)
    dec = c.events('decode_key')
    look = c.events('authkeys_validate')
    own = c.events('owner_validate_public_key')
    if k is None:
        return z3.BoolVal(True)
    if not dec:
        return n
    dargs, dk = dec[0][1]
    conj = [z3.BoolVal(isinstance(k, VRef) and k.addr == dk.addr), dargs[0].z == c.arg('key_data')]
    matched = None
    if look:
        largs, _kw, lret = look[0][1]
        mn, mv = opt_parts(lret)
        conj.append(z3.And(z3.BoolVal(largs[0].addr == dk.addr), largs[1].z == c.old('_peer_host'),
                           largs[2].z == c.old('_peer_addr')))
        matched = (mn, mv)
    app_ok = z3.BoolVal(False)
    if own:
        oargs, _oret = own[0][1]
        final = c.new_state.env.get('result')
        app_ok = z3.And(oargs[0].z == c.arg('username'), z3.BoolVal(oargs[1].addr == dk.addr),
                        c.truthy(final) if final is not None else z3.BoolVal(False))
    if matched is not None:
        mn, mv = matched
        conj.append(z3.Or(z3.Not(mn), app_ok))
        conj.append(z3.If(mn, options_equal(c, c.newv('_key_options'), None),
                          options_equal(c, c.newv('_key_options'), mv)))
    else:
        conj.append(app_ok)
        conj.append(options_equal(c, c.newv('_key_options'), None))
    return z3.Implies(z3.Not(n), z3.And(conj))


def vck_rejected(c):
    """a rejected key stores no restrictions"""
    n, _k = opt_parts(c.result_v)
    if c.events('await_result'):
        return z3.BoolVal(True)
    v0, v1 = c.oldv('_key_options'), c.ex.deref(c.new_state, c.newv('_key_options'))
    same = z3.And(v0.dom == v1.dom, v0.val == v1.val) if isinstance(v1, VMap) else z3.BoolVal(False)
    return z3.Implies(n, same)


def opt_flag(c, v, name):
    """options dict value v (after the call) has a truthy entry `name`"""
    v = c.ex.deref(c.new_state, v)
    if isinstance(v, VMap):
        k = z3.StringVal(name)
        return z3.And(z3.Select(v.dom, k), truthy_any(z3.Select(v.val, k)))
    return z3.BoolVal(False)


def touch_events_for(c, key):
    return [e for e in c.events('set_touch_required') if isinstance(e[1][0], VRef) and e[1][0].addr == key.addr]


def vck_touch(c):
    """restriction of the accepted credential: user presence (touch) is required from a security key unless the
    accepted authorized_keys entry says no-touch-required"""
    n, k = opt_parts(c.result_v)
    if k is None:
        return z3.BoolVal(True)
    evs = touch_events_for(c, k)
    if len(evs) != 1:
        return n
    arg = evs[0][1][1][0]
    return z3.Implies(z3.Not(n), c.truthy(arg) == z3.Not(opt_flag(c, c.newv('_key_options'), 'no-touch-required')))


def vck_admitted(c):
    """conversely: a key that authorized_keys lists for this peer, or that the application accepts for this user, is
    admitted"""
    n, k = opt_parts(c.result_v)
    dec = c.events('decode_key')
    if not dec:
        return z3.BoolVal(True)
    look = c.events('authkeys_validate')
    own = c.events('owner_validate_public_key')
    listed = z3.Not(opt_parts(look[0][1][2])[0]) if look else z3.BoolVal(False)
    final = c.new_state.env.get('result')
    accepted = c.truthy(final) if (own and final is not None) else z3.BoolVal(False)
    return z3.Implies(z3.Or(listed, accepted), z3.Not(n))


validate_client_public_key = Spec(
    PROP, 'connection', 'SSHServerConnection._validate_client_public_key', self_class='SSHServerConnection',
    params=dict(username='str', key_data='bytes'), classes=VPK_CLASSES,
    inline={'self.get_key_option': ('connection', 'SSHServerConnection.get_key_option')},
    stubs={'decode_ssh_public_key': decode_key_stub,
           'AuthKeys.validate': ev_stub('authkeys_validate', 'opt[' + OPTS + ']'),
           'Owner.validate_public_key': owner_call('owner_validate_public_key'),
           'await result': srv_await('await_result'),
           'Key.set_touch_required': touch_stub},
    ensures=[('key-is-authorised-for-this-user-and-its-restrictions-stored', vck_post),
             ('rejected-key-stores-no-restrictions', vck_rejected),
             ('touch-required-unless-the-accepted-entry-waives-it', vck_touch),
             ('listed-or-accepted-key-is-admitted', vck_admitted)],
    returns='opt[obj:Key]', modifies=['_key_options', '_cert_options'],
    raises={'AttributeError': True})


# ---- OpenSSH user certificates
CERT_CLASSES = dict(VPK_CLASSES, Cert={'signing_key': 'obj:Key', 'principals': 'seq[str]', 'options': OPTS,
                                       'key': 'obj:Key', 'is_x509_chain': 'bool'})


def cert_validate_stub(cx):
    return [Out(event=('cert_validate', (tuple(cx.args), None))), Out(exc=VExc('ValueError'))]


cert_validate_stub.modifies = ()


def voc_post(c):
    """the certificate's key is returned only if its CA is trusted for this peer/principals (authorized_keys
    cert-authority entry) or accepted by the application for THIS user, the certificate validated as a user
    certificate for this user (or for the entry's principals), and the restrictions stored are exactly the CA
    entry's options and the certificate's own options"""
    n, k = opt_parts(c.result_v)
    if k is None:
        return z3.BoolVal(True)
    cert = c.argv('cert')
    st0 = c.old_state
    g = lambda f: c.ex.get_field(st0, cert, f)
    conj = [z3.BoolVal(isinstance(k, VRef) and k.addr == g('key').addr)]
    look = c.events('authkeys_validate')
    own = c.events('owner_validate_ca_key')
    cv = c.events('cert_validate')
    matched = None
    if look:
        largs, kw, lret = look[0][1]
        conj.append(z3.And(z3.BoolVal(largs[0].addr == g('signing_key').addr), largs[1].z == c.old('_peer_host'),
                           largs[2].z == c.old('_peer_addr'), largs[3].z == g('principals').z,
                           c.truthy(kw['ca']) if 'ca' in kw else z3.BoolVal(False)))
        matched = opt_parts(lret)
    app_ok = z3.BoolVal(False)
    if own:
        oargs, _r = own[0][1]
        final = c.new_state.env.get('result')
        app_ok = z3.And(oargs[0].z == c.arg('username'), z3.BoolVal(oargs[1].addr == g('signing_key').addr),
                        c.truthy(final) if final is not None else z3.BoolVal(False))
    if matched is not None:
        mn, mv = matched
        conj.append(z3.Or(z3.Not(mn), app_ok))
        conj.append(z3.If(mn, options_equal(c, c.newv('_key_options'), None),
                          options_equal(c, c.newv('_key_options'), mv)))
    else:
        conj += [app_ok, options_equal(c, c.newv('_key_options'), None)]
    # validated as a USER certificate (type 1) for this user unless the CA entry names principals
    if not cv:
        conj.append(z3.BoolVal(False))
    else:
        vargs, _ = cv[0][1]
        ko = c.ex.deref(c.new_state, c.newv('_key_options'))
        if isinstance(ko, VMap):
            pkey = z3.StringVal('principals')
            has_pr = z3.And(z3.Select(ko.dom, pkey), truthy_any(z3.Select(ko.val, pkey)))
        else:
            has_pr = z3.BoolVal(False)
        user_ok = z3.BoolVal(True)
        if vargs[1] is VNone:
            user_ok = has_pr
        elif isinstance(vargs[1], VStr):
            user_ok = z3.And(z3.Not(has_pr), vargs[1].z == c.arg('username'))
        elif isinstance(vargs[1], VOpt):
            user_ok = z3.If(vargs[1].isnone, has_pr, z3.And(z3.Not(has_pr), vargs[1].val.z == c.arg('username')))
        conj += [vargs[0].z == 1, user_ok]
    # the certificate's own options are the ones enforced afterwards
    co_n, co = opt_parts(c.newv('_cert_options'))
    copts = g('options')
    co = c.ex.deref(c.new_state, co) if co is not None else None
    conj.append(z3.And(z3.Not(co_n), co.dom == copts.dom, co.val == copts.val) if isinstance(co, VMap)
                else z3.BoolVal(False))
    # source-address restriction honoured
    sa = c.events('any_network_matches')
    addr_key = z3.StringVal('source-address')
    restricted = z3.And(z3.Select(copts.dom, addr_key), truthy_any(z3.Select(copts.val, addr_key)))
    conj.append(z3.Implies(restricted, z3.BoolVal(len(sa) == 1) if not sa else sa[0][1][2].z))
    return z3.Implies(z3.Not(n), z3.And(conj))


def voc_rejected(c):
    """a rejected certificate does not become the source of certificate restrictions"""
    n, _k = opt_parts(c.result_v)
    if c.events('await_result'):
        return z3.BoolVal(True)
    # (the field still holds the very value object it held at entry: no store happened)
    return z3.Implies(n, z3.BoolVal(c.newv('_cert_options') is c.oldv('_cert_options')))


def voc_touch(c):
    """touch is waived only if BOTH the CA's authorized_keys entry and the certificate say no-touch-required"""
    n, k = opt_parts(c.result_v)
    if k is None:
        return z3.BoolVal(True)
    evs = touch_events_for(c, k)
    if len(evs) != 1:
        return n
    arg = evs[0][1][1][0]
    _cn, co = opt_parts(c.newv('_cert_options'))
    waived = z3.And(opt_flag(c, c.newv('_key_options'), 'no-touch-required'),
                    opt_flag(c, co, 'no-touch-required') if co is not None else z3.BoolVal(False))
    return z3.Implies(z3.Not(n), c.truthy(arg) == z3.Not(waived))


def voc_admitted(c):
    """conversely: a certificate of a trusted / accepted CA that validates for the user and satisfies its
    source-address restriction is admitted"""
    n, _k = opt_parts(c.result_v)
    look = c.events('authkeys_validate')
    own = c.events('owner_validate_ca_key')
    cv = c.events('cert_validate')
    if not cv:
        return z3.BoolVal(True)         # certificate validation failed or was not reached
    listed = z3.Not(opt_parts(look[0][1][2])[0]) if look else z3.BoolVal(False)
    final = c.new_state.env.get('result')
    accepted = c.truthy(final) if (own and final is not None) else z3.BoolVal(False)
    sa = c.events('any_network_matches')
    cert = c.argv('cert')
    copts = c.ex.get_field(c.old_state, cert, 'options')
    addr_key = z3.StringVal('source-address')
    restricted = z3.And(z3.Select(copts.dom, addr_key), truthy_any(z3.Select(copts.val, addr_key)))
    addr_ok = z3.Or(z3.Not(restricted), sa[0][1][2].z if sa else z3.BoolVal(False))
    return z3.Implies(z3.And(z3.Or(listed, accepted), addr_ok), z3.Not(n))


validate_openssh_certificate = Spec(
    PROP, 'connection', 'SSHServerConnection._validate_openssh_certificate', self_class='SSHServerConnection',
    params=dict(username='str', cert='obj:Cert'), classes=CERT_CLASSES,
    inline={'self.get_key_option': ('connection', 'SSHServerConnection.get_key_option'),
            'self.get_certificate_option': ('connection', 'SSHServerConnection.get_certificate_option')},
    stubs={'AuthKeys.validate': ev_stub('authkeys_validate', 'opt[' + OPTS + ']'),
           'Owner.validate_ca_key': owner_call('owner_validate_ca_key'),
           'await result': srv_await('await_result'),
           'Cert.validate': cert_validate_stub,
           'ip_address': ev_stub('ip_address', 'opaque:IP'),
           'any': ev_stub('any_network_matches', 'bool'),
           'Key.set_touch_required': touch_stub},
    ensures=[('certificate-is-authorised-for-this-user-and-its-restrictions-stored', voc_post),
             ('rejected-certificate-stores-no-certificate-restrictions', voc_rejected),
             ('touch-waived-only-by-entry-and-certificate-together', voc_touch),
             ('trusted-valid-certificate-is-admitted', voc_admitted)],
    returns='opt[obj:Key]', modifies=['_key_options', '_cert_options'],
    raises={'AttributeError': True})


# ---- X.509 certificate chains (chain validation itself is an abstract object, as in C04)
X509_FIELDS = dict(VPK_FIELDS, _x509_trusted_certs='opt[seq[opaque:X509Cert]]',
                   _x509_trusted_cert_paths='seq[str]', _x509_purposes='any')
X509_CLASSES = dict(CERT_CLASSES, SSHServerConnection=X509_FIELDS)


def validate_chain_stub(cx):
    ev = ('validate_chain', (tuple(cx.args), dict(cx.kwargs)))
    return [Out(event=ev), Out(exc=VExc('ValueError'), event=ev)]


validate_chain_stub.modifies = ()


def vx_post(c):
    """the chain's key is returned only if an authorized_keys X.509 entry matched this certificate for this peer,
    the chain validated for THIS user (or for the entry's principals), and the entry's options are the ones stored"""
    n, k = opt_parts(c.result_v)
    if k is None:
        return z3.BoolVal(True)
    cert = c.argv('cert')
    look = c.events('authkeys_validate_x509')
    vc = c.events('validate_chain')
    if not look or not vc:
        return n
    largs, _kw, lret = look[0][1]
    mn, mv = opt_parts(lret.items[0])
    ko = c.ex.deref(c.new_state, c.newv('_key_options'))
    pkey = z3.StringVal('principals')
    has_pr = z3.And(z3.Select(ko.dom, pkey), truthy_any(z3.Select(ko.val, pkey))) if isinstance(ko, VMap) \
        else z3.BoolVal(False)
    vargs, vkw = vc[0][1]
    up = vkw.get('user_principal')
    return z3.Implies(z3.Not(n), z3.And(
        z3.BoolVal(isinstance(k, VRef) and k.addr == c.ex.get_field(c.old_state, cert, 'key').addr),
        z3.BoolVal(largs[0].addr == cert.addr), largs[1].z == c.old('_peer_host'), largs[2].z == c.old('_peer_addr'),
        z3.Not(mn), options_equal(c, c.newv('_key_options'), mv),
        up.z == z3.If(has_pr, z3.StringVal(''), c.arg('username')) if up is not None else z3.BoolVal(False)))


validate_x509_certificate_chain = Spec(
    PROP, 'connection', 'SSHServerConnection._validate_x509_certificate_chain', self_class='SSHServerConnection',
    params=dict(username='str', cert='obj:Cert'), classes=X509_CLASSES,
    inline={'self.get_key_option': ('connection', 'SSHServerConnection.get_key_option')},
    stubs={'AuthKeys.validate_x509': ev_stub('authkeys_validate_x509', 'tuple[opt[' + OPTS + '],opt[opaque:X509Cert]]'),
           'Cert.validate_chain': validate_chain_stub, 'set': ev_stub('empty_set', 'any')},
    ensures=[('chain-is-authorised-for-this-user-and-its-restrictions-stored', vx_post)],
    returns='opt[obj:Key]', modifies=['_key_options', '_cert_options'],
    raises={'AssertionError': True})


# ---- the dispatcher: which look-up sees which user and which certificate
def decode_cert_stub(cx):
    cert = cx.fresh('obj:Cert', 'decoded_cert')
    return [Out(ret=cert, event=('decode_cert', (tuple(cx.args), cert))), Out(exc=VExc('KeyImportError'))]


decode_cert_stub.modifies = ()


def same_opt_ref(a, b):
    """two Optional[object] values denote the same thing"""
    if a is b:
        return z3.BoolVal(True)
    an, av = opt_parts(a)
    bn, bv = opt_parts(b)
    if av is None or bv is None:
        return z3.And(an, bn)
    return z3.And(an == bn, z3.Or(an, z3.BoolVal(av.addr == bv.addr)))


def vcc_post(c):
    """a key comes only from the verified look-up that fits the certificate kind, asked about THIS user and the
    certificate decoded from THIS key blob"""
    n, k = opt_parts(c.result_v)
    dec = c.events('decode_cert')
    calls = [x for x in c.calls() if x['key'] in ('self._validate_openssh_certificate',
                                                  'self._validate_x509_certificate_chain')]
    if not dec or len(calls) != 1:
        return n
    dargs, cert = dec[0][1]
    call = calls[0]
    is_x = c.ex.get_field(c.old_state if cert.addr in c.old_state.heap else c.new_state, cert, 'is_x509_chain').z
    right = is_x if call['key'].endswith('x509_certificate_chain') else z3.Not(is_x)
    return z3.And(dargs[0].z == c.arg('key_data'), right, call['args'][0].z == c.arg('username'),
                  z3.BoolVal(call['args'][1].addr == cert.addr), same_opt_ref(c.result_v, call['ret']))


validate_client_certificate = Spec(
    PROP, 'connection', 'SSHServerConnection._validate_client_certificate', self_class='SSHServerConnection',
    params=dict(username='str', key_data='bytes'), classes=X509_CLASSES,
    stubs={'decode_ssh_certificate': decode_cert_stub,
           'self._validate_openssh_certificate': contract_stub(lambda: validate_openssh_certificate),
           'self._validate_x509_certificate_chain': contract_stub(lambda: validate_x509_certificate_chain)},
    ensures=[('key-only-from-the-verified-look-up-for-this-user-and-certificate', vcc_post)],
    returns='opt[obj:Key]', modifies=['_key_options', '_cert_options'],
    raises={'AttributeError': True, 'AssertionError': True})


# ====================================================================================================
# auth.py - task bookkeeping: "cancelled" must really stop every task working for an auth object
# K: the task that runs code of auth object A is the one recorded in A._coro, so Auth.cancel() stops it.
# ====================================================================================================
TASK = {'ghost_coro': 'opaque:Coro'}          # ghost: the coroutine object the task runs
# ghost_stopped (on the auth object): the coroutines whose tasks this object has cancelled so far, in order.  The
# contracts of Auth.cancel / Auth.create_task are stated over this STATE (not over the event log), so that callers
# can use them through contract_stub.
STOPPED = 'seq[opaque:Coro]'
BOOK_FIELDS = {'_conn': 'obj:Conn', '_coro': 'opt[obj:Task]', '_username': 'str', '_method': 'bytes',
               'ghost_stopped': STOPPED}
BOOK_CLASSES = dict({'ServerAuth': BOOK_FIELDS, 'Conn': {}, 'Task': TASK}, **PACKET_CLASSES)


def conn_ensure_future_stub(cx):
    """SSHConnection.create_task(coro): asyncio.ensure_future(coro) - the returned task runs exactly `coro`"""
    ex, st = cx.ex, cx.st
    t = cx.fresh('obj:Task', 'task')
    co = cx.args[0]
    assume = [ex.get_field(st, t, 'ghost_coro').z == co.z] if hasattr(co, 'z') else []
    return [Out(ret=t, assume=assume, event=('conn_create_task', (cx.recv, co, t)))]


conn_ensure_future_stub.modifies = ()


def task_cancel_stub(cx):
    """Task.cancel(): ghost-log the cancelled task's coroutine in the auth object's register"""
    ex, st = cx.ex, cx.st
    reg = ex.get_field(st, ex.self_ref, 'ghost_stopped')
    co = ex.get_field(st, cx.recv, 'ghost_coro').z
    return [Out(osets=[(ex.self_ref, 'ghost_stopped', VSeq(z3.Concat(reg.z, z3.Unit(co)), 'opaque:Coro'))],
                event=('task_cancel', (cx.recv,)))]


task_cancel_stub.modifies = ('ghost_stopped',)


def stopped_old_task(c):
    """the register grew by exactly the coroutine of the task recorded at entry (if there was one)"""
    n0, t0 = opt_parts(c.oldv('_coro'))
    r0, r1 = c.old('ghost_stopped'), c.new('ghost_stopped')
    if t0 is None:
        return r1 == r0
    co = c.ex.get_field(c.old_state, t0, 'ghost_coro').z
    return z3.If(n0, r1 == r0, r1 == z3.Concat(r0, z3.Unit(co)))


def cancel_post(c):
    """after cancel() the object counts as cancelled (_coro is None) and the task it had was really cancelled"""
    n1, _ = opt_parts(c.newv('_coro'))
    return z3.And(n1, stopped_old_task(c))


auth_cancel = Spec(
    PROP, 'auth', 'Auth.cancel', self_class='ServerAuth', classes=BOOK_CLASSES,
    stubs={'Task.cancel': task_cancel_stub},
    modifies=['_coro', 'ghost_stopped'],
    ensures=[('cancel-stops-the-recorded-task', cancel_post)])


def tracks(c, co):
    """self._coro is a task running coroutine object `co`"""
    n, t = opt_parts(c.newv('_coro'))
    if t is None:
        return z3.BoolVal(False)
    return z3.And(z3.Not(n), c.ex.get_field(c.new_state, t, 'ghost_coro').z == co)


def create_task_post(c):
    return z3.And(stopped_old_task(c), tracks(c, c.arg('coro')))


auth_create_task = Spec(
    PROP, 'auth', 'Auth.create_task', self_class='ServerAuth', params=dict(coro='opaque:Coro'),
    classes=BOOK_CLASSES,
    stubs={'self.cancel': contract_stub(lambda: auth_cancel), 'Conn.create_task': conn_ensure_future_stub},
    modifies=['_coro', 'ghost_stopped'],
    ensures=[('previous-task-stopped-and-new-task-recorded', create_task_post)])

auth_init = Spec(
    PROP, 'auth', 'Auth.__init__', self_class='ServerAuth', params=dict(conn='obj:Conn', coro='opaque:Coro'),
    classes=BOOK_CLASSES, stubs={'Conn.create_task': conn_ensure_future_stub},
    modifies=['_coro', '_conn'],
    ensures=[('first-task-recorded', lambda c: z3.And(tracks(c, c.arg('coro')),
                                                     c.eq(c.newv('_conn'), c.argv('conn'))))])


def fresh_coro_stub(name):
    def stub(cx):
        co = cx.fresh('opaque:Coro', 'coro_' + name)
        return [Out(ret=co, event=('coro', (name, tuple(cx.args), co)))]
    stub.modifies = ()
    return stub


def server_auth_init_post(c):
    """the object is bound to the user and method it was created for and its _start(packet) task is recorded"""
    evs = c.events('coro')
    if len(evs) != 1:
        return z3.BoolVal(False)
    name, args, co = evs[0][1]
    return z3.And(z3.BoolVal(name == '_start' and args[0].addr == c.argv('packet').addr),
                  c.new('_username') == c.arg('username'), c.new('_method') == c.arg('method'),
                  tracks(c, co.z), c.eq(c.newv('_conn'), c.argv('conn')))


def auth_init_effect(cx):
    """effect of Auth.__init__(conn, coro) exactly as proved above (first-task-recorded): _conn = conn and _coro
    is a task running coro.  (contract_stub cannot express 'field is the argument object', hence by hand)"""
    ex, st = cx.ex, cx.st
    t = cx.fresh('obj:Task', 'task')
    return [Out(sets={'_conn': cx.args[0], '_coro': t},
                assume=[ex.get_field(st, t, 'ghost_coro').z == cx.args[1].z])]


auth_init_effect.modifies = ('_conn', '_coro')

server_auth_init = Spec(
    PROP, 'auth', 'ServerAuth.__init__', self_class='ServerAuth',
    params=dict(conn='obj:Conn', username='str', method='bytes', packet='obj:SSHPacket'),
    classes=BOOK_CLASSES,
    stubs={'self._start': fresh_coro_stub('_start'),
           'super().__init__': auth_init_effect},
    ensures=[('bound-to-user-and-task-recorded', server_auth_init_post)])


def info_response_post(c):
    """the validation of the responses runs in a task recorded in self._coro (so that cancel() stops it), for
    exactly the responses of this message"""
    evs = c.events('coro')
    if len(evs) != 1:
        return z3.BoolVal(False)
    name, args, co = evs[0][1]
    return z3.And(z3.BoolVal(name == '_validate_response'), tracks(c, co.z))


def pir_inv(c):
    p = c.localv('packet')
    return packet_wf(c, p)


_pir_loop = LoopSpec(invariant=pir_inv)
_pir_loop.havoc_locals = ['packet']

process_info_response = Spec(
    PROP, 'auth', '_ServerKbdIntAuth._process_info_response', self_class='ServerAuth',
    params=dict(_pkttype='int', _pktid='int', packet='obj:SSHPacket'),
    classes=BOOK_CLASSES, inline=dict(PACKET_INLINE), truthy=PACKET_TRUTHY,
    local_types={'packet': 'obj:SSHPacket', 'responses': 'seq[str]', 'response_bytes': 'bytes', 'response': 'str'},
    stubs={'self._validate_response': fresh_coro_stub('_validate_response'),
           'self.create_task': contract_stub(lambda: auth_create_task),
           'Conn.create_task': conn_ensure_future_stub},
    loops={1: _pir_loop},
    requires=lambda c: packet_wf(c, c.argv('packet')),
    ensures=[('validation-task-is-recorded-in-the-auth-object', info_response_post)],
    raises={'ProtocolError': lambda c: z3.BoolVal(not c.events('coro')),
            'PacketDecodeError': lambda c: z3.BoolVal(not c.events('coro'))})


# ---- lookup_server_auth / thin wrappers
def new_auth_stub(cx):
    """handler(conn, username, method, packet): constructor of a ServerAuth subclass; contract of
    ServerAuth.__init__ proved above (bound-to-user-and-task-recorded); subclasses only add a GSS context"""
    ex, st = cx.ex, cx.st
    a = cx.fresh('obj:Auth', 'auth')
    g = lambda f: ex.get_field(st, a, f)
    cn, _ = opt_parts(g('_coro'))
    return [Out(ret=a, assume=[g('_username').z == cx.args[1].z, g('_method').z == cx.args[2].z, z3.Not(cn)],
                event=('new_auth', (tuple(cx.args), a)))]


new_auth_stub.modifies = ()


def lookup_post(c):
    """an auth object is created only for a supported method, for exactly the user / method / packet passed in,
    with a live task; otherwise the request is answered with FAILURE and nothing is created"""
    n, a = opt_parts(c.result_v)
    new = c.events('new_auth')
    fail = c.events('send_userauth_failure')
    sup = c.events('supported')
    if a is None:
        return z3.BoolVal(len(fail) == 1 and not new)
    if len(new) != 1 or fail or len(sup) != 1:
        return z3.BoolVal(False)
    args, obj = new[0][1]
    return z3.And(z3.Not(n), z3.BoolVal(obj.addr == a.addr), sup[0][1][2].z,
                  z3.BoolVal(args[0].addr == c.argv('conn').addr and args[3].addr == c.argv('packet').addr),
                  args[1].z == c.arg('username'), args[2].z == c.arg('method'))


def lookup_state_post(c):
    """STATE clause (usable by callers through contract_stub): a returned object is for exactly the user and method
    passed in and has a live task"""
    n, a = opt_parts(c.result_v)
    if a is None:
        return z3.BoolVal(True)
    g = lambda f: c.ex.get_field(c.new_state, a, f)
    cn, _ = opt_parts(g('_coro'))
    return z3.Implies(z3.Not(n), z3.And(g('_username').z == c.arg('username'), g('_method').z == c.arg('method'),
                                        z3.Not(cn)))


lookup_server_auth = Spec(
    PROP, 'auth', 'lookup_server_auth',
    params=dict(conn='obj:Conn', username='str', method='bytes', packet='obj:SSHPacket'),
    classes=dict({'Conn': {}, 'HandlerClass': {}, 'Task': {}, 'Auth': AUTHOBJ}, **PACKET_CLASSES),
    returns='opt[obj:Auth]',
    globals={'_server_auth_handlers': VTag('dict:_server_auth_handlers')},
    stubs={'_server_auth_handlers.get': ev_stub('handler_lookup', 'opt[obj:HandlerClass]'),
           'HandlerClass.supported': ev_stub('supported', 'bool'),
           'handler': new_auth_stub,
           'Conn.send_userauth_failure': ev_stub('send_userauth_failure')},
    ensures=[('auth-object-only-for-supported-method-and-bound-to-the-request', lookup_post),
             ('created-object-is-bound-and-live', lookup_state_post)])

WRAP_CLASSES = {'ServerAuth': {'_conn': 'obj:Conn'}, 'Conn': {}}
server_auth_send_success = Spec(
    PROP, 'auth', 'ServerAuth.send_success', self_class='ServerAuth', classes=WRAP_CLASSES,
    stubs={'Conn.send_userauth_success': ev_stub('conn_success')},
    ensures=[('exactly-the-connection-grant', lambda c: z3.BoolVal(len(c.events()) == 1 and
                                                                  len(c.events('conn_success')) == 1))])
server_auth_send_failure = Spec(
    PROP, 'auth', 'ServerAuth.send_failure', self_class='ServerAuth', params=dict(partial_success='bool'),
    classes=WRAP_CLASSES, stubs={'Conn.send_userauth_failure': ev_stub('conn_failure')},
    ensures=[('failure-never-grants', lambda c: z3.BoolVal(len(c.events()) == 1 and
                                                           len(c.events('conn_failure')) == 1))])

# ---- none: never grants
null_start = Spec(
    PROP, 'auth', '_ServerNullAuth._start', self_class='ServerAuth', params=dict(packet='obj:SSHPacket'),
    classes=AUTH_CLASSES, stubs={'self.send_success': send_success_stub(never)},
    ensures=[('none-never-grants', lambda c: z3.BoolVal(not c.events()))])
null_supported = Spec(
    PROP, 'auth', '_ServerNullAuth.supported', self_class='ServerAuth', params=dict(conn='obj:Conn'),
    classes={'ServerAuth': {}, 'Conn': {}},
    ensures=[('none-is-never-offered', lambda c: z3.Not(c.truthy(c.result_v)))])


# ---- GSS (library not installed in the sandbox: the GSS context is an abstract object)
GSS = {'complete': 'bool', 'provides_integrity': 'bool', 'user': 'str', 'host': 'str'}
GSS_AUTH_CLASSES = dict(AUTH_CLASSES, ServerAuth=dict(AUTH_FIELDS, _gss='obj:GSS'), GSS=GSS)


def gss_verify_stub(cx):
    r = cx.fresh('bool', 'mic_ok')
    return [Out(ret=r, event=('gss_verify', (tuple(cx.args), r)))]


gss_verify_stub.modifies = ()


def mic_over_request(ex, st):
    """the MIC was verified over get_userauth_request_data(self._method) (session id + this user + method)"""
    ver = [e for e in st.events if e[0] == 'gss_verify']
    dat = [e for e in st.events if e[0] == 'request_data']
    if not ver or not dat:
        return z3.BoolVal(False)
    (vargs, vr), (dargs, _kw, dret) = ver[-1][1], dat[-1][1]
    gss = ex.get_field(st, ex.self_ref, '_gss')
    return z3.And(vr.z, vargs[0].z == dret.z, dargs[0].z == ex.get_field(st, ex.self_ref, '_method').z,
                  ex.get_field(st, gss, 'complete').z)


def gss_identity(ex, st, args):
    """the identity presented to the application is the one the GSS context established (not a client-chosen name)"""
    gss = ex.get_field(st, ex.self_ref, '_gss')
    return z3.And(args[1].z == ex.get_field(st, gss, 'user').z, args[2].z == ex.get_field(st, gss, 'host').z)


gss_principal_cred = cred_from('validate_gss_principal', extra=gss_identity)


def gsskex_cred(ex, st):
    return z3.And(mic_over_request(ex, st), gss_principal_cred(ex, st))


def gss_spec(qualname, cred, stubs, **kw):
    sp = auth_spec(qualname, cred, dict({'GSS.verify': gss_verify_stub,
                                         'self._conn.get_userauth_request_data': ev_stub('request_data', 'bytes')},
                                        **stubs), **kw)
    sp.classes = {c: {f: parse_type(t) for f, t in fs.items()} for c, fs in GSS_AUTH_CLASSES.items()}
    return sp


gsskex_start = gss_spec(
    '_ServerGSSKexAuth._start', gsskex_cred,
    {'self._conn.validate_gss_principal': awaited_validator('validate_gss_principal')})

# gssapi-with-mic: _finish is started only after the context completed and (if it provides integrity) the MIC
# over the request verified; _finish then asks the application about the principal
gssmic_finish = gss_spec(
    '_ServerGSSMICAuth._finish', gss_principal_cred,
    {'self._conn.validate_gss_principal': awaited_validator('validate_gss_principal')}, params={}, raises={})

GSS_BOOK = dict(BOOK_CLASSES, ServerAuth=dict(BOOK_FIELDS, _gss='obj:GSS'), GSS=GSS)


def gss_finish_started(pred):
    def post(c):
        evs = c.events('coro')
        fail = c.events('send_failure')
        if not evs:
            return z3.BoolVal(len(fail) == 1)
        name, _args, co = evs[0][1]
        return z3.And(z3.BoolVal(len(evs) == 1 and name == '_finish' and not fail), tracks(c, co.z),
                      pred(c.ex, c.new_state))
    return post


def gss_complete_no_integrity(ex, st):
    gss = ex.get_field(st, ex.self_ref, '_gss')
    return z3.And(ex.get_field(st, gss, 'complete').z, z3.Not(ex.get_field(st, gss, 'provides_integrity').z))


def gss_mic_ok(ex, st):
    gss = ex.get_field(st, ex.self_ref, '_gss')
    return z3.And(mic_over_request(ex, st), ex.get_field(st, gss, 'provides_integrity').z)


def gss_book_spec(qualname, pred):
    return Spec(
        PROP, 'auth', qualname, self_class='ServerAuth',
        params=dict(_pkttype='int', _pktid='int', packet='obj:SSHPacket'),
        classes=GSS_BOOK, inline=dict(PACKET_INLINE), truthy=PACKET_TRUTHY,
        stubs={'self._finish': fresh_coro_stub('_finish'), 'self.create_task': contract_stub(lambda: auth_create_task),
               'Conn.create_task': conn_ensure_future_stub, 'self.send_failure': ev_stub('send_failure'),
               'GSS.verify': gss_verify_stub, 'Conn.get_userauth_request_data': ev_stub('request_data', 'bytes')},
        requires=lambda c: packet_wf(c, c.argv('packet')),
        ensures=[('finish-only-after-gss-succeeded-and-task-recorded', gss_finish_started(pred))],
        raises={'PacketDecodeError': lambda c: z3.BoolVal(not c.events('coro'))})


gssmic_exchange_complete = gss_book_spec('_ServerGSSMICAuth._process_exchange_complete', gss_complete_no_integrity)
gssmic_mic = gss_book_spec('_ServerGSSMICAuth._process_mic', gss_mic_ok)


# ---- host based: the signature is verified by the host key validated for the (resolved) client host, over
# String(session_id) + msg, before the application is asked about the user
from . import c04 as C04      # host-key trust decision and trust-set producer: verified under C04, used as callee contracts

HB_FIELDS = dict(C04.MKH_CONN, **{
    '_trust_client_host': 'bool', '_known_client_hosts': 'opt[any]', '_peer_addr': 'str',
    '_peer_port': 'int', '_session_id': 'bytes', '_owner': 'opt[obj:Owner]', '_loop': 'obj:Loop'})
HB_CLASSES = {'SSHServerConnection': HB_FIELDS, 'Owner': {}, 'Loop': {}}


def getnameinfo_stub(cx):
    v = cx.fresh('tuple[str,str]', 'nameinfo')
    return [Out(ret=v, event=('getnameinfo', (tuple(cx.args), v))), Out(exc=VExc('socket.gaierror'))]


getnameinfo_stub.modifies = ()


def hb_verify_stub(cx):
    r = cx.fresh('bool', 'verified')
    return [Out(ret=r, event=('verify', (cx.recv, tuple(cx.args), r)))]


hb_verify_stub.modifies = ()


def hb_resolved_host(c):
    """the host name the key must be trusted FOR: the name the client claims (minus one trailing dot) only when
    the server is configured to trust it, else the reverse lookup of the peer address (the address itself when the
    lookup fails)"""
    ch = c.arg('client_host')
    n = z3.Length(ch)
    claimed = z3.If(z3.SubString(ch, n - 1, 1) == z3.StringVal('.'), z3.SubString(ch, 0, n - 1), ch)
    peer = c.events('peername')
    gni = c.events('getnameinfo')
    if gni:
        (gargs, gret) = gni[0][1]
        looked_up = z3.And(z3.BoolVal(bool(peer) and gargs[0] is peer[0][1][2]), z3.BoolVal(True))
        resolved = gret.items[0].z
    elif peer:
        looked_up = z3.BoolVal(True)
        resolved = peer[0][1][2].items[0].z
    else:
        looked_up = z3.BoolVal(False)
        resolved = claimed
    return claimed, z3.If(c.old('_trust_client_host'), claimed, resolved), \
        z3.Or(c.old('_trust_client_host'), looked_up)


def hb_post(c):
    """True only if: the signature over String(session_id) + msg verified with the key that the host-key decision
    (C04: listed and not revoked / CA rule / application override) accepts for key_data and for the RESOLVED host,
    the peer address and port of THIS call, the trust sets used being exactly what known_client_hosts lists for that
    same (resolved host, peer address); and then the application accepted the user"""
    from pyvc.builtins_model import be
    res = c.truthy(c.result_v)
    hk = c.calls('_validate_host_key')
    mk = c.calls('_match_known_hosts')
    ver = c.events('verify')
    own = c.events('validate_host_based_user')
    hk = [x for x in hk if x.get('exc') is None]
    if not hk or not ver or not own:
        return z3.Not(res)
    kargs, key = hk[0]['args'], hk[0]['ret']
    (recv, vargs, vr), (oargs, _oret) = ver[0][1], own[0][1]
    claimed, rh, rh_ok = hb_resolved_host(c)
    sid, msg = c.old('_session_id'), c.arg('msg')
    final = c.new_state.env.get('result')
    conj = [rh_ok, recv.z == key.z,
            kargs[0].z == rh, kargs[1].z == c.old('_peer_addr'), kargs[2].z == c.old('_peer_port'),
            kargs[3].z == c.arg('key_data'),
            vargs[0].z == z3.Concat(z3.Concat(be(z3.IntVal(4), z3.Length(sid)), sid), msg),
            vargs[1].z == c.arg('signature'), vr.z,
            oargs[0].z == c.arg('username'), oargs[1].z == claimed, oargs[2].z == c.arg('client_username'),
            c.truthy(final) if final is not None else z3.BoolVal(False)]
    # the decision, evaluated on the trust sets in force (nothing writes them after the matcher call)
    now = Ctx(c.ex, c.new_state, c.new_state, c.self_ref)
    conj.append(C04.decision(now, rh, c.old('_peer_addr'), c.old('_peer_port'), c.arg('key_data'), r=key.z))
    kch = c.oldv('_known_client_hosts')
    configured = c.truthy(kch, c.old_state)
    if mk:
        margs = mk[0]['args']
        conj += [configured, z3.BoolVal(len(mk) == 1), z3.BoolVal(margs[0] is kch), margs[1].z == rh,
                 margs[2].z == c.old('_peer_addr'), z3.BoolVal(margs[3] is VNone),
                 z3.BoolVal(c.new_state.calls.index(mk[0]) < c.new_state.calls.index(hk[0]))]
        asif = Ctx(c.ex, c.old_state, c.new_state, c.self_ref,
                   args={'known_hosts': kch, 'host': VStr(rh), 'addr': c.oldv('_peer_addr'), 'port': VNone})
        conj.append(C04.mkh_post(asif))
    else:
        conj.append(z3.Not(configured))
    return z3.Implies(res, z3.And(conj))


def _hb_setup(ex, st):
    # the `socket` module as the function sees it: only the NI_NUMERICSERV constant is read
    import socket as _socket
    from pyvc.engine import Record
    st.env['socket'] = st.alloc(Record('SocketModule', {'NI_NUMERICSERV': VInt(_socket.NI_NUMERICSERV)}),
                                'SocketModule')


validate_host_based_auth = Spec(
    PROP, 'connection', 'SSHServerConnection.validate_host_based_auth', self_class='SSHServerConnection',
    params=dict(username='str', key_data='bytes', client_host='str', client_username='str', msg='bytes',
                signature='bytes'),
    classes=dict(HB_CLASSES, SocketModule={}), setup=_hb_setup,
    stubs={'self.get_extra_info': ev_stub('peername', 'tuple[str,int]'),
           'Loop.getnameinfo': getnameinfo_stub,
           'self._match_known_hosts': contract_stub(lambda: C04.match_known_hosts_conn),
           'self._validate_host_key': contract_stub(lambda: C04.validate_host_key),
           'key.verify': hb_verify_stub,
           'Owner.validate_host_based_user': owner_call('validate_host_based_user'),
           'await result': srv_await('await_result')},
    ensures=[('host-key-signature-over-session-id-and-request-then-user-accepted', hb_post)],
    # matcher failure (unreadable / malformed known hosts) and a closed connection end the attempt: nothing granted
    raises={'AttributeError': True, 'ValueError': True, 'AssertionError': True})
validate_host_based_auth.opaque_attrs = dict(C04.match_known_hosts_conn.opaque_attrs)


# ====================================================================================================
# Frame by scan (DESIGN 2.5): J / G / the rely B are statements about every writer of these fields and about
# every caller of send_userauth_success.  The scan re-reads asyncssh/*.py on every run.
# ====================================================================================================
SCAN_FIELDS = {'_username', '_auth', '_auth_complete', '_key_options', '_cert_options', '_coro',
               # per-user configuration read by the credential checks (reload_config), generations
               '_options', '_authorized_client_keys', '_public_key_auth', '_password_auth', '_kbdint_auth',
               '_host_based_auth', '_auth_gen', '_config_gen'}
SCAN_CLASSES = {'Auth', 'ServerAuth', 'SSHConnection', 'SSHServerConnection', 'SSHClientConnection'}
SCAN_EXEMPT = {
    ('SSHConnection', '_cleanup'): 'connection teardown: cancels the auth object before dropping it',
    ('SSHClientConnection', 'try_next_auth'): 'client side: cancels the previous attempt before replacing it',
    ('SSHServerConnection', 'set_authorized_keys'):
        'public API for the application (typically called from begin_auth(username)): the application answers for '
        'the user whose keys it installs',
}
GRANT_CALLERS = {('ServerAuth', 'send_success'), ('SSHConnection', '_finish_userauth')}
# the functions that store restrictions run only on behalf of the current public-key attempt: their call sites
LOOKUP_CALLERS = {
    '_validate_client_certificate': {('SSHServerConnection', 'validate_public_key')},
    '_validate_client_public_key': {('SSHServerConnection', 'validate_public_key')},
    '_validate_openssh_certificate': {('SSHServerConnection', '_validate_client_certificate')},
    '_validate_x509_certificate_chain': {('SSHServerConnection', '_validate_client_certificate')},
}
CONN_VALIDATE_CALLERS = {('_ServerPublicKeyAuth', '_start')}     # self._conn.validate_public_key(...)
# server auth code that answers a request or starts a task: every such function must have a C05 Spec
AUTH_ACTIONS = {'send_success', 'send_failure', 'create_task'}


def _is_server_auth(name):
    from pyvc import extract
    return name in ('Auth', 'ServerAuth') or (extract.is_subclass(name, 'ServerAuth'))


def extra_checks(tier, seed):
    import ast
    import glob
    import os
    from pyvc import extract
    covered = {tuple(s.qualname.split('.')) for s in Spec.registry if s.prop == PROP and '.' in s.qualname}
    stray_writers, stray_callers, stray_lookups, stray_auth = [], [], [], []
    for path in sorted(glob.glob(os.path.join(extract.PKG, '*.py'))):
        tree = ast.parse(open(path, encoding='utf-8').read())
        for cls in [n for n in ast.walk(tree) if isinstance(n, ast.ClassDef)]:
            for fn in [n for n in cls.body if isinstance(n, (ast.FunctionDef, ast.AsyncFunctionDef))]:
                where = (cls.name, fn.name)
                for n in ast.walk(fn):
                    tg = n.targets if isinstance(n, ast.Assign) else \
                        [n.target] if isinstance(n, (ast.AugAssign, ast.AnnAssign)) else \
                        n.targets if isinstance(n, ast.Delete) else []
                    for t in tg:
                        for a in ast.walk(t):
                            if isinstance(a, ast.Attribute) and a.attr in SCAN_FIELDS and cls.name in SCAN_CLASSES \
                                    and fn.name != '__init__' and where not in covered and where not in SCAN_EXEMPT:
                                stray_writers.append(f'{os.path.basename(path)}:{n.lineno} {cls.name}.{fn.name} '
                                                     f'writes {a.attr}')
                    if isinstance(n, ast.Call) and isinstance(n.func, ast.Attribute) and \
                            n.func.attr == 'send_userauth_success' and where not in GRANT_CALLERS:
                        stray_callers.append(f'{os.path.basename(path)}:{n.lineno} {cls.name}.{fn.name}')
                    if isinstance(n, ast.Call) and isinstance(n.func, ast.Attribute) and \
                            os.path.basename(path) == 'auth.py' and n.func.attr in AUTH_ACTIONS and \
                            ast.unparse(n.func.value) == 'self' and _is_server_auth(cls.name) and \
                            where not in covered:
                        stray_auth.append(f'auth.py:{n.lineno} {cls.name}.{fn.name} calls self.{n.func.attr}')
                    if isinstance(n, ast.Call) and isinstance(n.func, ast.Attribute):
                        if n.func.attr in LOOKUP_CALLERS and where not in LOOKUP_CALLERS[n.func.attr]:
                            stray_lookups.append(f'{os.path.basename(path)}:{n.lineno} {cls.name}.{fn.name} calls '
                                                 f'{n.func.attr}')
                        if n.func.attr == 'validate_public_key' and ast.unparse(n.func.value) == 'self._conn' \
                                and where not in CONN_VALIDATE_CALLERS:
                            stray_lookups.append(f'{os.path.basename(path)}:{n.lineno} {cls.name}.{fn.name} calls '
                                                 f'conn.validate_public_key')
                    if isinstance(n, ast.Call) and isinstance(n.func, ast.Name) and n.func.id in ('setattr', 'vars'):
                        for a in n.args[1:2]:
                            if isinstance(a, ast.Constant) and a.value in SCAN_FIELDS:
                                stray_writers.append(f'{os.path.basename(path)}:{n.lineno} setattr of {a.value}')
    lemmas = [
        {'name': f'{PROP}.scan#frame(writers-of-auth-state-are-under-contract)',
         'verdict': 'proved' if not stray_writers else 'unknown',
         'reason': '; '.join(stray_writers[:5]) or None},
        {'name': f'{PROP}.scan#frame(send_userauth_success-call-sites)',
         'verdict': 'proved' if not stray_callers else 'unknown',
         'reason': '; '.join(stray_callers[:5]) or None},
        {'name': f'{PROP}.scan#frame(every-server-auth-function-that-answers-or-spawns-is-under-contract)',
         'verdict': 'proved' if not stray_auth else 'unknown',
         'reason': '; '.join(stray_auth[:5]) or None},
        {'name': f'{PROP}.scan#frame(restriction-storing-look-ups-call-sites)',
         'verdict': 'proved' if not stray_lookups else 'unknown',
         'reason': '; '.join(stray_lookups[:5]) or None},
    ]
    return {'lemmas': lemmas, 'bounded': []}


ASSUMPTIONS += [
    'asyncio: a cancelled task does not run past its current await; tasks created by SSHConnection.create_task run '
    'exactly the coroutine passed in; a task runs only after the statement sequence that created it has finished',
    'awaits are cut points.  Auth-side code resumes under the rely B (see header of the auth.py part); its '
    'counterpart, the guarantee G and the invariant J, are obligations of every connection-side writer of '
    '_username/_auth (writers found by scan on every run; exempt: ' +
    '; '.join(f'{c}.{f} ({why})' for (c, f), why in SCAN_EXEMPT.items()) + ')',
    'application callbacks (SSHServer.begin_auth / validate_* / auth_completed) are arbitrary but can only return '
    'a value or raise; signature verification (key.verify), authorized_keys matching (SSHAuthorizedKeys.validate), '
    'certificate validation (cert.validate), SASLprep and the GSS context are abstract objects (assumed contracts)',
    'source-address matching in _validate_openssh_certificate (ip_address / any(... in network ...)) is abstract',
    'not reached: X.509 chain '
    'validation itself (cert.validate_chain, SSHAuthorizedKeys.validate_x509 are abstract), port / agent / X11 '
    'forwarding permission sites (C20), the client credential sources (agent, PKCS#11)',
    'host based: the host-key decision and the trust-set producer are used through their C04 contracts '
    '(contracts/c04.py: validate_host_key, match_known_hosts_conn, decision, mkh_post); authorized_keys matching is '
    'the C17 contract verified again here (SSHAuthorizedKeys.validate); match_options is an oracle',
    'the restrictions half: pristine when an attempt starts, written only by the verified look-ups (call sites by '
    'scan), enforced at channel.py SSHServerChannel.__init__ (environment=), _process_pty_req_request (no-pty / '
    'permit-pty), _start_session (force-command over command= over the client request)',
    'per-user configuration: _options.ghost_for_user is the user an SSHServerConnectionOptions object was constructed '
    'for; helper invariant C (generation counters _auth_gen/_config_gen, from the code) and the generation rely at '
    'awaits are proved on _process_userauth_request / _finish_userauth / reload_config / send_userauth_success / '
    'send_userauth_failure; other writers of the configuration fields are pinned by the scan',
    'SSHServerConnection.validate_password / change_password / get_kbdint_challenge / validate_kbdint_response / '
    'validate_gss_principal are verified forwarders; the auth-side stubs (awaited_validator) keep modelling the '
    'await + rely B and take their result predicate from those Specs by composition, not through contract_stub',
    'open (audit 6, 7): the request handed to a new auth object is not tied to the user it named beyond the '
    'begin_auth/username test in _finish_userauth; G is an explicit clause only on _process_userauth_request and '
    'send_userauth_success (for _finish_userauth it is the pre-at-call replaced-auth-object-is-cancelled; '
    'send_userauth_failure is called by the auth object itself as its last action: response-is-last)',
    'B holds when an auth task first runs / when a packet is dispatched to the auth object: conn._auth is that '
    'object (_finish_userauth#post(new-attempt-is-current); dispatch gate of C06) and it was created for '
    'conn._username with pristine restrictions (pre-at-call obligations at lookup_server_auth in _finish_userauth)',
    'ServerAuth subclasses are verified against a ghost view of the connection (class Conn: _username, '
    '_auth_complete, ghost_auth_is_self) - the view is tied to the real fields by J/G above',
]


# ====================================================================================================
# authorized_keys matching (anchor file auth_keys.py): the options _validate_client_public_key /
# _validate_openssh_certificate store are those of the FIRST entry whose key equals the presented key (CA key for
# certificates) and whose from= / principals= restrictions accept this client.  Contract written for C17
# (contracts/c17.py: validate_inv / validate_post, match_options an oracle); verified here again under C05.
# ====================================================================================================
from . import c17 as C17

authorized_keys_validate = Spec(
    PROP, 'auth_keys', 'SSHAuthorizedKeys.validate', self_class='SSHAuthorizedKeys',
    params=dict(C17.validate.params),
    classes={'SSHAuthorizedKeys': {'_user_entries': 'seq[opaque:Entry]', '_ca_entries': 'seq[opaque:Entry]'}},
    stubs={'entry.match_options': C17.entry_match_options_stub},
    loops={1: LoopSpec(invariant=C17.validate_inv)},
    ensures=[('first-match(key-equal-and-options-accept)', C17.validate_post)])
authorized_keys_validate.opaque_attrs = dict(C17.validate.opaque_attrs)
authorized_keys_validate.no_replay = True


# ====================================================================================================
# channel.py - where the stored restrictions are enforced ("the restrictions attached to the accepted credential are
# the ones enforced afterwards"): pty permission, forced command precedence, environment= options.
# The look-up functions themselves (get/check_key/certificate_*) are the decision tables at the top of this file.
# ====================================================================================================
def conn_option_stub(name, typ):
    def stub(cx):
        v = cx.fresh(typ, name)
        return [Out(ret=v, event=(name, (tuple(cx.args), v)))]
    stub.modifies = ()
    return stub


SCH_FIELDS = {'_conn': 'obj:Conn', '_session': 'obj:Session', '_allow_pty': 'bool', '_line_editor': 'bool',
              '_term_type': 'opt[str]', '_command': 'opt[str]', '_subsystem': 'opt[str]'}
SCH_CLASSES = dict({'SSHServerChannel': SCH_FIELDS, 'Conn': {}, 'Session': {}}, **PACKET_CLASSES)


def ss_post(c):
    """sshd(8) / PROTOCOL.certkeys: a certificate's force-command wins over the authorized_keys command= option,
    which wins over what the client asked for; a forced command always results in exec of exactly that command"""
    co = c.events('cert_option')
    ko = c.events('key_option')
    ex_ = c.events('exec_requested')
    other = c.events('subsystem_requested') + c.events('shell_requested')
    if len(co) != 1:
        return z3.BoolVal(False)
    cargs, cret = co[0][1]
    conj = [cargs[0].z == z3.StringVal('force-command')]
    cn, cv = opt_parts(cret)
    forced_n, forced_v = cn, cv.z
    if ko:
        kargs, kret = ko[0][1]
        kn, kv = opt_parts(kret)
        conj += [kargs[0].z == z3.StringVal('command'), cn]       # consulted only when the certificate forces nothing
        forced_n, forced_v = z3.And(cn, kn), z3.If(cn, kv.z, cv.z)
    else:
        conj.append(z3.Not(cn))
    if ex_:
        (eargs, _kw, _r) = ex_[0][1]
        ran = eargs[0]
        rn, rv = opt_parts(ran)
        requested_n, requested_v = opt_parts(c.argv('command'))
        conj += [z3.BoolVal(len(ex_) == 1 and not other), z3.Not(rn),
                 z3.If(forced_n, z3.And(z3.Not(requested_n), rv.z == (requested_v.z if requested_v is not None
                                                                    else z3.StringVal(''))),
                       rv.z == forced_v),
                 c.eq(c.newv('_command'), ran)]
    else:
        # no exec: only legal when nothing is forced and the client did not ask for a command
        requested_n, _ = opt_parts(c.argv('command'))
        conj += [forced_n, requested_n, z3.BoolVal(len(other) == 1)]
    return z3.And(conj)


start_session = Spec(
    PROP, 'channel', 'SSHServerChannel._start_session', self_class='SSHServerChannel',
    params=dict(command='opt[str]', subsystem='opt[str]'), classes=SCH_CLASSES,
    stubs={'Conn.get_certificate_option': conn_option_stub('cert_option', 'opt[str]'),
           'Conn.get_key_option': conn_option_stub('key_option', 'opt[str]'),
           'Session.exec_requested': ev_stub('exec_requested', 'any'),
           'Session.subsystem_requested': ev_stub('subsystem_requested', 'any'),
           'Session.shell_requested': ev_stub('shell_requested', 'any')},
    ensures=[('forced-command-precedence(certificate,authorized_keys,client)', ss_post)])


def pty_post(c):
    """a pseudo-terminal is handed out only if the server allows it AND the accepted key's entry does not say
    no-pty AND the accepted certificate (if any) says permit-pty; denial is a plain False"""
    kp = c.events('check_key_permission')
    cp = c.events('check_certificate_permission')
    asked = c.events('pty_requested')
    ok = [c.old('_allow_pty')]
    ok.append(z3.And(kp[0][1][0][0].z == z3.StringVal('pty'), c.truthy(kp[0][1][1])) if kp else z3.BoolVal(False))
    ok.append(z3.And(cp[0][1][0][0].z == z3.StringVal('pty'), c.truthy(cp[0][1][1])) if cp else z3.BoolVal(False))
    permitted = z3.And(ok)
    conj = []
    if asked:
        conj.append(permitted)
    if c.raised is None:
        conj.append(z3.Implies(c.truthy(c.result_v), z3.And(permitted, z3.BoolVal(len(asked) == 1))))
        conj.append(z3.Implies(z3.Not(permitted), c.eq(c.oldv('_term_type'), c.newv('_term_type'))))
    return z3.And(conj) if conj else z3.BoolVal(True)


_pty_loop = LoopSpec(invariant=lambda c: c.local('idx') >= 0)

pty_req = Spec(
    PROP, 'channel', 'SSHServerChannel._process_pty_req_request', self_class='SSHServerChannel',
    params=dict(packet='obj:SSHPacket'),
    classes=dict(SCH_CLASSES, SSHServerChannel=dict(SCH_FIELDS, _term_size='any', _term_modes='any')),
    inline=dict(PACKET_INLINE), truthy=PACKET_TRUTHY,
    local_types={'term_modes': 'dict[int,int]', 'name': 'str'},
    stubs={'Conn.check_key_permission': conn_option_stub('check_key_permission', 'any'),
           'Conn.check_certificate_permission': conn_option_stub('check_certificate_permission', 'any'),
           '_pty_mode_names.get': ev_stub('mode_name', 'str'),
           'Session.pty_requested': ev_stub('pty_requested', 'any')},
    globals={'_pty_mode_names': VTag('dict:_pty_mode_names')},
    loops={1: _pty_loop},
    requires=lambda c: packet_wf(c, c.argv('packet')),
    always=[('pty-only-when-server-key-and-certificate-permit', pty_post)],
    raises={'ProtocolError': True, 'PacketDecodeError': True})
pty_req.feasible_timeout_ms = 400
pty_req.crosscheck_limit = 4


def sci_post(c):
    """the session environment starts as the environment= options of the accepted authorized_keys entry"""
    ko = c.events('key_option')
    enc = c.events('encode_env')
    mk = c.events('dict')
    if len(ko) != 1 or len(enc) != 1 or len(mk) != 1:
        return z3.BoolVal(False)
    (kargs, kret), (eargs, _k1, eret), (dargs, _k2, dret) = ko[0][1], enc[0][1], mk[0][1]
    return z3.And(kargs[0].z == z3.StringVal('environment'), z3.BoolVal(eargs[0] is kret),
                  z3.BoolVal(dargs[0] is eret), z3.BoolVal(c.newv('_env') is dret),
                  c.new('_allow_pty') == c.arg('allow_pty'))


server_channel_init = Spec(
    PROP, 'channel', 'SSHServerChannel.__init__', self_class='SSHServerChannel',
    params=dict(conn='obj:Conn', loop='any', allow_pty='bool', line_editor='bool', line_echo='bool',
                line_history='int', max_line_length='int', encoding='opt[str]', errors='str', window='int',
                max_pktsize='int'),
    classes=dict(SCH_CLASSES, SSHServerChannel=dict(SCH_FIELDS, _env='any')),
    stubs={'super().__init__': ev_stub('channel_init'),
           'Conn.get_key_option': conn_option_stub('key_option', 'any'),
           'encode_env': ev_stub('encode_env', 'any'), 'dict': ev_stub('dict', 'any')},
    ensures=[('environment-options-of-the-accepted-key-are-applied', sci_post)])


# ====================================================================================================
# authorized_keys restrictions on an entry: _SSHAuthorizedKeyEntry.match_options is the oracle `entry_accepts` of
# SSHAuthorizedKeys.validate above.  From the property: a principals="..." restriction (cert-authority lines) is
# satisfied only by a certificate that names, for every listed pattern list, at least one matching principal - a
# certificate with an EMPTY principal list never satisfies it (and the server then validates such a certificate
# with cert_user=None, so this check is the only one standing between the CA and "any user").
# The contract object is C17's (contracts/c17.py spec_match_options); re-registered so that it is checked under C05.
# ====================================================================================================
import copy as _copy

authorized_keys_match_options = _copy.copy(C17.match_options)
authorized_keys_match_options.prop = PROP
Spec.registry.append(authorized_keys_match_options)


def empty_principals_never_satisfy(c):
    """explicit corner of the clause above: principals= present and non-empty, certificate lists no principal"""
    pn, ps = C17._opt(C17.opt_principals(c.old('options')), C17._OP)
    cp = c.argv('cert_principals')
    if cp is VNone or not isinstance(cp, VOpt):
        return z3.BoolVal(True)
    restricted = z3.And(z3.Not(pn), z3.Length(ps) > 0)
    no_principals = z3.And(z3.Not(cp.isnone), z3.Length(cp.val.z) == 0)
    return z3.Implies(z3.And(restricted, no_principals), z3.Not(c.truthy(c.result_v)))


authorized_keys_match_options.ensures = list(authorized_keys_match_options.ensures) + [
    ('certificate-without-principals-never-satisfies-a-principals-restriction', empty_principals_never_satisfy)]


# ====================================================================================================
# SSHServerConnection methods between the auth objects and the application (second audit, 3): the auth Specs say
# "conn.validate_password(self._username, pw) was true"; these Specs say what that means - the application callback
# was asked about THIS user with THESE arguments and its (awaited) answer is what is returned.
# (The auth-side stubs `awaited_validator` keep modelling the await + rely; their result predicate is these Specs'.)
# ====================================================================================================
FWD_CLASSES = {'SSHServerConnection': {'_owner': 'opt[obj:Owner]', '_kbdint_password_auth': 'bool'}, 'Owner': {}}


def fwd_await(name='await_result', raises=()):
    def stub(cx):
        v = cx.fresh('any', name)
        outs = [Out(ret=v, event=(name, (tuple(cx.args), v)))]
        for r in raises:
            outs.append(Out(exc=VExc(r), event=(name + '!raise', (tuple(cx.args), None))))
        return outs
    stub.modifies = ()
    return stub


def owner_cb(name, raises=()):
    def stub(cx):
        v = cx.fresh('any', name)
        outs = [Out(ret=v, event=(name, (tuple(cx.args), v)))]
        for r in raises:
            outs.append(Out(exc=VExc(r), event=(name + '!raise', (tuple(cx.args), None))))
        return outs
    stub.modifies = ()
    return stub


def forwarded(c, cb, argnames, awaitname='await_result'):
    """(the callback was called exactly once with exactly these arguments, the value finally returned)"""
    evs = c.events(cb)
    if len(evs) != 1:
        return z3.BoolVal(False), None
    args, ret = evs[0][1]
    ok = [z3.BoolVal(len(args) == len(argnames))]
    for a, n in zip(args, argnames):
        want = c.argv(n)
        ok.append(c.eq(a, want))
    aw = c.events(awaitname)
    isaw = z3.Function('isawaitable_Any', opaque_sort('Any'), BoolS)(ret.z)
    if aw:
        (aargs, av) = aw[0][1]
        ok += [z3.BoolVal(len(aw) == 1 and aargs[0] is ret), isaw]
        final = av
    else:
        ok.append(z3.Not(isaw))
        final = ret
    return z3.And(ok), final


def fwd_post(cb, argnames):
    def post(c):
        """the value returned is the application's answer (awaited if awaitable) to exactly this question"""
        ok, final = forwarded(c, cb, argnames)
        if final is None:
            return z3.BoolVal(False)
        return z3.And(ok, z3.BoolVal(c.result_v is final))
    return post


def fwd_spec(qualname, cb, params, raises=None):
    return Spec(
        PROP, 'connection', 'SSHServerConnection.' + qualname, self_class='SSHServerConnection',
        params=params, classes=FWD_CLASSES,
        stubs={'Owner.' + cb: owner_cb(cb), 'await result': fwd_await()},
        ensures=[('answer-of-the-application-for-this-user-and-these-arguments', fwd_post(cb, list(params)))],
        raises=dict({'AttributeError': True}, **(raises or {})))


conn_validate_password = fwd_spec('validate_password', 'validate_password', dict(username='str', password='str'))
conn_change_password = fwd_spec('change_password', 'change_password',
                                dict(username='str', old_password='str', new_password='str'))
conn_validate_gss_principal = fwd_spec('validate_gss_principal', 'validate_gss_principal',
                                       dict(username='str', user_principal='str', host_principal='str'))


def gkc_post(c):
    """password emulation: always a (name, instruction, lang, prompts) challenge - never a verdict; otherwise the
    application's answer for this user"""
    r = c.result_v
    emu = c.old('_kbdint_password_auth')
    evs = c.events('get_kbdint_challenge')
    if not evs:
        return z3.And(emu, z3.BoolVal(isinstance(r, VTuple) and len(r.items) == 4))
    ok, final = forwarded(c, 'get_kbdint_challenge', ['username', 'lang', 'submethods'], 'await_challenge')
    return z3.And(z3.Not(emu), ok, z3.BoolVal(r is final))


conn_get_kbdint_challenge = Spec(
    PROP, 'connection', 'SSHServerConnection.get_kbdint_challenge', self_class='SSHServerConnection',
    params=dict(username='str', lang='str', submethods='str'), classes=FWD_CLASSES,
    stubs={'Owner.get_kbdint_challenge': owner_cb('get_kbdint_challenge'), 'await result': fwd_await('await_challenge')},
    ensures=[('challenge-or-the-applications-answer-for-this-user', gkc_post)],
    raises={'AttributeError': True})


def vkr_post(c):
    """password emulation: a true verdict only if there is exactly one response and the application accepted it as
    THIS user's password (PasswordChangeRequired counts as a refusal); otherwise the application's answer"""
    r = c.result_v
    emu = c.old('_kbdint_password_auth')
    resp = c.arg('responses')
    pw = c.events('validate_password')
    pcr = c.events('validate_password!raise') + c.events('await_pw!raise')
    kb = c.events('validate_kbdint_response')
    if kb:
        ok, final = forwarded(c, 'validate_kbdint_response', ['username', 'responses'], 'await_result')
        return z3.And(z3.Not(emu), ok, z3.BoolVal(r is final))
    granted = c.truthy(r)
    if pcr or not pw:
        return z3.And(emu, z3.Not(granted))
    args, ret = pw[0][1]
    aw = c.events('await_pw')
    isaw = z3.Function('isawaitable_Any', opaque_sort('Any'), BoolS)(ret.z)
    final = aw[0][1][1] if aw else ret
    return z3.And(emu, z3.BoolVal(len(pw) == 1), z3.Length(resp) == 1, args[0].z == c.arg('username'),
                  args[1].z == resp[0], isaw if aw else z3.Not(isaw), z3.BoolVal(r is final))


conn_validate_kbdint_response = Spec(
    PROP, 'connection', 'SSHServerConnection.validate_kbdint_response', self_class='SSHServerConnection',
    params=dict(username='str', responses='seq[str]'), classes=FWD_CLASSES,
    stubs={'Owner.validate_password': owner_cb('validate_password', raises=['PasswordChangeRequired']),
           'await pw_result': fwd_await('await_pw', raises=['PasswordChangeRequired']),
           'Owner.validate_kbdint_response': owner_cb('validate_kbdint_response'),
           'await result': fwd_await('await_result')},
    ensures=[('verdict-only-from-the-application-for-this-user', vkr_post)],
    raises={'AttributeError': True})



# ---- the data a GSS MIC is computed over (RFC 4462 3.5 / RFC 4252 7): session identifier, then the request
RD_FIELDS = {'_session_id': 'bytes', '_username': 'str'}


def _str_be4(z):
    from pyvc.builtins_model import be
    return z3.Concat(be(z3.IntVal(4), z3.Length(z)), z)


def request_packet_term(c, args_joined):
    utf8 = z3.Function('utf8', StrS, BytesS)
    u = utf8(c.old('_username'))
    return z3.Concat(z3.Unit(z3.IntVal(50)), _str_be4(u), _str_be4(bytes_const(b'ssh-connection')),
                     _str_be4(c.arg('method')), args_joined)


get_userauth_request_packet = Spec(
    PROP, 'connection', 'SSHConnection._get_userauth_request_packet', self_class='SSHConnection',
    params=dict(method='bytes', args='seq[bytes]'), classes={'SSHConnection': RD_FIELDS},
    # the server-side callers (GSS MIC data) pass no extra fields: args == ()
    cases=[('no-extra-fields', {'arg:args': ()})],
    ensures=[('byte(50)-user-service-method', lambda c: c.result == request_packet_term(c, z3.Empty(BytesS)))],
    returns='bytes', modifies=[])

get_userauth_request_data = Spec(
    PROP, 'connection', 'SSHConnection.get_userauth_request_data', self_class='SSHConnection',
    params=dict(method='bytes', args='seq[bytes]'), classes={'SSHConnection': RD_FIELDS},
    stubs={'self._get_userauth_request_packet': ev_stub('request_packet', 'bytes')},
    ensures=[('session-id-then-this-request', lambda c: (lambda ev: z3.And(
        z3.BoolVal(len(ev) == 1),
        z3.BoolVal(False) if len(ev) != 1 else z3.And(
            ev[0][1][0][0].z == c.arg('method'),
            c.result == z3.Concat(_str_be4(c.old('_session_id')), ev[0][1][2].z))))(c.events('request_packet')))],
    returns='bytes', modifies=[])



# ---- method switches: a method is offered / usable only if the (per-user) configuration enables it
SUP_FIELDS = {'_owner': 'opt[obj:Owner]', '_public_key_auth': 'bool', '_password_auth': 'bool',
              '_host_based_auth': 'bool', '_kbdint_auth': 'bool', '_gss_kex_auth': 'bool', '_gss_mic_auth': 'bool',
              '_authorized_client_keys': 'opt[obj:AuthKeys]', '_known_client_hosts': 'opt[obj:KnownHosts]',
              '_gss': 'opt[obj:GSS]', '_kbdint_password_auth': 'bool'}
SUP_CLASSES = {'SSHServerConnection': SUP_FIELDS, 'Owner': {}, 'AuthKeys': {}, 'KnownHosts': {},
               'GSS': {'complete': 'bool'}}


def sup_post(switch, cb, store=None):
    def post(c):
        """offered only if the configuration switch is on AND (a trust store is configured OR the application
        offers the method)"""
        evs = c.events(cb)
        app = c.truthy(evs[0][1][2]) if evs else z3.BoolVal(False)
        backing = app
        if store is not None:
            backing = z3.Or(c.truthy(c.oldv(store), c.old_state), app)
        return c.truthy(c.result_v) == z3.And(c.old(switch), backing)
    return post


def sup_spec(qualname, switch, cb, store=None):
    return Spec(PROP, 'connection', 'SSHServerConnection.' + qualname, self_class='SSHServerConnection',
                classes=SUP_CLASSES, stubs={'Owner.' + cb: ev_stub(cb, 'bool')},
                ensures=[('offered-iff-enabled-and-backed', sup_post(switch, cb, store))],
                raises={'AttributeError': True})


public_key_auth_supported = sup_spec('public_key_auth_supported', '_public_key_auth', 'public_key_auth_supported',
                                     '_authorized_client_keys')
password_auth_supported = sup_spec('password_auth_supported', '_password_auth', 'password_auth_supported')
host_based_auth_supported = sup_spec('host_based_auth_supported', '_host_based_auth', 'host_based_auth_supported',
                                     '_known_client_hosts')
gss_mic_auth_supported = Spec(
    PROP, 'connection', 'SSHServerConnection.gss_mic_auth_supported', self_class='SSHServerConnection',
    classes=SUP_CLASSES, ensures=[('offered-iff-enabled', lambda c: c.truthy(c.result_v) == c.old('_gss_mic_auth'))])
gss_kex_auth_supported = Spec(
    PROP, 'connection', 'SSHServerConnection.gss_kex_auth_supported', self_class='SSHServerConnection',
    classes=SUP_CLASSES,
    ensures=[('offered-iff-enabled-and-context-complete', lambda c: c.truthy(c.result_v) == z3.And(
        c.old('_gss_kex_auth'), c.ex.get_field(c.old_state, opt_parts(c.oldv('_gss'))[1], 'complete').z))],
    raises={'AssertionError': lambda c: z3.And(c.old('_gss_kex_auth'), c.is_none(c.oldv('_gss')))})


def kbd_sup_post(c):
    """offered only if the configuration switch is on and the application offers keyboard-interactive (True) or
    leaves it unimplemented while offering passwords (then the password emulation is switched on)"""
    evs = c.events('kbdint_auth_supported')
    if not evs:
        return z3.And(z3.Not(c.old('_kbdint_auth')), z3.Not(c.truthy(c.result_v)))
    return z3.Implies(c.truthy(c.result_v), c.old('_kbdint_auth'))


kbdint_auth_supported = Spec(
    PROP, 'connection', 'SSHServerConnection.kbdint_auth_supported', self_class='SSHServerConnection',
    classes=SUP_CLASSES,
    stubs={'Owner.kbdint_auth_supported': ev_stub('kbdint_auth_supported', 'any'),
           'Owner.password_auth_supported': ev_stub('password_auth_supported', 'bool')},
    globals={'NotImplemented': VTag('NotImplemented')},
    ensures=[('offered-only-if-enabled', kbd_sup_post)], raises={'AttributeError': True})


# ---- gssapi-with-mic: the functions without a success path are pinned as such ("never")
GSSM_FIELDS = dict(AUTH_FIELDS, _gss='obj:GSS')
GSSM_CLASSES = dict(AUTH_CLASSES, ServerAuth=GSSM_FIELDS, GSS=dict(GSS, mechs='seq[bytes]'))


def executor_stub(cx):
    """await run_in_executor(self._gss.step, token): next token or GSSError (library); an await"""
    v = cx.fresh('opt[bytes]', 'gss_token')
    maj, mn, tok = cx.fresh('int', 'maj'), cx.fresh('int', 'min'), cx.fresh('opt[bytes]', 'errtok')
    e = VExc('GSSError', args=(maj, mn, tok), attrs={'maj_code': maj, 'min_code': mn, 'token': tok})
    return [rely_outs(cx, v, ('gss_step', (tuple(cx.args), v))),
            rely_outs(cx, VNone, ('gss_step!raise', (tuple(cx.args), None)), exc=e)]


executor_stub.modifies = ()


def never_spec(qualname, stubs, params=None, loops=None, local_types=None, raises=None):
    st = {'self.send_success': send_success_stub(never), 'self.send_failure': send_failure_stub,
          'self.send_packet': auth_send_packet_stub}
    st.update(stubs)
    return Spec(
        PROP, 'auth', qualname, self_class='ServerAuth', params=params or dict(packet='obj:SSHPacket'),
        classes=GSSM_CLASSES, inline=dict(PACKET_INLINE), truthy=PACKET_TRUTHY, stubs=st,
        loops=loops or {}, local_types=local_types or {},
        requires=lambda c: z3.And(packet_wf(c, c.argv('packet')), not_cancelled(c.ex, c.new_state),
                                  bound(c.ex, c.new_state)),
        always=[('never-grants', no_success)],
        raises=raises if raises is not None else {'PacketDecodeError': True, 'Exception': True})


_gm_l1 = LoopSpec(invariant=lambda c: packet_wf(c, c.localv('packet')))
_gm_l1.havoc_locals = ['packet']
_gm_l2 = LoopSpec(invariant=lambda c: z3.BoolVal(True))
gssmic_start = never_spec(
    '_ServerGSSMICAuth._start', {'GSS.reset': ev_stub('gss_reset')},
    loops={1: _gm_l1, 2: _gm_l2},
    local_types={'packet': 'obj:SSHPacket', 'mechs': 'set[bytes]', 'match': 'opt[bytes]', 'mech': 'bytes'})
gssmic_start.feasible_timeout_ms = 400

TOKEN_PARAMS = dict(_pkttype='int', _pktid='int', packet='obj:SSHPacket')
gssmic_process_token = never_spec(
    '_ServerGSSMICAuth._process_token', {'run_in_executor': executor_stub,
                                         'str': lambda cx: cx.fresh('str', 'str_of_exc')}, params=TOKEN_PARAMS)
gssmic_process_error_token = never_spec(
    '_ServerGSSMICAuth._process_error_token', {'run_in_executor': executor_stub,
                                               'str': lambda cx: cx.fresh('str', 'str_of_exc')}, params=TOKEN_PARAMS)


# definitional instances of lower_s for the lower-case keywords looked up through the inlined get_key_option
for _sp in (validate_client_public_key, validate_openssh_certificate, validate_x509_certificate_chain):
    _sp.lemmas = lower_defs


# quick-tier budget (second audit round: 58 functions): sample fewer paths of the packet-parsing functions for the
# CPython cross-check and give branch pruning (unknown = feasible) a short fuse where it only runs into the timeout
for _sp, _n in ((process_userauth_request, 3), (hostbased_start, 3), (kbdint_start, 3), (password_start, 5),
                (publickey_start, 5), (pty_req, 3), (gssmic_process_token, 4), (gssmic_process_error_token, 4),
                (validate_host_based_auth, 6), (gsskex_start, 5)):
    _sp.crosscheck_limit = _n
for _sp in (process_userauth_request, hostbased_start, kbdint_start, password_start, publickey_start, gsskex_start,
            pty_req, validate_host_based_auth):
    _sp.feasible_timeout_ms = 250


# ====================================================================================================
# permitopen="host:port" of the accepted key: a direct-tcpip channel is opened only to a (host, port) pair the
# credential's permitopen set contains - BOTH components matching (the port may be the '*' wildcard, stored as None).
# The contract object is C20's (contracts/c20.py: permitopen_allows / open_gate_*); re-registered so that this
# restriction of the accepted credential is also checked under C05.
# ====================================================================================================
try:
    from . import c20 as C20
    _po = getattr(C20, 'process_direct_tcpip_open', None)
    if _po is not None:
        direct_tcpip_open = _copy.copy(_po)
        direct_tcpip_open.prop = PROP
        Spec.registry.append(direct_tcpip_open)
except ImportError:
    pass
