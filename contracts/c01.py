"""C01 — encrypted transport is tamper-evident in both directions.  Sidecar contracts.

(a) _recv_packet: once receive keys are in effect, a payload reaches a handler only if decrypt_packet was
    called exactly once on (seq, first block, rest, 4, mac) with the framing RFC 4253 prescribes and returned a
    value; the payload handed on is derived from that value only; a missing/false result is a MACError.
(b) per cipher suite (encryption.py): the tag is verified over exactly (seq, length, body, padding) and plaintext
    is released only on success; ETM never touches the cipher before the MAC passes.
(c) mac.py: verify(seq, p, sig) <=> sig == sign(seq, p); sign covers UInt32(seq) || p.
(d) the sequence number bound into (a) is the receive counter (class invariant proved under C06).
(e) send_newkeys: the six keys are derived with the letters A..F of RFC 4253 7.2 and installed in the right
    direction (so the two directions never share a MAC or cipher key), session id written once.
(f) the primitives that decide "tag verified": crypto/cipher.py GCMCipher.verify_and_decrypt / encrypt_and_sign /
    _update_iv (IV = RFC 5647 successor after EVERY call, also a failed one; plaintext only when the tag verified),
    crypto/chacha.py ChachaCipher.verify_and_decrypt / encrypt_and_sign, poly1305_verify / poly1305 (payload keystream
    only after the tag verified), mac.py _UMAC.sign / verify - library primitives uninterpreted.
(g) sending side: encrypt_packet of the four Encryption classes (what the sender authenticates: seq, length, body,
    padding - shared with C02).
(h) _recv_data: a receive step that fails (MACError, ProtocolError, ...) is answered with DISCONNECT + _force_close,
    anything else with internal_error(); _finish_recv_packet: the receive counter moves by exactly one per accepted
    packet.  That the connection then really is closed and delivers nothing more is C10's part of the argument.
(i) end of the transport: eof_received / connection_lost while the connection is still open (no DISCONNECT received or
    sent, no error) reach _force_close with an error (ConnectionLost), never with None - whatever is buffered; an
    error given by the transport is passed on unchanged; _force_close hands the reason it was given to _cleanup.
    mac.py: a tag whose length differs from the negotiated MAC size never verifies (_HMAC, _UMAC, _NullMAC); the MAC
    table pairs every hash_size with a handler that produces tags of that size (data lemma).
(j) strict kex (prefix truncation): _process_kexinit[record] (C06's contract object registered under C01) - strict kex
    is switched on exactly when the PEER's first KEXINIT carries the marker of the peer's role; _recv_packet: no
    IGNORE/UNIMPLEMENTED/DEBUG reaches a handler before the first keys under strict kex; bounded native grid.
    (f) is stated on the meaning of the AES-GCM library calls (one-shot AESGCM and the Cipher/GCM context API); the
    GCMCipher class view is completed from the source of __init__ (fields_from_init), so extra state is analysed.
(k) _get_extra_kex_algs: our KEXINIT offers the strict-kex marker of OUR role in every state (and never the peer's);
    _send_kexinit (C03's contract object registered under C01): the kex list sent is expand_kex_algs(..) ++ that list.
"""
import z3
from pyvc.contracts import *
from pyvc.engine import LoopSpec, Out, Prove
from pyvc.values import *
from pyvc.builtins_model import be, unbe
from .common import *

ASSUMPTIONS = [
    'MAC / AEAD unforgeability and hmac.compare_digest are cryptographic / library assumptions: the primitives are '
    'uninterpreted functions',
    'the 16-cipher x MAC table itself is data; every suite goes through one of the four Encryption classes under contract, '
    'which delegate to mac.py (_HMAC, _UMAC, _NullMAC), GCMCipher and ChachaCipher - all under contract here',
    'library contracts (trusted, cryptography.hazmat AES-GCM, one-shot and context API - the table above '
    'gcm_verify_and_decrypt): the tag is checked by AESGCM.decrypt / decryptor.finalize() / finalize_with_tag() and only '
    'there (InvalidTag otherwise); update() returns unauthenticated output of the same length; GCM() rejects tags '
    'shorter than min_tag_length or longer than 16 bytes; AESGCM.encrypt / encryptor.finalize()+.tag produce one seal '
    'with a 16-byte tag',
    'GCMCipher class view: the key is _key (today) or a cached algorithms.AES(key) object _alg; requires says both '
    'denote the key handed to __init__ (the only writer; not under contract)',
    'strict kex: the contract object of C06 (c06_handlers.kexinit_strict) is registered under C01 unchanged (plus the '
    'inlined role helper _get_extra_kex_algs); its refutations are quantified (list membership) and come back '
    '`unknown` from the solvers - they count as VIOLATION through the baseline guard (obligation proved in the '
    'baseline, source changed) and the bounded native grid specs/c06_native.py supplies the concrete failing input',
    'library contracts (trusted): AESGCM.decrypt returns the plaintext iff the tag verifies and raises InvalidTag '
    'otherwise, AESGCM.encrypt appends a 16-byte tag; Poly1305.verify_tag returns iff tag == Poly1305(key, data) and '
    'raises InvalidSignature otherwise; hmac.new / umac objects are functions of their arguments',
    '"the connection ends with an integrity or protocol error": C01 proves that _recv_data answers a failed step with '
    '_send_disconnect(code of the error) and _force_close(error) (internal_error() for anything else); that '
    '_force_close / internal_error / _cleanup close the transport, clear the input buffer and let nothing escape is '
    'proved under C10 (_recv_data#always(error-means-closed), _force_close#post(closed-afterwards))',
    '_recv_packet requires need >= _recv_macsize, i.e. a peer-chosen packet_length >= blocksize - 4: a shorter '
    '(hostile) length makes the slice arithmetic negative BEFORE the tag is checked; that state is excluded from the '
    'contract (RFC 4253 6: a packet is at least one block), it is not proved harmless here',
    'a verified packet whose padding_length byte is 0 (malformed per RFC 4253 6, minimum 4) is treated as the code '
    'treats it (empty payload -> PacketDecodeError); the bytes are authenticated either way',
    'class invariants of the MAC objects used as requires of sign/verify: _HMAC 1 <= _hash_size <= digest_size(_hash_alg), '
    '_UMAC _hash_size == tag size of the variant; the only writer is MAC.__init__ / _HMAC.__init__ / _UMAC.__init__ '
    'called from get_mac with a row of _mac_algs_list, and every row satisfies it (lemma mac-table-tag-sizes, read '
    'from the AST of mac.py; digest sizes taken from hashlib, umac64/umac128 tag sizes 8/16 from the variant names)',
    'library contracts (trusted): hmac.new(key, data, alg).digest() is alg.digest_size bytes long; the umac object\'s '
    'digest() has the tag size of its variant',
    'end of the transport: asyncio calls eof_received() / connection_lost(exc) when the stream ends (asyncio protocol '
    'contract); what _cleanup(exc) then tells channels, waiters and the owner is C09\'s contract of '
    'SSHConnection._cleanup; locally requested closes (abort(), disconnect(), close()) and a received '
    'SSH_MSG_DISCONNECT (_process_disconnect, C10) are the orderly ways to end and are not constrained here',
    '(d) the receive counter clause is proved on _finish_recv_packet here; who else writes _recv_seq (nobody but '
    '__init__) is the frame condition checked under C06',
]


def opt_set(c, name, old=True):
    v = c.oldv(name) if old else c.newv(name)
    return z3.Not(v.isnone)


def process_packet_stub(cx):
    r = cx.fresh('any', 'handler_result')
    ev = ('process_packet', (cx.recv,) + tuple(cx.args))
    return [Out(ret=r, event=ev), Out(exc=VExc('PacketDecodeError'), event=ev),
            Out(exc=VExc('ProtocolError'), event=ev)]


process_packet_stub.modifies = ()


def need(c):
    return 4 + c.old('_pktlen') + c.old('_recv_macsize') - c.old('_recv_blocksize')


def verified_before_release(c):
    """keys in effect => exactly one decrypt_packet call, on the RFC framing of this packet, before any handler"""
    st = c.new_state
    dec = [x for x in c.calls() if x['key'].endswith('decrypt_packet')]
    evs = c.events('process_packet')
    enc = opt_set(c, '_recv_encryption')
    buf = c.old('_inpbuf')
    rem = need(c)
    msz = c.old('_recv_macsize')
    if not evs and not dec:
        # nothing delivered; if the packet was complete and keys are in effect a verification must have happened
        consumed = z3.Length(c.new('_inpbuf')) < z3.Length(buf)
        return z3.Implies(z3.And(enc, consumed), z3.BoolVal(False))
    conj = []
    if dec:
        d = dec[0]
        a = d['args']
        conj += [z3.BoolVal(len(dec) == 1), enc,
                 a[0].z == c.old('_recv_seq'),
                 a[1].z == c.old('_packet'),
                 a[2].z == z3.Extract(buf, 0, rem - msz),
                 a[3].z == 4,
                 a[4].z == z3.Extract(buf, rem - msz, msz),
                 # the tag handed to the check has exactly the negotiated MAC size (the AEAD libraries take "the last
                 # 16 bytes" of what they are given as the tag, the MACs compare against a tag of that size)
                 z3.Length(a[4].z) == msz]
    else:
        conj.append(z3.Not(enc))
    for _n, (h, pkttype, seq, packet) in evs:
        payload = st.rec(packet).fields['_packet']
        comp = [x for x in c.calls() if x['key'].endswith('.decompress')]
        if comp:
            src = comp[0]['args'][0]
            conj.append(to_z3(payload, 'bytes') == comp[0]['ret'].val.z)
        else:
            src = payload
        if dec:
            plain = dec[0]['ret'].val.z
            conj.append(z3.Not(dec[0]['ret'].isnone))
            conj.append(z3.Length(plain) > 0)
        else:
            plain = z3.Concat(z3.Extract(c.old('_packet'), 4, z3.Length(c.old('_packet')) - 4),
                              z3.Extract(buf, 0, rem - msz))
        # RFC 4253 6: payload = packet[1 : len - padding_length]
        padlen = plain[0]
        # (a sender that announces padding length 0 violates RFC 4253 6 - minimum 4 - and Python's [1:-0] then
        # yields an empty payload; what matters is that nothing but the verified plaintext is used)
        conj.append(z3.If(padlen == 0, z3.Length(to_z3(src, 'bytes')) == 0,
                          to_z3(src, 'bytes') == z3.Extract(plain, 1, z3.Length(plain) - padlen - 1)))
    return z3.And(conj) if conj else z3.BoolVal(True)


def failed_verification_is_fatal(c):
    dec = [x for x in c.calls() if x['key'].endswith('decrypt_packet')]
    if not dec:
        return z3.BoolVal(True)
    r = dec[0]['ret']
    bad = z3.Or(r.isnone, z3.Length(r.val.z) == 0)
    return z3.Implies(bad, z3.BoolVal(c.raised == 'MACError' and len(c.events('process_packet')) == 0))


recv_packet = Spec(
    'C01', 'connection', 'SSHConnection._recv_packet', self_class='SSHConnection',
    classes=dict(CONN_CLASSES, **PACKET_CLASSES), inline=dict(PACKET_INLINE), truthy=PACKET_TRUTHY,
    stubs={
        'self._recv_encryption.decrypt_packet': ret('opt[bytes]', 'decrypted'),
        'self._decompressor.decompress': ret('opt[bytes]', 'decompressed'),
        '*.log_received_packet': noop(),
        '*.process_packet': process_packet_stub,
        'self.create_task': ret('obj:Task', 'task'),
        'task.add_done_callback': noop(),
        'functools.partial': lambda cx: VTag('partial'),
        'self.send_packet': noop('send_packet'),
        'self._finish_recv_packet': noop('finish'),
    },
    requires=lambda c: z3.And(c.old('_pktlen') >= 0, c.old('_recv_macsize') >= 0, c.old('_recv_blocksize') >= 8,
                              c.old('_recv_seq') >= 0, c.old('_recv_seq') < 2 ** 32,
                              z3.Length(c.old('_packet')) == c.old('_recv_blocksize'),
                              need(c) >= c.old('_recv_macsize')),
    always=[('verified-before-release', verified_before_release),
            ('failed-verification-is-fatal', failed_verification_is_fatal),
            ('counter-advance-is-for-the-verified-sequence-number', lambda c: z3.And(
                [z3.BoolVal(len(c.events('finish')) <= 1)] +
                [a[1].z == c.old('_recv_seq') for _n, a in c.events('finish')] +
                # (asynchronous handlers: the advance is deferred to the task's done-callback, same number)
                [x['args'][2].z == c.old('_recv_seq') for x in c.calls('functools.partial')] +
                # a packet that was accepted (True) advanced the counter exactly once, now
                ([z3.Implies(c.result, z3.BoolVal(len(c.events('finish')) == 1))] if c.raised is None else [])))],
    raises={'MACError': True, 'CompressionError': True, 'ProtocolError': True, 'PacketDecodeError': True},
    returns='bool')


# (d) the receive counter: +1 mod 2^32 for every accepted packet, so that a dropped / duplicated / reordered packet
# meets a different number than the one its tag was computed over; reset only at NEWKEYS under strict kex.  (The
# full contract of this function - handler re-arming, async rollover - is C06's; this is the C01 clause.)
finish_recv_packet = Spec(
    'C01', 'connection', 'SSHConnection._finish_recv_packet', self_class='SSHConnection',
    params=dict(pkttype='int', seq='int', _task='none', is_async='bool'), classes=CONN_CLASSES,
    stubs={'self._recv_data': noop('recv_data'), 'self._send_disconnect': noop('disconnect'),
           'self._force_close': noop('force_close')},
    requires=lambda c: z3.And(c.arg('seq') >= 0, c.arg('seq') < 2 ** 32, c.arg('pkttype') >= 0,
                              c.arg('pkttype') <= 255, c.old('_recv_seq') == c.arg('seq')),
    ensures=[('receive-counter-plus-one-mod-2^32-or-strict-reset-at-newkeys', lambda c: z3.Implies(
        z3.And(opt_set(c, '_transport'),
               # sequence rollover before the first keys ends the connection instead (RFC 4253 6.4 / strict kex)
               z3.Not(z3.And(c.old('_recv_seq') == 0xffffffff, z3.Not(opt_set(c, '_recv_encryption'))))),
        c.new('_recv_seq') == z3.If(z3.And(c.arg('pkttype') == 21, c.old('_strict_kex')), 0,
                                    (c.arg('seq') + 1) % 2 ** 32)))],
    raises={'ProtocolError': lambda c: z3.And(c.old('_recv_seq') == 0xffffffff,
                                              z3.Not(opt_set(c, '_recv_encryption')))})


# ------------------------------------------------------------------ _recv_data: a failed check ends the connection
# "the connection ends with an integrity or protocol error": MACError / ProtocolError / PacketDecodeError raised by a
# receive step are DisconnectErrors; _recv_data must answer with DISCONNECT carrying that error's code and force the
# connection closed, and anything else must go to internal_error().  What _force_close / internal_error / _cleanup
# do then (transport gone, input buffer cleared, nothing delivered afterwards, nothing escapes) is proved under C10
# (`_recv_data#always(error-means-closed)`, `_force_close#post(closed-afterwards)`, `internal_error#post`).
def failing_step_stub(cx):
    code = cx.fresh('int', 'disc_code')
    disc = VExc('DisconnectError', attrs={'code': code, 'reason': cx.fresh('str', 'disc_reason'),
                                          'lang': cx.fresh('str', 'disc_lang')})
    buf = cx.fresh('bytes', 'inpbuf_after')
    return [Out(ret=cx.fresh('bool', 'handler_result'), sets={'_inpbuf': buf}),
            Out(exc=disc, sets={'_inpbuf': buf}), Out(exc=VExc('Exception'), sets={'_inpbuf': buf})]


failing_step_stub.modifies = ('_inpbuf',)


def error_ends_connection(c):
    steps = c.calls('_recv_handler')
    failed = [x for x in steps if x['exc'] is not None]
    order = [x['key'].rsplit('.', 1)[-1] for x in c.calls()
             if x['key'].rsplit('.', 1)[-1] in ('_send_disconnect', '_force_close', 'internal_error')]
    if not failed:
        return z3.BoolVal(order == [])
    exc = failed[0]['exc']
    if exc.cls == 'DisconnectError':
        sd = c.calls('_send_disconnect')
        fc = c.calls('_force_close')
        if order != ['_send_disconnect', '_force_close']:
            return z3.BoolVal(False)
        return z3.And(sd[0]['args'][0].z == exc.attrs['code'].z, z3.BoolVal(fc[0]['args'][0] is exc))
    return z3.BoolVal(order == ['internal_error'])


recv_data = Spec(
    'C01', 'connection', 'SSHConnection._recv_data', self_class='SSHConnection',
    classes={'SSHConnection': {'_inpbuf': 'bytes', '_recv_handler': 'tag'}},
    stubs={'self._reset_keepalive_timer': noop(), 'self._recv_handler': failing_step_stub,
           'self._send_disconnect': noop('send_disconnect'), 'self._force_close': noop('force_close'),
           'self.internal_error': noop('internal_error')},
    loops={1: LoopSpec(header='self._inpbuf and self._recv_handler()', modifies=['_inpbuf'],
                       invariant=lambda c: z3.BoolVal(True))},
    always=[('a-failed-receive-step-sends-disconnect-and-forces-the-connection-closed', error_ends_connection)],
    raises={})


# ------------------------------------------------------------------ end of the transport: truncation is an error
# "removal ... of bytes is detected": cutting the stream (at any point, also exactly between two packets) removes
# everything after the cut.  The only authenticated way for a peer to end an SSH connection is SSH_MSG_DISCONNECT
# (RFC 4253 11.1); a transport that ends without one - eof_received(), or connection_lost() while the connection is
# still open on our side (_transport set: no DISCONNECT was received or sent, no error closed it) - must reach the
# application as an error, never as an orderly close (exc = None), whatever is or is not buffered at that moment.
EXC = 'opt[opaque:Exception]'
LOST_CONN = dict(CONN_FIELDS, _loop='obj:Loop', _transport='opt[obj:Transport]')
LOST_CLASSES = dict(CONN_CLASSES, SSHConnection=LOST_CONN, Loop={}, Transport={})


def is_error(c, v):
    """v (what is reported as the reason of the close) is an exception object, not None"""
    if isinstance(v, VExc):
        return z3.BoolVal(True)
    return z3.Not(c.is_none(v))


def force_close_reports(c):
    """an open connection: transport aborted, _cleanup(exc) scheduled exactly once with the reason it was given;
    an already closed one: nothing (the first reason stands)"""
    ev = c.events('call_soon')
    was_open = z3.Not(c.is_none(c.oldv('_transport')))
    if not ev:
        return z3.Not(was_open)
    cleanups = [a for _n, a in ev if len(a) >= 1 and isinstance(a[0], VTag) and a[0].tag.endswith('_cleanup')]
    if len(cleanups) != 1 or len(cleanups[0]) != 2:
        return z3.BoolVal(False)
    return z3.And(was_open, c.is_none(c.newv('_transport')), c.eq(cleanups[0][1], c.argv('exc')))


c01_force_close = Spec(
    'C01', 'connection', 'SSHConnection._force_close', self_class='SSHConnection', params={'exc': EXC},
    classes=LOST_CLASSES,
    # loop.call_soon only queues a callback (asyncio contract): it does not run it and does not raise
    stubs={'self._loop.call_soon': noop('call_soon')},
    modifies=['_transport'],
    ensures=[('the-reason-given-is-the-reason-reported-to-cleanup', force_close_reports),
             ('closed-afterwards', lambda c: c.is_none(c.newv('_transport')))],
    raises={})


def c01_force_close_stub(cx):
    outs = contract_stub(lambda: c01_force_close)(cx)
    for o in outs:
        o.event = ('force_close', tuple(cx.args))
    return outs


c01_force_close_stub.modifies = ('_transport',)
c01_force_close_stub.spec_getter = lambda: c01_force_close


def transport_end_is_an_error(given):
    """exactly one _force_close; an error given by the transport is passed on unchanged; no error given but the
    connection still open on our side => the reason is an error (ConnectionLost), never None"""
    def clause(c):
        ev = c.events('force_close')
        if len(ev) != 1:
            return z3.BoolVal(False)
        a = ev[0][1][0]
        g = given(c)
        was_open = z3.Not(c.is_none(c.oldv('_transport')))
        passed_on = z3.BoolVal(True) if g is VNone else z3.Implies(z3.Not(c.is_none(g)), c.eq(a, g))
        if isinstance(a, VExc):
            # (an exception made here: it has to be the "connection lost" error, a DisconnectError)
            made = z3.BoolVal(a.cls == 'ConnectionLost')
        else:
            made = z3.BoolVal(True)
        return z3.And(passed_on, made, z3.Implies(z3.And(c.is_none(g), was_open), is_error(c, a)))
    return clause


connection_lost = Spec(
    'C01', 'connection', 'SSHConnection.connection_lost', self_class='SSHConnection', params={'exc': EXC},
    classes=LOST_CLASSES, stubs={'self._force_close': c01_force_close_stub}, modifies=['_transport'],
    always=[('a-transport-that-ends-while-the-connection-is-open-is-reported-as-an-error',
             transport_end_is_an_error(lambda c: c.argv('exc')))],
    ensures=[('closed-afterwards', lambda c: c.is_none(c.newv('_transport')))],
    raises={})

eof_received = Spec(
    'C01', 'connection', 'SSHConnection.eof_received', self_class='SSHConnection',
    classes=LOST_CLASSES, inline={'self.connection_lost': ('connection', 'SSHConnection.connection_lost')},
    stubs={'self._force_close': c01_force_close_stub}, modifies=['_transport'],
    always=[('end-of-file-without-disconnect-is-reported-as-an-error',
             transport_end_is_an_error(lambda c: VNone))],
    ensures=[('closed-afterwards', lambda c: c.is_none(c.newv('_transport')))],
    raises={})


# ------------------------------------------------------------------ encryption.py: verify before release
# primitives as uninterpreted functions over bytes
dec_f = z3.Function('cipher_decrypt', BytesS, BytesS)


def cipher_decrypt(cx):
    return [Out(ret=VBytes(dec_f(cx.args[0].z)), event=('decrypt', tuple(cx.args)))]


cipher_decrypt.modifies = ()


def mac_verify(cx):
    ok = cx.fresh('bool', 'mac_ok')
    return [Out(ret=ok, event=('verify', tuple(cx.args)))]


mac_verify.modifies = ()

ENC_CLASSES = {'BasicEncryption': {'_cipher': 'obj:Cipher', '_mac': 'obj:MAC'},
               'ETMEncryption': {'_cipher': 'obj:Cipher', '_mac': 'obj:MAC'}, 'Cipher': {}, 'MAC': {}}
DEC_PARAMS = dict(seq='int', first='bytes', rest='bytes', header_len='int', mac='bytes')


def basic_post(c):
    """MAC-then-encrypt: MAC checked over seq and the whole plaintext packet first||dec(rest); plaintext
    (minus the length field) returned iff it verified"""
    v = c.events('verify')
    d = c.events('decrypt')
    conj = [z3.BoolVal(len(v) == 1), z3.BoolVal(len(d) == 1)]
    if len(v) == 1 and len(d) == 1:
        pk = z3.Concat(c.arg('first'), dec_f(c.arg('rest')))
        a = v[0][1]
        conj += [a[0].z == c.arg('seq'), a[1].z == pk, a[2].z == c.arg('mac')]
        ok = c.calls('verify')[0]['ret'].z
        r = c.result_v
        conj.append(z3.If(ok, z3.And(z3.Not(c.is_none(r)),
                                     c.eq(r, VBytes(z3.Extract(pk, c.arg('header_len'),
                                                               z3.Length(pk) - c.arg('header_len'))))),
                          c.is_none(r)))
    return z3.And(conj)


def etm_post(c):
    """encrypt-then-MAC: MAC checked over seq and the ciphertext first||rest; the cipher is not touched
    unless the MAC verified"""
    v = c.events('verify')
    d = c.events('decrypt')
    conj = [z3.BoolVal(len(v) == 1)]
    if len(v) == 1:
        pk = z3.Concat(c.arg('first'), c.arg('rest'))
        a = v[0][1]
        conj += [a[0].z == c.arg('seq'), a[1].z == pk, a[2].z == c.arg('mac')]
        ok = c.calls('verify')[0]['ret'].z
        r = c.result_v
        body = z3.Extract(pk, c.arg('header_len'), z3.Length(pk) - c.arg('header_len'))
        conj.append(z3.If(ok, z3.And(z3.BoolVal(len(d) == 1), z3.Not(c.is_none(r)),
                                     c.eq(r, VBytes(dec_f(body)))),
                          z3.And(z3.BoolVal(len(d) == 0), c.is_none(r))))
        # order: verify precedes decrypt in the call log
        keys = [x['key'].rsplit('.', 1)[-1] for x in c.calls()]
        if 'decrypt' in keys and 'verify' in keys:
            conj.append(z3.BoolVal(keys.index('verify') < keys.index('decrypt')))
    return z3.And(conj)


for _cls, _post in (('BasicEncryption', basic_post), ('ETMEncryption', etm_post)):
    Spec('C01', 'encryption', f'{_cls}.decrypt_packet', self_class=_cls, params=DEC_PARAMS,
         classes=ENC_CLASSES,
         stubs={'self._cipher.decrypt': cipher_decrypt, 'self._mac.verify': mac_verify},
         requires=lambda c: z3.And(c.arg('header_len') == 4, z3.Length(c.arg('first')) >= 4,
                                   c.arg('seq') >= 0, c.arg('seq') < 2 ** 32),
         ensures=[('tag-verified-over-the-right-bytes-before-release', _post)],
         returns='opt[bytes]')


def aead_stub(name):
    def stub(cx):
        r = cx.fresh('opt[bytes]', 'aead_plain')
        return [Out(ret=r, event=(name, tuple(cx.args)))]
    stub.modifies = ()
    return stub


def gcm_post(c):
    e = c.events('vd')
    if len(e) != 1:
        return z3.BoolVal(False)
    a = e[0][1]
    first, rest = c.arg('first'), c.arg('rest')
    return z3.And(a[0].z == z3.Extract(first, 0, 4),                       # AAD = the length field
                  a[1].z == z3.Concat(z3.Extract(first, 4, z3.Length(first) - 4), rest),
                  a[2].z == c.arg('mac'),
                  c.eq(c.result_v, c.calls('verify_and_decrypt')[0]['ret']))


Spec('C01', 'encryption', 'GCMEncryption.decrypt_packet', self_class='GCMEncryption', params=DEC_PARAMS,
     classes={'GCMEncryption': {'_cipher': 'obj:Cipher'}, 'Cipher': {}},
     stubs={'self._cipher.verify_and_decrypt': aead_stub('vd')},
     requires=lambda c: z3.And(c.arg('header_len') == 4, z3.Length(c.arg('first')) >= 4),
     ensures=[('aead-over-length-and-body', gcm_post)], returns='opt[bytes]')


def chacha_post(c):
    e = c.events('vd')
    if len(e) != 1:
        return z3.BoolVal(False)
    a = e[0][1]
    first, rest = c.arg('first'), c.arg('rest')
    return z3.And(a[0].z == z3.Extract(first, 0, 4),
                  a[1].z == z3.Concat(z3.Extract(first, 4, z3.Length(first) - 4), rest),
                  a[2].z == be(z3.IntVal(8), c.arg('seq')),               # nonce = UInt64(seq)
                  a[3].z == c.arg('mac'),
                  c.eq(c.result_v, c.calls('verify_and_decrypt')[0]['ret']))


Spec('C01', 'encryption', 'ChachaEncryption.decrypt_packet', self_class='ChachaEncryption', params=DEC_PARAMS,
     classes={'ChachaEncryption': {'_cipher': 'obj:Cipher'}, 'Cipher': {}},
     stubs={'self._cipher.verify_and_decrypt': aead_stub('vd')},
     requires=lambda c: z3.And(c.arg('header_len') == 4, z3.Length(c.arg('first')) >= 4,
                               c.arg('seq') >= 0, c.arg('seq') < 2 ** 32),
     ensures=[('aead-over-length-and-body-nonce-is-seq', chacha_post)], returns='opt[bytes]',
     raises={})


# ------------------------------------------------------------------ mac.py
# "a tag whose length differs from the negotiated MAC size never verifies": the MAC size the connection slices off the
# stream (_recv_macsize) is the hash_size column of the MAC table, which is what every MAC object gets as _hash_size.
# Library contracts (trusted): hmac.new(key, data, alg).digest() is a function of (key, data, alg) and is
# alg.digest_size bytes long; umac_alg(key, msg, nonce).digest() is a function of its arguments and as long as the
# variant's tag (umac64: 8, umac128: 16).  That every row of the MAC table has 1 <= hash_size <= digest_size (HMAC) /
# hash_size == tag size (UMAC) is data: lemma `mac-table-tag-sizes` in extra_checks.
HashAlgS = opaque_sort('HashAlg')
UmacAlgS = opaque_sort('UmacAlg')
hmac_f = z3.Function('hmac_digest', BytesS, BytesS, HashAlgS, BytesS)      # (key, data, digestmod) -> digest
digest_size_f = z3.Function('hash_digest_size', HashAlgS, IntS)
umac_size_f = z3.Function('umac_tag_size', UmacAlgS, IntS)


def hmac_new_stub(cx):
    key, data = cx.args[0], cx.args[1]
    alg = cx.args[2] if len(cx.args) > 2 else cx.kwargs['digestmod']
    o = cx.fresh('obj:HM', 'hm')
    d = hmac_f(key.z, data.z, alg.z)
    cx.st.set_field(o, 'ghost_d', VBytes(d))
    return [Out(ret=o, assume=[z3.Length(d) == digest_size_f(alg.z)], event=('hmac_new', (key, data, alg)))]


hmac_new_stub.modifies = ()


def hmac_digest_stub(cx):
    return [Out(ret=cx.ex.get_field(cx.st, cx.recv, 'ghost_d'))]


hmac_digest_stub.modifies = ()

MAC_CLASSES = {'_HMAC': {'_key': 'bytes', '_hash_size': 'int', '_hash_alg': 'opaque:HashAlg'}, 'HM': {'ghost_d': 'bytes'},
               '_NullMAC': {}}
HMAC_STUBS = {'hmac.new': hmac_new_stub, 'hmac.new().digest': hmac_digest_stub, 'HM.digest': hmac_digest_stub}


def hmac_tag(c):
    """RFC 4253 6.4: mac = MAC(key, sequence_number || unencrypted_packet), truncated to the negotiated size"""
    data = z3.Concat(be(z3.IntVal(4), c.arg('seq')), c.arg('packet'))
    return z3.Extract(hmac_f(c.old('_key'), data, c.old('_hash_alg')), 0, c.old('_hash_size'))


def hmac_inv(c):
    """class invariant of _HMAC (written by __init__ only, from a row of the MAC table - see the data lemma)"""
    return z3.And(c.arg('seq') >= 0, c.arg('seq') < 2 ** 32, c.old('_hash_size') >= 1,
                  c.old('_hash_size') <= digest_size_f(c.old('_hash_alg')))


hmac_sign = Spec('C01', 'mac', '_HMAC.sign', self_class='_HMAC', params=dict(seq='int', packet='bytes'),
                 classes=MAC_CLASSES, stubs=dict(HMAC_STUBS), requires=hmac_inv, modifies=[],
                 ensures=[('rfc4253-6.4-mac-over-seq-and-packet', lambda c: c.result == hmac_tag(c)),
                          ('tag-has-the-negotiated-mac-size',
                           lambda c: z3.Length(c.result) == c.old('_hash_size'))],
                 returns='bytes')


def compare_digest_stub(cx):
    # assumed contract of hmac.compare_digest: equality of its two arguments
    return [Out(ret=VBool(cx.args[0].z == cx.args[1].z))]


compare_digest_stub.modifies = ()


def wrong_size_never_verifies(c):
    """a tag whose length differs from the negotiated MAC size never verifies (whatever its bytes are)"""
    return z3.Implies(c.result, z3.Length(c.arg('sig')) == c.old('_hash_size'))


# (hmac.new is stubbed here too, so that a verify that computes the digest itself is analysed, not "unsupported")
hmac_verify = Spec('C01', 'mac', '_HMAC.verify', self_class='_HMAC',
                   params=dict(seq='int', packet='bytes', sig='bytes'), classes=MAC_CLASSES,
                   stubs=dict(HMAC_STUBS, **{'self.sign': contract_stub(lambda: hmac_sign),
                                             'hmac.compare_digest': compare_digest_stub}),
                   requires=hmac_inv, modifies=[],
                   ensures=[('verify-iff-sig-equals-mac-of-seq-and-packet',
                             lambda c: c.result == (c.arg('sig') == hmac_tag(c))),
                            ('a-tag-of-another-size-than-the-negotiated-mac-size-never-verifies',
                             wrong_size_never_verifies)],
                   returns='bool')

null_verify = Spec('C01', 'mac', '_NullMAC.verify', self_class='_NullMAC',
                   params=dict(seq='int', packet='bytes', sig='bytes'), classes=MAC_CLASSES,
                   ensures=[('null-mac-accepts-only-the-empty-tag',
                             lambda c: c.result == (z3.Length(c.arg('sig')) == 0))], returns='bool')


# _UMAC (umac-64 / umac-128, OpenSSH PROTOCOL): tag = UMAC(key, message = packet, nonce = UInt64(seq)); the
# primitive is an uninterpreted function of (variant, key, message, nonce)
umac_f = z3.Function('umac_digest', UmacAlgS, BytesS, BytesS, BytesS, BytesS)


def umac_new_stub(cx):
    alg = cx.selff('_umac_alg')
    o = cx.fresh('obj:UM', 'um')
    d = umac_f(alg.z, cx.args[0].z, cx.args[1].z, cx.args[2].z)
    cx.st.set_field(o, 'ghost_d', VBytes(d))
    return [Out(ret=o, assume=[z3.Length(d) == umac_size_f(alg.z)], event=('umac', tuple(cx.args)))]


umac_new_stub.modifies = ()

UMAC_CLASSES = {'_UMAC': {'_key': 'bytes', '_hash_size': 'int', '_umac_alg': 'opaque:UmacAlg'},
                'UM': {'ghost_d': 'bytes'}}
UMAC_STUBS = {'self._umac_alg': umac_new_stub, 'self._umac_alg().digest': hmac_digest_stub,
              'UM.digest': hmac_digest_stub}


def umac_tag(c):
    return umac_f(c.old('_umac_alg'), c.old('_key'), c.arg('packet'), be(z3.IntVal(8), c.arg('seq')))


def umac_inv(c):
    """class invariant of _UMAC (written by __init__ only, from a row of the MAC table - see the data lemma)"""
    return z3.And(c.arg('seq') >= 0, c.arg('seq') < 2 ** 32, c.old('_hash_size') >= 1,
                  c.old('_hash_size') == umac_size_f(c.old('_umac_alg')))


umac_sign = Spec('C01', 'mac', '_UMAC.sign', self_class='_UMAC', params=dict(seq='int', packet='bytes'),
                 classes=UMAC_CLASSES, stubs=dict(UMAC_STUBS), requires=umac_inv, modifies=[],
                 ensures=[('umac-over-packet-with-nonce-uint64-seq', lambda c: c.result == umac_tag(c)),
                          ('tag-has-the-negotiated-mac-size',
                           lambda c: z3.Length(c.result) == c.old('_hash_size'))],
                 returns='bytes')

umac_verify = Spec('C01', 'mac', '_UMAC.verify', self_class='_UMAC',
                   params=dict(seq='int', packet='bytes', sig='bytes'), classes=UMAC_CLASSES,
                   stubs=dict(UMAC_STUBS, **{'self.sign': contract_stub(lambda: umac_sign),
                                             'hmac.compare_digest': compare_digest_stub}),
                   requires=umac_inv, modifies=[],
                   ensures=[('verify-iff-sig-equals-umac-of-packet-under-nonce-seq',
                             lambda c: c.result == (c.arg('sig') == umac_tag(c))),
                            ('a-tag-of-another-size-than-the-negotiated-mac-size-never-verifies',
                             wrong_size_never_verifies)],
                   returns='bool')


def mac_table_lemma():
    """data: every row of mac.py's _mac_algs_list pairs its hash_size (the MAC size the connection negotiates and
    slices off the stream) with a handler whose tag can have that size: _HMAC rows 1 <= hash_size <= digest_size of
    the hash, _UMAC rows hash_size == tag size of the variant, the _NullMAC row hash_size == 0"""
    import ast
    import hashlib
    from pyvc import extract
    mod = extract.get_module('mac')
    umac = {'umac64': 8, 'umac128': 16}
    rows, bad = [], []
    for node in ast.walk(mod.tree):
        tgt = None
        if isinstance(node, ast.AnnAssign) and isinstance(node.target, ast.Name):
            tgt = node.target.id
        elif isinstance(node, ast.AugAssign) and isinstance(node.target, ast.Name):
            tgt = node.target.id
        elif isinstance(node, ast.Assign) and isinstance(node.targets[0], ast.Name):
            tgt = node.targets[0].id
        if tgt != '_mac_algs_list' or not isinstance(node.value, ast.Tuple):
            continue
        for row in node.value.elts:
            name = ast.unparse(row.elts[0])
            size = ast.literal_eval(row.elts[2])
            handler = ast.unparse(row.elts[4])
            args = [ast.unparse(a) for a in row.elts[5].elts]
            rows.append((name, size, handler, args))
            if handler == '_HMAC':
                ok = len(args) == 1 and hasattr(hashlib, args[0]) and 1 <= size <= getattr(hashlib, args[0])().digest_size
            elif handler == '_UMAC':
                ok = len(args) == 1 and umac.get(args[0]) == size
            elif handler == '_NullMAC':
                ok = size == 0 and not args
            else:
                ok = False
            if not ok:
                bad.append((name, size, handler, args))
    ok = len(rows) >= 1 and not bad
    return {'name': 'C01.mac._mac_algs_list#mac-table-tag-sizes', 'verdict': 'proved' if ok else 'refuted',
            'detail': {'rows': len(rows), 'bad': bad}, 'backend': 'data (AST literal)', 'replayed': True}


def strict_kex_native_grid():
    """Bounded native stand-in (NOT counted as proof): the region contract of _process_kexinit registered below cannot
    be replayed natively, and a refutation of its membership clause is quantified (the solvers answer `unknown`);
    specs/c06_native.py runs the REAL _process_kexinit in both roles over the grid peer-marker x first-exchange x
    receive-keys x sequence-number x strict-before and compares _strict_kex / the first-packet rule with OpenSSH
    PROTOCOL 1.10, which supplies concrete failing inputs."""
    import json
    import os
    import subprocess
    from pyvc import extract
    name = 'C01.bounded#strict-kex-enabled-exactly-when-the-peer-offers-it(native, 64-case grid)'
    script = os.path.join(os.path.dirname(os.path.dirname(os.path.abspath(__file__))), 'specs', 'c06_native.py')
    try:
        p = subprocess.run(['/venv/bin/python', script], capture_output=True, text=True,
                           env=dict(os.environ, PYTHONPATH=extract.REPO), timeout=120)
        out = json.loads(p.stdout)
        return {'name': name, 'inputs': out['cases'], 'violations': out['violations']}
    except Exception as e:      # harness trouble is never a verdict
        return {'name': name, 'inputs': 0, 'violations': [], 'error': repr(e)}


def extra_checks(tier, seed):
    return {'lemmas': [mac_table_lemma()], 'bounded': [strict_kex_native_grid()]}


# ------------------------------------------------------------------ crypto/cipher.py: AES-GCM (RFC 5647)
# AES-GCM has no explicit sequence number: the 64-bit invocation counter inside the IV IS the replay / reorder
# protection, so it has to move exactly once per packet on BOTH outcomes of the tag check.
#
# The contract is stated on the MEANING of the library calls, not on which of them are used:
#   sealed_ok(key, iv, ct || tag, aad)   "tag is the AES-GCM tag of (ct, aad) under (key, iv)"        (uninterpreted)
#   gcm_open(key, iv, ct || tag, aad)    the plaintext of ct                                            (uninterpreted)
#   gcm_seal(key, iv, pt, aad)           ct || tag, 16-byte tag                                         (uninterpreted)
# Library contracts (cryptography.hazmat, trusted) - the tag is checked by AESGCM.decrypt / by the decryptor's
# finalize() / finalize_with_tag() and ONLY there:
#   AESGCM(key).decrypt(iv, blob, aad)    returns gcm_open(..) iff sealed_ok(key, iv, blob, aad), else raises InvalidTag
#   AESGCM(key).encrypt(iv, pt, aad)      returns gcm_seal(key, iv, pt, aad)
#   Cipher(AES(key), GCM(iv[, tag[, min_tag_length]])).decryptor() / .encryptor()    a context; GCM() raises ValueError
#                                         for a tag shorter than min_tag_length or longer than 16 bytes
#   ctx.authenticate_additional_data(a)   appends to the AAD, checks nothing
#   ctx.update(d)                         returns len(d) bytes of UNAUTHENTICATED output, checks nothing
#   decryptor.finalize() / finalize_with_tag(t)   returns b'' iff sealed_ok(key, iv, input || tag, aad) (16-byte tag; a
#                                         shorter, truncated tag is checked by some other predicate - unconstrained
#                                         here), and then the concatenated update() outputs are gcm_open(..);
#                                         raises InvalidTag otherwise (ValueError without a tag)
#   encryptor.finalize()                  returns b'', sets .tag with update outputs || tag == gcm_seal(key, iv, input, aad)
# A body that returns plaintext without having reached a checking call knows nothing about sealed_ok and fails.
sealed_ok_f = z3.Function('aesgcm_sealed_ok', BytesS, BytesS, BytesS, BytesS, z3.BoolSort())   # (key, iv, ct||tag, aad)
gcm_dec_f = z3.Function('aesgcm_open', BytesS, BytesS, BytesS, BytesS, BytesS)      # (key, iv, ct||tag, aad)
gcm_enc_f = z3.Function('aesgcm_seal', BytesS, BytesS, BytesS, BytesS, BytesS)      # (key, iv, pt, aad)
GCM_TAG = 16
EMPTY = z3.Empty(BytesS)


def _lib(fn):
    fn.modifies = ()
    return fn


@_lib
def aesgcm_ctor(cx):
    o = cx.fresh('obj:AESGCM', 'aesgcm')
    cx.st.set_field(o, 'ghost_key', cx.args[0])
    return [Out(ret=o)]


@_lib
def aesgcm_decrypt(cx):
    key = cx.ex.get_field(cx.st, cx.recv, 'ghost_key')
    iv, data, aad = cx.args
    ok = sealed_ok_f(key.z, iv.z, data.z, aad.z)
    ev = ('gcm_check', (key, iv, data, aad, cx.selff('_iv')))
    return [Out(ret=VBytes(gcm_dec_f(key.z, iv.z, data.z, aad.z)), assume=[ok], event=ev),
            Out(exc=VExc('InvalidTag'), assume=[z3.Not(ok)], event=ev)]


@_lib
def aesgcm_encrypt(cx):
    key = cx.ex.get_field(cx.st, cx.recv, 'ghost_key')
    iv, data, aad = cx.args
    ct = gcm_enc_f(key.z, iv.z, data.z, aad.z)
    return [Out(ret=VBytes(ct), assume=[z3.Length(ct) == z3.Length(data.z) + GCM_TAG],
                event=('gcm_seal', (key, iv, data, aad, cx.selff('_iv'))))]


@_lib
def aes_alg_ctor(cx):                      # algorithms.AES(key)
    o = cx.fresh('obj:AESAlg', 'aes_alg')
    cx.st.set_field(o, 'ghost_key', cx.args[0])
    return [Out(ret=o)]


@_lib
def gcm_mode_ctor(cx):                     # modes.GCM(initialization_vector, tag=None, min_tag_length=16)
    args = list(cx.args)
    iv = args[0] if args else cx.kwargs['initialization_vector']
    tag = args[1] if len(args) > 1 else cx.kwargs.get('tag', VNone)
    mtl = args[2] if len(args) > 2 else cx.kwargs.get('min_tag_length', VInt(16))
    o = cx.fresh('obj:GCMMode', 'gcm_mode')
    cx.st.set_field(o, 'ghost_iv', iv)
    if tag is VNone:
        cx.st.set_field(o, 'ghost_has_tag', VBool(False))
        cx.st.set_field(o, 'ghost_tag', VBytes(EMPTY))
        return [Out(ret=o)]
    cx.st.set_field(o, 'ghost_has_tag', VBool(True))
    cx.st.set_field(o, 'ghost_tag', tag)
    fits = z3.And(z3.Length(tag.z) >= cx.ex.as_int(mtl), z3.Length(tag.z) <= GCM_TAG)
    return [Out(ret=o, assume=[fits]), Out(exc=VExc('ValueError'), assume=[z3.Not(fits)])]


@_lib
def cipher_ctor(cx):                       # Cipher(algorithm, mode)
    alg, mode = cx.args[0], cx.args[1]
    o = cx.fresh('obj:CipherObj', 'cipher')
    cx.st.set_field(o, 'ghost_key', cx.ex.get_field(cx.st, alg, 'ghost_key'))
    for f in ('ghost_iv', 'ghost_has_tag', 'ghost_tag'):
        cx.st.set_field(o, f, cx.ex.get_field(cx.st, mode, f))
    return [Out(ret=o)]


def _aead_ctx(enc):
    @_lib
    def stub(cx):                          # Cipher.decryptor() / Cipher.encryptor()
        o = cx.fresh('obj:AEADCtx', 'aead_ctx')
        for f in ('ghost_key', 'ghost_iv', 'ghost_has_tag', 'ghost_tag'):
            cx.st.set_field(o, f, cx.ex.get_field(cx.st, cx.recv, f))
        cx.st.set_field(o, 'ghost_enc', VBool(enc))
        for f in ('ghost_aad', 'ghost_in', 'ghost_out', 'tag'):
            cx.st.set_field(o, f, VBytes(EMPTY))
        return [Out(ret=o)]
    return stub


def _cat(a, b):
    """concatenation that keeps terms small: x ++ empty is x"""
    if a.eq(EMPTY):
        return b
    if b.eq(EMPTY):
        return a
    return z3.Concat(a, b)


def _ctxf(cx, f):
    return cx.ex.get_field(cx.st, cx.recv, f)


@_lib
def ctx_aad(cx):
    cx.st.set_field(cx.recv, 'ghost_aad', VBytes(_cat(_ctxf(cx, 'ghost_aad').z, cx.args[0].z)))
    return [Out(ret=VNone)]


@_lib
def ctx_update(cx):
    """unauthenticated keystream output: as long as the input, otherwise unconstrained; checks nothing"""
    d = cx.args[0]
    out = cx.fresh('bytes', 'gcm_update_out')
    cx.st.set_field(cx.recv, 'ghost_in', VBytes(_cat(_ctxf(cx, 'ghost_in').z, d.z)))
    cx.st.set_field(cx.recv, 'ghost_out', VBytes(_cat(_ctxf(cx, 'ghost_out').z, out.z)))
    return [Out(ret=out, assume=[z3.Length(out.z) == z3.Length(d.z)], event=('gcm_update', (d,)))]


def _ctx_finalize(with_tag):
    @_lib
    def stub(cx):
        key, iv, aad = _ctxf(cx, 'ghost_key').z, _ctxf(cx, 'ghost_iv').z, _ctxf(cx, 'ghost_aad').z
        inp, outp = _ctxf(cx, 'ghost_in').z, _ctxf(cx, 'ghost_out').z
        if z3.is_true(z3.simplify(_ctxf(cx, 'ghost_enc').z)):
            t = cx.fresh('bytes', 'gcm_tag')
            cx.st.set_field(cx.recv, 'tag', t)
            return [Out(ret=VBytes(EMPTY), assume=[z3.Length(t.z) == GCM_TAG,
                                                   _cat(outp, t.z) == gcm_enc_f(key, iv, inp, aad)],
                        event=('gcm_seal', (VBytes(key), VBytes(iv), VBytes(inp), VBytes(aad), cx.selff('_iv'))))]
        if with_tag:
            tag = cx.args[0].z
        elif z3.is_true(z3.simplify(_ctxf(cx, 'ghost_has_tag').z)):
            tag = _ctxf(cx, 'ghost_tag').z
        else:
            return [Out(exc=VExc('ValueError'))]
        blob = _cat(inp, tag)
        other = cx.fresh('bool', 'truncated_tag_ok').z
        ok = z3.If(z3.Length(tag) == GCM_TAG, sealed_ok_f(key, iv, blob, aad), other)
        ev = ('gcm_check', (VBytes(key), VBytes(iv), VBytes(blob), VBytes(aad), cx.selff('_iv')))
        return [Out(ret=VBytes(EMPTY), assume=[ok, outp == gcm_dec_f(key, iv, blob, aad)], event=ev),
                Out(exc=VExc('InvalidTag'), assume=[z3.Not(ok)], event=ev)]
    return stub


_GHOST_MODE = {'ghost_key': 'bytes', 'ghost_iv': 'bytes', 'ghost_has_tag': 'bool', 'ghost_tag': 'bytes'}
# class view: the key is held either raw (_key, today's representation) or as a cached algorithms.AES(key) object;
# `gcm_inv` says both denote the same key (written by __init__ only)
GCM_CLASSES = {'GCMCipher': {'_iv': 'bytes', '_key': 'bytes', '_alg': 'obj:AESAlg'},
               'AESGCM': {'ghost_key': 'bytes'}, 'AESAlg': {'ghost_key': 'bytes'},
               'GCMMode': dict(_GHOST_MODE), 'CipherObj': dict(_GHOST_MODE),
               'AEADCtx': dict(_GHOST_MODE, ghost_enc='bool', ghost_aad='bytes', ghost_in='bytes', ghost_out='bytes',
                               tag='bytes')}
GCM_LIB = {'AESGCM': aesgcm_ctor, 'AESGCM().decrypt': aesgcm_decrypt, 'AESGCM.decrypt': aesgcm_decrypt,
           'AESGCM().encrypt': aesgcm_encrypt, 'AESGCM.encrypt': aesgcm_encrypt,
           '_algs.AES': aes_alg_ctor, 'AES': aes_alg_ctor, 'GCM': gcm_mode_ctor, 'Cipher': cipher_ctor,
           'CipherObj.decryptor': _aead_ctx(False), 'CipherObj.encryptor': _aead_ctx(True),
           'AEADCtx.authenticate_additional_data': ctx_aad, 'AEADCtx.update': ctx_update,
           'AEADCtx.finalize': _ctx_finalize(False), 'AEADCtx.finalize_with_tag': _ctx_finalize(True)}


def fields_from_init(module, cls, declared):
    """Class view taken from the source: every `self.X = <expr>` of `cls.__init__` (read from the tree under
    analysis) whose type can be told from the expression - an annotated parameter, a bytes slice / index,
    int.from_bytes / len / int arithmetic, a literal - is added to the declared fields, so that a body which keeps
    more (or differently shaped) state than today's is still analysed instead of being `unsupported`."""
    import ast
    from pyvc import extract
    out = dict(declared)
    try:
        fn = extract.get_module(module).get_function(cls + '.__init__')
    except Exception:
        return out
    ann = {a.arg: ast.unparse(a.annotation) for a in fn.args.args if a.annotation is not None}
    known = {n: t for n, t in ann.items() if t in ('bytes', 'int', 'str', 'bool')}

    def typ(e):
        if isinstance(e, ast.Constant):
            return {bytes: 'bytes', bool: 'bool', int: 'int', str: 'str'}.get(type(e.value))
        if isinstance(e, ast.Name):
            return known.get(e.id)
        if isinstance(e, ast.Attribute) and isinstance(e.value, ast.Name) and e.value.id == 'self':
            return out.get(e.attr) if out.get(e.attr) in ('bytes', 'int', 'str', 'bool') else None
        if isinstance(e, ast.Subscript) and typ(e.value) == 'bytes':
            return 'bytes' if isinstance(e.slice, ast.Slice) else 'int'
        if isinstance(e, ast.Call) and ast.unparse(e.func) in ('int.from_bytes', 'len', 'int'):
            return 'int'
        if isinstance(e, ast.Call) and ast.unparse(e.func) in ('bytes', 'bytearray'):
            return 'bytes'
        if isinstance(e, ast.BinOp):
            l, r = typ(e.left), typ(e.right)
            return l if l == r and l in ('int', 'bytes') else None
        return None

    for node in ast.walk(fn):
        tgt, val = None, None
        if isinstance(node, ast.Assign) and len(node.targets) == 1:
            tgt, val = node.targets[0], node.value
        elif isinstance(node, ast.AnnAssign) and node.value is not None:
            tgt, val = node.target, node.value
        if isinstance(tgt, ast.Attribute) and isinstance(tgt.value, ast.Name) and tgt.value.id == 'self' \
                and tgt.attr not in out:
            t = typ(val)
            if t:
                out[tgt.attr] = t
    return out


GCM_CLASSES['GCMCipher'] = fields_from_init('crypto.cipher', 'GCMCipher', GCM_CLASSES['GCMCipher'])


def gcm_inv(c):
    alg_key = c.old_state.rec(c.oldv('_alg')).fields['ghost_key'].z
    return z3.And(z3.Length(c.old('_iv')) == 12, alg_key == c.old('_key'))


def rfc5647_next(old_iv, new_iv):
    """RFC 5647 7.1: fixed field (4 bytes) unchanged, 64-bit invocation counter + 1 mod 2^64"""
    return z3.And(z3.Length(new_iv) == 12, z3.Extract(new_iv, 0, 4) == z3.Extract(old_iv, 0, 4),
                  unbe(z3.Extract(new_iv, 4, 8)) == (unbe(z3.Extract(old_iv, 4, 8)) + 1) % 2 ** 64)


gcm_update_iv = Spec(
    'C01', 'crypto.cipher', 'GCMCipher._update_iv', self_class='GCMCipher', classes=GCM_CLASSES,
    requires=lambda c: z3.Length(c.old('_iv')) == 12, modifies=['_iv'],
    ensures=[('rfc5647-invocation-counter-plus-one-fixed-field-kept',
              lambda c: rfc5647_next(c.old('_iv'), c.new('_iv')))],
    raises={})


def iv_advanced_once(c):
    """the IV after the call is the RFC 5647 successor of the IV before it - on every outcome"""
    return rfc5647_next(c.old('_iv'), c.new('_iv'))


def gcm_vd_post(c):
    """no plaintext is returned unless the tag check of exactly this packet - (data || mac, AAD = the length field)
    under the key and the CURRENT iv - ran and succeeded, and then it is the plaintext of that packet; a packet whose
    tag is right is accepted"""
    blob = z3.Concat(c.arg('data'), c.arg('mac'))
    ok = sealed_ok_f(c.old('_key'), c.old('_iv'), blob, c.arg('header'))
    r = c.result_v
    return z3.And(z3.Implies(z3.Not(c.is_none(r)),
                             z3.And(ok, c.eq(r, VBytes(gcm_dec_f(c.old('_key'), c.old('_iv'), blob, c.arg('header')))))),
                  # (a genuine packet is accepted; AES-GCM tags are 16 bytes - what happens to a tag of another size is
                  # only constrained by the first conjunct: it is never accepted unless the blob authenticates)
                  z3.Implies(z3.And(ok, z3.Length(c.arg('mac')) == GCM_TAG), z3.Not(c.is_none(r))))


def one_tag_check(c):
    """at most one tag check per call, made before the IV moves (the check is bound to this packet's counter)"""
    e = c.events('gcm_check')
    return z3.And([z3.BoolVal(len(e) <= 1)] + [a[4].z == c.old('_iv') for _n, a in e])


gcm_verify_and_decrypt = Spec(
    'C01', 'crypto.cipher', 'GCMCipher.verify_and_decrypt', self_class='GCMCipher',
    params=dict(header='bytes', data='bytes', mac='bytes'), classes=GCM_CLASSES,
    stubs=dict(GCM_LIB, **{'self._update_iv': contract_stub(lambda: gcm_update_iv)}),
    requires=gcm_inv,
    ensures=[('plaintext-released-only-when-the-tag-verified', gcm_vd_post)],
    always=[('iv-advanced-exactly-once-also-on-a-failed-tag', iv_advanced_once),
            ('one-tag-check-under-the-current-iv', one_tag_check)],
    returns='opt[bytes]', raises={})


def gcm_es_post(c):
    """wire = length field in clear || ciphertext, tag = the 16-byte tag, of ONE seal of (data, AAD = the length
    field) under the key and the current iv"""
    sealed = gcm_enc_f(c.old('_key'), c.old('_iv'), c.arg('data'), c.arg('header'))
    r = c.result_v
    e = c.events('gcm_seal')
    return z3.And([z3.BoolVal(len(e) == 1),
                   r.items[0].z == z3.Concat(c.arg('header'), z3.Extract(sealed, 0, z3.Length(sealed) - GCM_TAG)),
                   r.items[1].z == z3.Extract(sealed, z3.Length(sealed) - GCM_TAG, GCM_TAG)] +
                  [a[4].z == c.old('_iv') for _n, a in e])


gcm_encrypt_and_sign = Spec(
    'C01', 'crypto.cipher', 'GCMCipher.encrypt_and_sign', self_class='GCMCipher',
    params=dict(header='bytes', data='bytes'), classes=GCM_CLASSES,
    stubs=dict(GCM_LIB, **{'self._update_iv': contract_stub(lambda: gcm_update_iv)}),
    requires=gcm_inv,
    ensures=[('aead-seal-under-current-iv-aad-is-the-length-field', gcm_es_post)],
    always=[('iv-advanced-exactly-once', iv_advanced_once)],
    returns='tuple[bytes,bytes]', raises={})


# ------------------------------------------------------------------ crypto/chacha.py: chacha20-poly1305@openssh.com
# OpenSSH PROTOCOL.chacha20poly1305: K_2 = main key (payload, block counter 1; Poly1305 key = first 32 bytes of the
# keystream with block counter 0), K_1 = header key; nonce = UInt64(seq); tag = Poly1305 over enc(length) || enc(payload)
# verified BEFORE the payload is decrypted.  Primitives are uninterpreted.
chacha_f = z3.Function('chacha20_stream', BytesS, BytesS, BytesS, IntS, BytesS)      # (key, data, nonce, ctr)
polykey_f = z3.Function('poly1305_key', BytesS, BytesS, BytesS)                    # (key, nonce)
polytag_f = z3.Function('poly1305_tag', BytesS, BytesS, BytesS)                    # (one-time key, data)


def chacha20_stub(cx):
    k, d, n, ctr = cx.args
    ctr_z = cx.ex.as_int(ctr)
    return [Out(ret=VBytes(chacha_f(k.z, d.z, n.z, ctr_z)), event=('chacha20', tuple(cx.args)))]


chacha20_stub.modifies = ()


def poly1305_key_stub(cx):
    return [Out(ret=VBytes(polykey_f(cx.args[0].z, cx.args[1].z)))]


poly1305_key_stub.modifies = ()


def poly_verify_tag_stub(cx):
    """library contract (cryptography Poly1305.verify_tag, trusted): returns normally iff tag == Poly1305(key, data),
    raises InvalidSignature otherwise"""
    k, d, t = cx.args
    good = t.z == polytag_f(k.z, d.z)
    ev = ('verify_tag', tuple(cx.args))
    return [Out(ret=VNone, assume=[good], event=ev), Out(exc=VExc('InvalidSignature'), assume=[z3.Not(good)], event=ev)]


poly_verify_tag_stub.modifies = ()


def poly_generate_tag_stub(cx):
    k, d = cx.args
    return [Out(ret=VBytes(polytag_f(k.z, d.z)), event=('generate_tag', tuple(cx.args)))]


poly_generate_tag_stub.modifies = ()


def poly_ok(key, data, nonce, tag):
    return tag == polytag_f(polykey_f(key, nonce), data)


POLY_PARAMS = dict(key='bytes', data='bytes', nonce='bytes', tag='bytes')

poly1305_verify = Spec(
    'C01', 'crypto.chacha', 'poly1305_verify', params=POLY_PARAMS,
    stubs={'poly1305_key': poly1305_key_stub, 'Poly1305.verify_tag': poly_verify_tag_stub},
    globals={'Poly1305': VTag('class:Poly1305')},
    ensures=[('true-iff-the-tag-is-the-poly1305-of-the-data-under-the-per-packet-key',
              lambda c: c.result == poly_ok(c.arg('key'), c.arg('data'), c.arg('nonce'), c.arg('tag')))],
    returns='bool', raises={})

poly1305_sign = Spec(
    'C01', 'crypto.chacha', 'poly1305', params=dict(key='bytes', data='bytes', nonce='bytes'),
    stubs={'poly1305_key': poly1305_key_stub, 'Poly1305.generate_tag': poly_generate_tag_stub},
    globals={'Poly1305': VTag('class:Poly1305')},
    ensures=[('tag-is-the-poly1305-of-the-data-under-the-per-packet-key',
              lambda c: c.result == polytag_f(polykey_f(c.arg('key'), c.arg('nonce')), c.arg('data')))],
    returns='bytes', raises={})

CHACHA_CLASSES = {'ChachaCipher': {'_key': 'bytes', '_adkey': 'bytes'}}


def chacha_vd_post(c):
    """tag checked over header || data (the ciphertext of length field and body) with the per-packet key of the MAIN
    key; the payload keystream (block counter 1) is produced only after, and only if, the tag verified"""
    v = c.calls('poly1305_verify')
    if len(v) != 1:
        return z3.BoolVal(False)
    a = v[0]['args']
    ok = v[0]['ret'].z
    ks = c.events('chacha20')
    conj = [a[0].z == c.old('_key'), a[1].z == z3.Concat(c.arg('header'), c.arg('data')),
            a[2].z == c.arg('nonce'), a[3].z == c.arg('tag')]
    keys = [x['key'] for x in c.calls()]
    if ks:
        conj += [ok, z3.BoolVal(len(ks) == 1), z3.BoolVal(keys.index('poly1305_verify') < keys.index('chacha20')),
                 z3.Not(c.is_none(c.result_v)),
                 c.eq(c.result_v, VBytes(chacha_f(c.old('_key'), c.arg('data'), c.arg('nonce'), z3.IntVal(1))))]
    else:
        conj += [z3.Not(ok), c.is_none(c.result_v)]
    return z3.And(conj)


chacha_verify_and_decrypt = Spec(
    'C01', 'crypto.chacha', 'ChachaCipher.verify_and_decrypt', self_class='ChachaCipher',
    params=dict(header='bytes', data='bytes', nonce='bytes', tag='bytes'), classes=CHACHA_CLASSES,
    stubs={'poly1305_verify': contract_stub(lambda: poly1305_verify), 'chacha20': chacha20_stub},
    ensures=[('payload-keystream-only-after-the-tag-verified', chacha_vd_post)],
    returns='opt[bytes]', raises={})


def chacha_es_post(c):
    """header under K_1 (counter 0), payload under K_2 (counter 1), tag over the two CIPHERTEXTS under K_2's
    per-packet Poly1305 key"""
    hdr = chacha_f(c.old('_adkey'), c.arg('header'), c.arg('nonce'), z3.IntVal(0))
    body = chacha_f(c.old('_key'), c.arg('data'), c.arg('nonce'), z3.IntVal(1))
    wire = z3.Concat(hdr, body)
    r = c.result_v
    return z3.And(r.items[0].z == wire,
                  r.items[1].z == polytag_f(polykey_f(c.old('_key'), c.arg('nonce')), wire))


chacha_encrypt_and_sign = Spec(
    'C01', 'crypto.chacha', 'ChachaCipher.encrypt_and_sign', self_class='ChachaCipher',
    params=dict(header='bytes', data='bytes', nonce='bytes'), classes=CHACHA_CLASSES,
    stubs={'poly1305': contract_stub(lambda: poly1305_sign), 'chacha20': chacha20_stub},
    ensures=[('openssh-chacha20-poly1305-seal', chacha_es_post)],
    returns='tuple[bytes,bytes]', raises={})


# ------------------------------------------------------------------ (e) directional key separation at NEWKEYS
# the same contract as C02's send_newkeys, registered for C01: an attacker who reflects a packet into the other
# direction must fail the tag check, which needs the two directions to use keys derived with different letters
from . import c02 as _c02                                     # noqa: E402

send_newkeys = Spec(
    'C01', 'connection', 'SSHConnection.send_newkeys', self_class='SSHConnection',
    params=dict(k='bytes', h='bytes'),
    classes={c: dict(fs) for c, fs in _c02.send_newkeys.classes.items()},
    stubs=dict(_c02.send_newkeys.stubs),
    requires=_c02.send_newkeys.requires,
    ensures=[('rfc4253-7.2-letters-and-directions', _c02.newkeys_keys)],
    raises={'UnicodeDecodeError': True, 'AssertionError': lambda c: z3.BoolVal(False)})
send_newkeys.model_timeout_ms = 2500
send_newkeys.confirm_attempts = 24

# ------------------------------------------------------------------ sending side: what the sender authenticates
# the four encrypt_packet contracts (RFC 4253 6.4 / OpenSSH etm / RFC 5647 / chacha20-poly1305) are the C02 ones,
# registered for C01 as the sending half of "tamper-evident in both directions"
encrypt_packet_specs = _c02.mk_encrypt_packet_specs('C01')


# ------------------------------------------------------------------ strict key exchange (OpenSSH PROTOCOL 1.10)
# Before the first keys are in effect nothing is authenticated, so an attacker can INSERT cleartext packets (IGNORE,
# DEBUG, ...) to shift the implicit sequence numbers and then REMOVE as many packets from the start of the encrypted
# stream without any tag failing (prefix truncation).  The encrypted transport is tamper-evident from its first packet
# only under strict kex, which therefore has to be switched on whenever the PEER offers it: a client that sees
# kex-strict-s-v00@openssh.com / a server that sees kex-strict-c-v00@openssh.com in the peer's first KEXINIT.
# The contract is C06's (c06_handlers.kexinit_strict: `strict-kex-negotiated-only-in-first-exchange-from-peer-marker`,
# `strict-kex:KEXINIT-accepted-only-as-first-packet`, `strict-violation-is-fatal-and-inert`): the same contract object
# is registered under C01, with the one-line role helper _get_extra_kex_algs inlined from its real source so that a
# body which consults it is analysed.  The receive-counter reset at NEWKEYS is `_finish_recv_packet` above, the
# "no ignorable message before the first keys" rule is the clause added to `_recv_packet` here.
def _register_strict_kex_under_c01():
    import copy
    from . import c06_handlers as _h
    cp = copy.copy(_h.kexinit_strict)
    cp.prop = 'C01'
    cp.inline = dict(cp.inline or {}, **{
        'self._get_extra_kex_algs': ('connection', 'SSHConnection._get_extra_kex_algs')})
    Spec.registry.append(cp)
    return cp


kexinit_strict_c01 = _register_strict_kex_under_c01()


def strict_no_ignorable_before_keys(c):
    """strict kex, no receive keys yet: IGNORE / UNIMPLEMENTED / DEBUG (2..4) reach no handler and end the
    connection with a protocol error (they would otherwise move the sequence number unnoticed)"""
    pre = z3.And(c.old('_strict_kex'), z3.Not(opt_set(c, '_recv_encryption')))
    conj = []
    for _n, (h, pkttype, seq, packet) in c.events('process_packet'):
        conj.append(z3.Implies(pre, z3.Not(z3.And(pkttype.z >= 2, pkttype.z <= 4))))
    if c.raised is None and not c.events('process_packet') and c.calls('_finish_recv_packet'):
        # accepted without a handler (ignored first kex packet): never one of the ignorable types
        for x in c.calls('_finish_recv_packet'):
            conj.append(z3.Implies(pre, z3.Not(z3.And(x['args'][0].z >= 2, x['args'][0].z <= 4))))
    return z3.And(conj) if conj else z3.BoolVal(True)


recv_packet.always.append(('strict-kex:no-ignorable-message-before-the-first-keys', strict_no_ignorable_before_keys))


# ------------------------------------------------------------------ strict kex is OFFERED: what our KEXINIT advertises
# Prefix truncation must be detectable whenever both peers support strict kex, so this side has to offer it in EVERY
# KEXINIT it sends, whatever its own state (_strict_kex is the RESULT of the negotiation, it cannot be its condition):
# the pseudo-algorithms appended to our kex list contain the strict-kex marker of OUR role.  That the list sent is
# expand_kex_algs(..) ++ exactly this list is C03's `send_kexinit_c03` (registered under C01 below, same object).
def own_marker_offered(c):
    isc = z3.is_true(z3.simplify(c.old('_is_client')))
    marker = bytes_const(b'kex-strict-c-v00@openssh.com' if isc else b'kex-strict-s-v00@openssh.com')
    other = bytes_const(b'kex-strict-s-v00@openssh.com' if isc else b'kex-strict-c-v00@openssh.com')
    r = c.result_v
    if isinstance(r, VRef):                  # a list object built step by step lives on the heap
        r = c.new_state.heap[r.addr]
    if isinstance(r, VList):
        items = [to_z3(x, 'bytes') for x in r.items]
        return z3.And(z3.Or([x == marker for x in items] + [z3.BoolVal(False)]),
                      z3.And([x != other for x in items] + [z3.BoolVal(True)]))
    from specs.seqs import member_z
    rz = to_z3(r, 'seq[bytes]')
    return z3.And(member_z(rz, marker), z3.Not(member_z(rz, other)))


get_extra_kex_algs = Spec(
    'C01', 'connection', 'SSHConnection._get_extra_kex_algs', self_class='SSHConnection',
    classes=CONN_CLASSES, stubs=dict(ROLE_STUBS),
    cases=[('client', {'_is_client': True}), ('server', {'_is_client': False})],
    ensures=[('our-kexinit-always-offers-the-strict-kex-marker-of-our-role-and-never-the-peers', own_marker_offered)],
    returns='seq[bytes]', modifies=[], raises={})


def _register_send_kexinit_under_c01():
    import copy
    from . import c03 as _c03
    cp = copy.copy(_c03.send_kexinit_c03)
    cp.prop = 'C01'
    Spec.registry.append(cp)
    return cp


send_kexinit_c01 = _register_send_kexinit_under_c01()
